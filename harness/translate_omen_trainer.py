#!/venv/bin/python
"""Fail-closed translator of the OMEN TRAINER (pass 2, smoothing, the writer, the alphabet) from Python to Gallina.

    /venv/bin/python harness/translate_omen_trainer.py            print the generated text
    /venv/bin/python harness/translate_omen_trainer.py --write    write coq/gen/OmenTrainer*_gen.v

Sources (only parsed with `ast`, never imported or executed) and outputs:
  core   lib_trainer/omen/smoothing.py         _calc_level, smooth_grammar, smooth_length
         lib_trainer/omen/alphabet_lookup.py   AlphabetLookup.__init__, is_in_alphabet, parse, apply_smoothing
         -> coq/gen/OmenTrainer_gen.v
  out    lib_trainer/omen/omen_file_output.py  _save_alphabet, save_omen_rules_to_disk
         -> coq/gen/OmenTrainerOut_gen.v
  alpha  lib_trainer/omen/alphabet_generator.py  AlphabetGenerator.__init__, process_password, get_alphabet
         -> coq/gen/OmenTrainerAlpha_gen.v
The output targets coq/theories/OmenTrainer.v (the Python objects as values, exceptions as values,
sequence / dict operations) and coq/theories/OmenTrainerRt.v (loops, try).  coq/theories/
OmenTrainerGenProofs*.v prove every generated definition equal to the hand-written model of
OmenTrainer.v / OmenLevel.v / OmenKeyspace.v that the theorems of C11 / C18 are about.

How Python values are represented (the representation is the trusted part):

  int                Z;  float: binary64 primitive float;  bool;  None (only as "no result")
  str                ostr = list N (code points); a one-character str obtained from s[i], from iterating
                     a str, or used as a key of 'next_letter' / AlphabetGenerator.dictionary is a code point N
  tuple              a Coq pair; the (level, count) tuples stored in next_letter / ln_lookup are the
                     constructor NLevel of the sum type nval (NCount n = the int n stored there before
                     smoothing): arithmetic on an NLevel and a subscript of an NCount are TypeError
  AlphabetLookup     record alookup (attributes), a grammar entry: record gentry (the constant keys
                     'ip_count' 'ep_count' 'cp_count' 'next_letter', and 'ip_level' 'ep_level' which may
                     be absent: option, KeyError), program_info: record pinfo ('encoding' 'ngram' 'alphabet'),
                     AlphabetGenerator: record agen
  dict / Counter     association list in insertion order (afind / aset / amem); a Counter read is 0 on
                     a missing key; Counter.most_common() is OmenTrainer.most_common_by (stable
                     descending insertion sort: Python's for values totally ordered by <, i.e. no NaN)
  list               Coq list; l[i] = x is tsetindex
  a mutable object   is a VALUE in a Coq variable named like the Python ROOT it is reachable from (a
                     parameter, self, a local created by Counter() / {} / a literal); a store rebinds
                     that variable to the updated value; a local name for a sub-object (index =
                     self.grammar[k]) is a name for its PATH from the root, with the keys captured at the
                     binding.  This is sound because in the accepted subset an object at a path is never
                     replaced or deleted: a container is stored only as a NEW key (directly under `if k
                     not in D:` for the same k and D), everything else stored is immutable.  A function
                     that mutates a parameter returns the final value of that parameter.
  the directory      fs : list (path * text); `with open / codecs.open(p, 'w', ...) as f` collects the
                     f.write(...) arguments in a string and puts it at p when the block ends; encodings
                     are not modelled (text = code points); os.path.join(a, b) is a ++ "/" ++ b
  math.log, math.floor, str(float)   the parameters mlog, mfloor, mrepr of the generated definitions
                     (total oracles: ValueError / OverflowError of log / floor are not modelled)
  _save_config       the parameter save_config (configparser is not modelled)

Accepted subset (anything else raises TranslateError with file:line):

  statements  x = e;  x op= e (+ - *);  P = e / P op= e for a path P (attributes of the records, constant
              string keys, d[k], l[i]);  if / elif / else (a conditional followed by more statements
              that can leave on some path gets the following statements copied into both branches);
              for over range(..), a str, enumerate(list), a dict / .keys() / .values() / .items() (two targets, or one
              target holding the pair when the dict is not changed in the loop), a list value
              (no else; while the loop runs the iterated container may only be changed by stores to
              EXISTING positions: `d[k] = v` for the loop's own key, `l[i] = v`; then the loop reads the
              live element by key / index, else it iterates the pairs);  continue;  return [e];
              try: .. except [E [as x]]: .. [else: ..] with one handler (ZeroDivisionError, KeyError, IndexError,
              TypeError, IOError, Exception or bare; `raise` re-raises; the else block is not protected);  with open(..) as f;
              f.write(e);  print(..) (arguments evaluated for their exceptions, output dropped);
              make_sure_path_exists(..) (dropped: the OS is not modelled);  docstrings;  pass;
              calls of translated functions as statements, as a whole right-hand side or as a whole
              `if [not] f(..):` test (positional / keyword arguments, defaults filled in).
  expressions names; int / float / str constants; + - * / on ints and floats (int / int and float / int
              raise ZeroDivisionError on a zero divisor, an int operand of a float operation is
              converted with zfloat: exact below 2^53); + on strings; unary -; comparisons of ints, also chained
              (and == / != of strings and characters); in / not in (key in dict, character in str or in
              a literal list of one-character constants); not / and / or of expressions that cannot
              raise; len; str; math.log; math.floor; s[a:b]; s[i]; t[0] / t[1] on tuples; tuple
              literals; f-strings (the concatenation of their parts, {x} being str(x));
              dict literals with exactly the constant keys of a record; all(c for x in s);
              Counter(); c.most_common(); reversed(list value); c.items();
              sorted(d, key=d.get, reverse=True); [e for x in list value]; os.path.join.
              Sub-expressions that can raise are bound in Python's evaluation order.

What the translation does NOT model: exceptions other than the five of OmenTrainer.texn (OSError of open,
UnicodeEncodeError of a codec, OverflowError, MemoryError, KeyboardInterrupt caught by a bare except);
the state of the directory when the writer returns False or raises; ints above 2^53 in float
arithmetic; NaN in most_common; stdout; rebinding of the translated functions from another module.
"""
import ast
import hashlib
import os
import re
import sys

HERE = os.path.dirname(os.path.abspath(__file__))
if HERE not in sys.path:
    sys.path.insert(0, HERE)
import common  # noqa: E402
from translate_kernel import TranslateError, _paren, _comment, _close  # noqa: E402

SRC_SMOOTH = "lib_trainer/omen/smoothing.py"
SRC_LOOKUP = "lib_trainer/omen/alphabet_lookup.py"
SRC_OUT = "lib_trainer/omen/omen_file_output.py"
SRC_ALPHA = "lib_trainer/omen/alphabet_generator.py"
OUT_CORE = os.path.join("gen", "OmenTrainer_gen.v")
OUT_OUT = os.path.join("gen", "OmenTrainerOut_gen.v")
OUT_ALPHA = os.path.join("gen", "OmenTrainerAlpha_gen.v")
OUTS = (OUT_CORE, OUT_OUT, OUT_ALPHA)

# ------------------------------------------------------------------ types


class Ty:
    def __init__(self, kind, **kw):
        self.kind = kind
        self.__dict__.update(kw)

    def __repr__(self):
        if self.kind == "tuple":
            return "tuple(%s)" % ", ".join(map(repr, self.elts))
        if self.kind in ("listv", "list"):
            return "%s(%r)" % (self.kind, self.elt)
        if self.kind == "dict":
            return "dict(%r, %r)" % (self.key, self.val)
        if self.kind == "rec":
            return self.name
        return self.kind


INT, FLOAT, BOOL, STR, CHAR, NVAL, NONE, FILE = (Ty(k) for k in ("int", "float", "bool", "str", "char", "nval", "none", "file"))


def TUPLE(*elts):
    return Ty("tuple", elts=list(elts))


def LISTV(elt):
    return Ty("listv", elt=elt)


def LIST(elt):
    return Ty("list", elt=elt)


def DICT(key, val, counter=False):
    return Ty("dict", key=key, val=val, counter=counter)


def REC(name):
    return Ty("rec", name=name)


def same(a, b):
    if a.kind != b.kind:
        return False
    if a.kind == "tuple":
        return len(a.elts) == len(b.elts) and all(same(x, y) for x, y in zip(a.elts, b.elts))
    if a.kind in ("listv", "list"):
        return same(a.elt, b.elt)
    if a.kind == "dict":
        return same(a.key, b.key) and same(a.val, b.val) and a.counter == b.counter
    if a.kind == "rec":
        return a.name == b.name
    return True


def is_container(t):
    return t.kind in ("dict", "list", "rec")


def coq_type(t):
    k = t.kind
    if k in ("int",):
        return "Z"
    if k == "float":
        return "float"
    if k == "bool":
        return "bool"
    if k in ("str", "file"):
        return "ostr"
    if k == "char":
        return "N"
    if k == "nval":
        return "nval"
    if k == "none":
        return "unit"
    if k == "tuple":
        return "(" + " * ".join(coq_type(e) for e in t.elts) + ")"
    if k in ("listv", "list"):
        return "list %s" % _paren(coq_type(t.elt))
    if k == "dict":
        return "list (%s * %s)" % (coq_type(t.key), coq_type(t.val))
    if k == "rec":
        return t.name
    raise TranslateError("internal: no Coq type for %r" % t)


EQB = {"str": "ostr_eqb", "char": "N.eqb", "int": "Z.eqb"}
RANK = {"rec": 0, "dict": 0, "list": 0, "file": 1, "str": 2, "listv": 2, "char": 3, "int": 4, "float": 5, "bool": 6}

GRAMMAR_T = DICT(STR, REC("gentry"))
NEXT_T = DICT(CHAR, NVAL)
LN_T = LIST(NVAL)
COUNTER_T = DICT(INT, INT, counter=True)
FCOUNTER_T = DICT(INT, FLOAT, counter=True)

# record schemas: field -> (getter, setter, type, optional);  access: "attr" (x.f) or "key" (x['f'])
RECORDS = {
    "alookup": dict(access="attr", ctor="mk_alookup", fields={
        "alphabet": ("al_alphabet", "al_set_alphabet", STR, False),
        "ngram": ("al_ngram", "al_set_ngram", INT, False),
        "max_length": ("al_max_length", "al_set_max_length", INT, False),
        "min_length": ("al_min_length", "al_set_min_length", INT, False),
        "grammar": ("al_grammar", "al_set_grammar", GRAMMAR_T, False),
        "ip_counter": ("al_ip_counter", "al_set_ip_counter", INT, False),
        "ep_counter": ("al_ep_counter", "al_set_ep_counter", INT, False),
        "ln_counter": ("al_ln_counter", "al_set_ln_counter", INT, False),
        "ln_lookup": ("al_ln_lookup", "al_set_ln_lookup", LN_T, False)}),
    "gentry": dict(access="key", ctor="mk_gentry", fields={
        "ip_count": ("ge_ip_count", "ge_set_ip_count", INT, False),
        "ep_count": ("ge_ep_count", "ge_set_ep_count", INT, False),
        "cp_count": ("ge_cp_count", "ge_set_cp_count", INT, False),
        "next_letter": ("ge_next", "ge_set_next", NEXT_T, False),
        "ip_level": ("ge_ip_level", "ge_set_ip_level", INT, True),
        "ep_level": ("ge_ep_level", "ge_set_ep_level", INT, True)}),
    "pinfo": dict(access="key", ctor="mk_pinfo", fields={
        "encoding": ("pi_encoding", None, STR, False),
        "ngram": ("pi_ngram", None, INT, False),
        "alphabet": ("pi_alphabet", None, STR, False)}),
    "agen": dict(access="attr", ctor="mk_agen", fields={
        "alphabet_size": ("ag_alphabet_size", "ag_set_alphabet_size", INT, False),
        "ngram": ("ag_ngram", "ag_set_ngram", INT, False),
        "dictionary": ("ag_dictionary", "ag_set_dictionary", DICT(CHAR, INT), False)}),
}

ALK, AGEN, PINFO = REC("alookup"), REC("agen"), REC("pinfo")

CTX = {
    "core": [("mlog", "float -> float"), ("mfloor", "float -> Z")],
    "out": [("mrepr", "float -> ostr"), ("save_config", "ostr -> ostr -> pinfo -> fsys -> option fsys")],
    "alpha": [],
}

SPECS = [
    dict(group="core", out=OUT_CORE, src=SRC_SMOOTH, cls=None, py="_calc_level", coq="py_calc_level",
         params=[("base_count", INT), ("total_count", INT), ("level_adjust_factor", INT), ("max_level", INT)],
         defaults={"max_level": 10}, ret=INT, mutates=[]),
    dict(group="core", out=OUT_CORE, src=SRC_SMOOTH, cls=None, py="smooth_grammar", coq="py_smooth_grammar",
         params=[("grammar", GRAMMAR_T), ("ip_total", INT), ("ep_total", INT)], defaults={}, ret=NONE, mutates=["grammar"]),
    dict(group="core", out=OUT_CORE, src=SRC_SMOOTH, cls=None, py="smooth_length", coq="py_smooth_length",
         params=[("ln_lookup", LN_T), ("ln_counter", INT), ("max_level", INT)], defaults={"max_level": 10}, ret=NONE,
         mutates=["ln_lookup"]),
    dict(group="core", out=OUT_CORE, src=SRC_LOOKUP, cls="AlphabetLookup", py="__init__", coq="py_alookup_init",
         params=[("self", ALK), ("alphabet", STR), ("ngram", INT), ("min_length", INT), ("max_length", INT)],
         defaults={"min_length": 1, "max_length": 21}, ret=NONE, mutates=["self"], init=True),
    dict(group="core", out=OUT_CORE, src=SRC_LOOKUP, cls="AlphabetLookup", py="is_in_alphabet", coq="py_alookup_is_in_alphabet",
         params=[("self", ALK), ("cur_ngram", STR)], defaults={}, ret=BOOL, mutates=[]),
    dict(group="core", out=OUT_CORE, src=SRC_LOOKUP, cls="AlphabetLookup", py="parse", coq="py_alookup_parse",
         params=[("self", ALK), ("password", STR)], defaults={}, ret=NONE, mutates=["self"]),
    dict(group="core", out=OUT_CORE, src=SRC_LOOKUP, cls="AlphabetLookup", py="apply_smoothing", coq="py_alookup_apply_smoothing",
         params=[("self", ALK)], defaults={}, ret=NONE, mutates=["self"],
         imports={"smooth_grammar": ("smoothing", 1), "smooth_length": ("smoothing", 1)}),
    dict(group="out", out=OUT_OUT, src=SRC_OUT, cls=None, py="_save_alphabet", coq="py_save_alphabet",
         params=[("file_name", STR), ("directory", STR), ("alphabet", STR), ("encoding", STR)], defaults={}, ret=BOOL,
         mutates=[], fs=True),
    dict(group="out", out=OUT_OUT, src=SRC_OUT, cls=None, py="save_omen_rules_to_disk", coq="py_save_omen_rules_to_disk",
         params=[("omen_trainer", ALK), ("omen_keyspace", COUNTER_T), ("omen_levels_count", COUNTER_T),
                 ("num_valid_passwords", INT), ("base_directory", STR), ("program_info", PINFO)], defaults={}, ret=BOOL,
         mutates=[], fs=True),
    dict(group="alpha", out=OUT_ALPHA, src=SRC_ALPHA, cls="AlphabetGenerator", py="__init__", coq="py_agen_init",
         params=[("self", AGEN), ("alphabet_size", INT), ("ngram", INT)], defaults={}, ret=NONE, mutates=["self"], init=True),
    dict(group="alpha", out=OUT_ALPHA, src=SRC_ALPHA, cls="AlphabetGenerator", py="process_password", coq="py_agen_process_password",
         params=[("self", AGEN), ("password", STR)], defaults={}, ret=NONE, mutates=["self"]),
    dict(group="alpha", out=OUT_ALPHA, src=SRC_ALPHA, cls="AlphabetGenerator", py="get_alphabet", coq="py_agen_get_alphabet",
         params=[("self", AGEN)], defaults={}, ret=STR, mutates=[]),
]

RESERVED = set("""fs exn tt true false nil Some None Z N TOk TRaise tbind tget tfor ttry tmapM tfoldM afind aset amem
tlen tslice tindex tsetindex trange tenumerate nv_int nv_item NCount NLevel zfloat int_truediv float_div float_div_int
pystr_int zcnt_get path_join fs_put most_common_by rev map fst snd forallb existsb negb Continue Return repeat al_blank ag_blank
call_save_config float_div float_div_int zcount
mlog mfloor mrepr save_config EKey EIndex EZeroDiv EType EIO texn_eqb ttry_else
fun let in if then else match with end forall exists Type Prop Set SProp as at return fix cofix struct where using
for mod""".split()) | {s["coq"] for s in SPECS}
for _r in RECORDS.values():
    RESERVED.add(_r["ctor"])
    for _g, _s, _t, _o in _r["fields"].values():
        RESERVED.update(x for x in (_g, _s) if x)

# Python names the translation gives a fixed meaning to: they may not be rebound in a translated module
BUILTINS_USED = {"len", "range", "enumerate", "print", "str", "Counter", "all", "sorted", "reversed", "open", "math", "os",
                 "codecs", "ZeroDivisionError", "KeyError", "IndexError", "TypeError", "IOError", "Exception",
                 "make_sure_path_exists", "_save_config"}
EXC = {"ZeroDivisionError": "EZeroDiv", "KeyError": "EKey", "IndexError": "EIndex", "TypeError": "EType", "IOError": "EIO"}


class V:
    """the value of an expression: a pure Gallina text (scalars, tuples, list values) or a path (containers)"""

    def __init__(self, ty, text=None, path=None, elts=None):
        self.ty, self.text, self.path, self.elts = ty, text, path, elts


class Path:
    def __init__(self, root, steps, ty):
        self.root, self.steps, self.ty = root, steps, ty     # steps: [(kind, arg, type after the step)]

    def extend(self, kind, arg, ty):
        return Path(self.root, self.steps + [(kind, arg, ty)], ty)


class Env:
    def __init__(self):
        self.vars = {}         # name -> ("val", Ty) | ("root", Ty) | ("alias", Path) | ("cdict", {key: V}) | ("exc", None)

    def copy(self):
        e = Env()
        e.vars = dict(self.vars)
        return e


class K:
    """context of a block: the VALUE (of the block's answer type) of falling off its end, of `continue`, of
    `return e` (None = not allowed here), and what a bare `raise` becomes"""

    def __init__(self, fall, cont, retv, reraise=None):
        self.fall, self.cont, self.retv, self.reraise = fall, cont, retv, reraise


class _Resume(ast.stmt):
    """pseudo statement put between a block and the statements that follow it: a line to emit (the close of a
    with block), a local that goes out of scope, a `k not in D` guard that stops applying"""
    _fields = ()

    def __init__(self, text=None, drop=None, end_guard=None, node=None):
        super().__init__()
        self.text, self.drop, self.end_guard, self.node = text, drop, end_guard, node


class FunctionTranslator:
    def __init__(self, path, fn, spec, done, module_imports):
        self.path, self.fn, self.spec, self.done, self.module_imports = path, fn, spec, done, module_imports
        self.uid = 0
        self.pre = []          # binds of the statement being translated, in evaluation order
        self.guards = []       # (dump of key, dump of container) of the enclosing `if k not in D:`
        self.fs = bool(spec.get("fs"))
        self.order = {}        # name -> number of its first binding (canonical order of joined variables)
        self.loops = []        # enclosing loops: (root name, dump of the iterated container, key variable or None)

    # -------------------------------------------------------------- errors / names
    def fail(self, node, msg):
        where = (self.spec["cls"] + "." if self.spec["cls"] else "") + self.fn.name
        raise TranslateError("%s:%d: %s: %s  [%s]" % (
            self.path, getattr(node, "lineno", self.fn.lineno), where, msg,
            _comment(ast.unparse(node)).split("\n")[0][:100]))

    def tmp(self):
        self.uid += 1
        return "tmp%d" % self.uid

    def check_name(self, node, name):
        if name in RESERVED or name in BUILTINS_USED or name.startswith("py_") or re.fullmatch(r"tmp\d+", name) \
                or re.search(r"_k\d+$", name) or not name.isidentifier() or not name.isascii():
            self.fail(node, "the variable name %r collides with the generated code" % name)

    def emit(self, text):
        self.pre.append(text)

    def ctx_args(self):
        return "".join(" " + n for n, _ in CTX[self.spec["group"]])

    # -------------------------------------------------------------- constants
    @staticmethod
    def zconst(v):
        return "%d%%Z" % v if v >= 0 else "(%d)%%Z" % v

    @staticmethod
    def strconst(s):
        return "[" + "; ".join("%d" % ord(c) for c in s) + "]%N" if s else "(@nil N)"

    # -------------------------------------------------------------- paths
    def read_step(self, cur, step, node):
        """the value after one step from the container value `cur` (text) -> text; binds what can raise"""
        kind, arg, ty = step
        if kind == "field":
            getter, _setter, _t, optional = arg
            if optional:
                x = self.tmp()
                self.emit("%s <~ tget (%s %s) ;;" % (x, getter, _paren(cur)))
                return x
            return "%s %s" % (getter, _paren(cur))
        if kind == "item":
            key, dty = arg
            if dty.counter:
                if not same(dty.val, INT):
                    self.fail(node, "a read of a Counter with values of type %r" % dty.val)
                return "zcnt_get %s %s" % (_paren(cur), _paren(key))
            x = self.tmp()
            self.emit("%s <~ tget (afind %s %s %s) ;;" % (x, EQB[dty.key.kind], _paren(key), _paren(cur)))
            return x
        if kind == "idx":
            x = self.tmp()
            self.emit("%s <~ tindex %s %s ;;" % (x, _paren(cur), _paren(arg)))
            return x
        raise TranslateError("internal: step %r" % kind)

    def read_path(self, p, node):
        cur = p.root
        for st in p.steps:
            cur = self.read_step(cur, st, node)
        return cur

    def write_path(self, p, new, node):
        """root.s1...sn = new  ->  binds + `let root := ... in`"""
        if not p.steps:
            self.emit("let %s := %s in" % (p.root, new))
            return
        conts = [p.root]
        for st in p.steps[:-1]:
            conts.append(self.read_step(conts[-1], st, node))
        for st, cont in zip(reversed(p.steps), reversed(conts)):
            kind, arg, _ty = st
            if kind == "field":
                _g, setter, _t, _o = arg
                if setter is None:
                    self.fail(node, "this record is read-only")
                new = "%s %s %s" % (setter, _paren(cont), _paren(new))
            elif kind == "item":
                key, dty = arg
                new = "aset %s %s %s %s" % (EQB[dty.key.kind], _paren(key), _paren(new), _paren(cont))
            else:
                x = self.tmp()
                self.emit("%s <~ tsetindex %s %s %s ;;" % (x, _paren(cont), _paren(arg), _paren(new)))
                new = x
        self.emit("let %s := %s in" % (p.root, new))

    def as_path(self, v, node):
        if v.path is None:
            self.fail(node, "a value of type %r where a mutable object (a path from a root) is needed" % v.ty)
        return v.path

    # -------------------------------------------------------------- coercions
    def scalar(self, v, node):
        """the pure text of a non-container value"""
        if v.path is not None:
            if is_container(v.ty):
                self.fail(node, "a mutable object of type %r cannot be used as a value here" % v.ty)
            return self.read_path(v.path, node)
        return v.text

    def to(self, v, ty, node, what="value"):
        """text of v converted to type ty, as Python would use it there"""
        t = v.ty
        if is_container(ty):
            if v.path is None or not same(t, ty):
                self.fail(node, "%s: expected a mutable %r, got %r" % (what, ty, t))
            return self.read_path(v.path, node)
        text = self.scalar(v, node)
        if same(t, ty):
            return text
        if ty.kind == "int" and t.kind == "nval":
            x = self.tmp()
            self.emit("%s <~ nv_int %s ;;" % (x, _paren(text)))
            return x
        if ty.kind == "float" and t.kind == "int":
            return "zfloat %s" % _paren(text)
        if ty.kind == "float" and t.kind == "nval":
            return "zfloat %s" % _paren(self.to(v, INT, node, what))
        if ty.kind == "str" and t.kind == "char":
            return "[%s]" % text
        if ty.kind == "nval" and t.kind == "int":
            return "NCount %s" % _paren(text)
        if ty.kind == "nval" and t.kind == "tuple" and len(t.elts) == 2:
            a, b = self.tuple_parts(v, node)
            return "NLevel %s %s" % (_paren(self.to(a, INT, node, what)), _paren(self.to(b, INT, node, what)))
        self.fail(node, "%s: expected %r, got %r" % (what, ty, t))

    def tuple_parts(self, v, node):
        if v.elts is not None:
            return v.elts
        text = self.scalar(v, node)
        if len(v.ty.elts) != 2:
            self.fail(node, "only pairs are supported")
        return [V(v.ty.elts[0], "fst %s" % _paren(text)), V(v.ty.elts[1], "snd %s" % _paren(text))]

    def as_int(self, e, env):
        return self.to(self.expr(e, env), INT, e, "int operand")

    def pure(self, e, env, what):
        n = len(self.pre)
        v = self.expr(e, env)
        t = self.scalar(v, e)
        if len(self.pre) != n:
            self.fail(e, "%s must not contain a sub-expression that can raise" % what)
        return V(v.ty, t, elts=v.elts)

    def as_bool(self, e, env):
        v = self.expr(e, env)
        if v.ty.kind != "bool":
            self.fail(e, "condition of type %r (truthiness of other values is not supported)" % v.ty)
        return self.scalar(v, e)

    # -------------------------------------------------------------- expressions
    def expr(self, e, env):
        if isinstance(e, ast.Name):
            if e.id not in env.vars:
                self.fail(e, "unknown variable %r (not assigned on every path to here?)" % e.id)
            kind, d = env.vars[e.id]
            if kind == "val":
                return V(d, e.id)
            if kind == "root":
                return V(d, path=Path(e.id, [], d))
            if kind == "alias":
                return V(d.ty, path=d)
            self.fail(e, "%r cannot be used as a value" % e.id)
        if isinstance(e, ast.Constant):
            v = e.value
            if v is True or v is False:
                return V(BOOL, "true" if v else "false")
            if type(v) is int:
                return V(INT, self.zconst(v))
            if type(v) is float:
                return V(FLOAT, "(%s)%%float" % common.cfloat(v).strip("()") if v >= 0 else "(%s)%%float" % common.cfloat(v))
            if type(v) is str:
                return V(STR, self.strconst(v))
            self.fail(e, "unsupported constant")
        if isinstance(e, ast.Tuple):
            elts = [self.expr(x, env) for x in e.elts]
            for x, n in zip(elts, e.elts):
                if is_container(x.ty):
                    self.fail(n, "a mutable object inside a tuple")
            elts = [V(x.ty, self.scalar(x, n), elts=x.elts) for x, n in zip(elts, e.elts)]
            return V(TUPLE(*[x.ty for x in elts]), "(" + ", ".join(x.text for x in elts) + ")", elts=elts)
        if isinstance(e, ast.UnaryOp):
            if isinstance(e.op, ast.Not):
                return V(BOOL, "negb %s" % _paren(self.as_bool(e.operand, env)))
            if isinstance(e.op, ast.USub):
                if isinstance(e.operand, ast.Constant) and type(e.operand.value) is int:
                    return V(INT, self.zconst(-e.operand.value))
                v = self.expr(e.operand, env)
                if v.ty.kind == "float":
                    return V(FLOAT, "PrimFloat.opp %s" % _paren(self.scalar(v, e)))
                return V(INT, "(- %s)%%Z" % _paren(self.to(v, INT, e)))
            self.fail(e, "unsupported unary operator")
        if isinstance(e, ast.BinOp):
            return self.binop(e, e.op, self.expr(e.left, env), self.expr(e.right, env))
        if isinstance(e, ast.BoolOp):
            parts = []
            for x in e.values:
                v = self.pure(x, env, "an operand of and / or")
                if v.ty.kind != "bool":
                    self.fail(x, "and / or of a non-boolean")
                parts.append(_paren(v.text))
            return V(BOOL, "(" + (" && " if isinstance(e.op, ast.And) else " || ").join(parts) + ")")
        if isinstance(e, ast.Compare):
            return self.compare(e, env)
        if isinstance(e, ast.Attribute):
            return self.attribute(e, env)
        if isinstance(e, ast.Subscript):
            if not isinstance(e.ctx, ast.Load):
                self.fail(e, "unsupported use of a subscript")
            return self.subscript(e, env)
        if isinstance(e, ast.Call):
            return self.call(e, env)
        if isinstance(e, ast.Dict):
            return self.dict_literal(e, env)
        if isinstance(e, ast.JoinedStr):
            # f"..{x}.." is the concatenation of its parts; {x} is str(x)
            parts = []
            for v in e.values:
                if isinstance(v, ast.Constant) and type(v.value) is str:
                    parts.append(self.strconst(v.value))
                elif isinstance(v, ast.FormattedValue) and v.conversion in (-1, 115) and v.format_spec is None:
                    call = ast.copy_location(ast.Call(ast.Name("str", ast.Load()), [v.value], []), v)
                    parts.append(self.scalar(self.call(call, env), v))
                else:
                    self.fail(e, "unsupported f-string part")
            if not parts:
                return V(STR, self.strconst(""))
            text = parts[0]
            for t in parts[1:]:
                text = "(%s ++ %s)" % (_paren(text), _paren(t))
            return V(STR, text)
        if isinstance(e, ast.ListComp):
            return self.listcomp(e, env)
        self.fail(e, "unsupported expression (%s)" % type(e).__name__)

    def binop(self, node, op, a, b):
        ka, kb = a.ty.kind, b.ty.kind
        num = ("int", "float", "nval")
        if isinstance(op, ast.Add) and ka in ("str", "char", "file") and kb in ("str", "char"):
            return V(STR, "(%s ++ %s)" % (_paren(self.to(a, STR, node) if ka != "file" else a.text), _paren(self.to(b, STR, node))))
        if ka not in num or kb not in num:
            self.fail(node, "unsupported arithmetic (%r %s %r)" % (a.ty, type(op).__name__, b.ty))
        if isinstance(op, ast.Div):
            # Python evaluates both operands, then divides
            if ka == "float":
                x = self.scalar(a, node)
                t = self.tmp()
                if kb == "float":
                    self.emit("%s <~ float_div %s %s ;;" % (t, _paren(x), _paren(self.scalar(b, node))))
                else:
                    self.emit("%s <~ float_div_int %s %s ;;" % (t, _paren(x), _paren(self.to(b, INT, node))))
                return V(FLOAT, t)
            x = self.to(a, INT, node)
            if kb == "float":
                t = self.tmp()
                self.emit("%s <~ float_div %s %s ;;" % (t, _paren("zfloat %s" % _paren(x)), _paren(self.scalar(b, node))))
                return V(FLOAT, t)
            y = self.to(b, INT, node)
            t = self.tmp()
            self.emit("%s <~ int_truediv %s %s ;;" % (t, _paren(x), _paren(y)))
            return V(FLOAT, t)
        ops = {ast.Add: ("+", "PrimFloat.add"), ast.Sub: ("-", "PrimFloat.sub"), ast.Mult: ("*", "PrimFloat.mul")}
        if type(op) not in ops:
            self.fail(node, "unsupported arithmetic operator")
        zop, fop = ops[type(op)]
        if ka == "float" or kb == "float":
            return V(FLOAT, "%s %s %s" % (fop, _paren(self.to(a, FLOAT, node)), _paren(self.to(b, FLOAT, node))))
        return V(INT, "(%s %s %s)%%Z" % (_paren(self.to(a, INT, node)), zop, _paren(self.to(b, INT, node))))

    def compare(self, e, env):
        if len(e.ops) != 1 or len(e.comparators) != 1:
            # a OP b OP c is (a OP b) and (b OP c) with b evaluated once: accepted for operands that cannot raise
            # (and have no effect: everything in the subset), ints only
            parts = []
            operands = [e.left] + list(e.comparators)
            n = len(self.pre)
            for l, op, r in zip(operands, e.ops, operands[1:]):
                if isinstance(op, (ast.In, ast.NotIn)):
                    self.fail(e, "chained comparison with `in`")
                one = ast.copy_location(ast.Compare(l, [op], [r]), e)
                parts.append(_paren(self.scalar(self.compare(one, env), e)))
            if len(self.pre) != n:
                self.fail(e, "a chained comparison must not contain a sub-expression that can raise")
            return V(BOOL, "(" + " && ".join(parts) + ")")
        op, right = e.ops[0], e.comparators[0]
        if isinstance(op, (ast.In, ast.NotIn)):
            t = self.member(e, e.left, right, env)
            return V(BOOL, t if isinstance(op, ast.In) else "negb %s" % _paren(t))
        a, b = self.expr(e.left, env), self.expr(right, env)
        if isinstance(op, (ast.Eq, ast.NotEq)) and a.ty.kind in ("str", "char") and same(a.ty, b.ty):
            t = "%s %s %s" % (EQB[a.ty.kind], _paren(self.scalar(a, e)), _paren(self.scalar(b, e)))
            return V(BOOL, t if isinstance(op, ast.Eq) else "negb (%s)" % t)
        if a.ty.kind not in ("int", "nval") or b.ty.kind not in ("int", "nval"):
            self.fail(e, "comparison of %r with %r" % (a.ty, b.ty))
        x, y = _paren(self.to(a, INT, e)), _paren(self.to(b, INT, e))
        table = {ast.Lt: "(%s <? %s)%%Z" % (x, y), ast.LtE: "(%s <=? %s)%%Z" % (x, y),
                 ast.Gt: "(%s <? %s)%%Z" % (y, x), ast.GtE: "(%s <=? %s)%%Z" % (y, x),
                 ast.Eq: "(%s =? %s)%%Z" % (x, y), ast.NotEq: "negb (%s =? %s)%%Z" % (x, y)}
        if type(op) not in table:
            self.fail(e, "unsupported comparison operator")
        return V(BOOL, table[type(op)])

    def member(self, node, key, container, env):
        k = self.expr(key, env)            # Python evaluates the left operand first
        if isinstance(container, (ast.List, ast.Tuple)):
            if k.ty.kind != "char" or not container.elts or not all(
                    isinstance(x, ast.Constant) and type(x.value) is str and len(x.value) == 1 for x in container.elts):
                self.fail(node, "`in` with a literal list is supported for a character and one-character constants")
            return "existsb (N.eqb %s) [%s]%%N" % (_paren(self.scalar(k, node)), "; ".join("%d" % ord(x.value) for x in container.elts))
        c = self.expr(container, env)
        if c.ty.kind == "dict":
            kt = self.to(k, c.ty.key, node, "dict key")
            return "amem %s %s %s" % (EQB[c.ty.key.kind], _paren(kt), _paren(self.read_path(self.as_path(c, node), node)))
        if c.ty.kind == "str" and k.ty.kind == "char":
            return "existsb (N.eqb %s) %s" % (_paren(self.scalar(k, node)), _paren(self.scalar(c, node)))
        self.fail(node, "`in` on a value of type %r with a key of type %r" % (c.ty, k.ty))

    def record_step(self, node, ty, field, access):
        schema = RECORDS[ty.name]
        if schema["access"] != access or field not in schema["fields"]:
            self.fail(node, "unsupported %s %r of a %s" % ("attribute" if access == "attr" else "key", field, ty.name))
        g, s, t, o = schema["fields"][field]
        return ("field", (g, s, t, o), t)

    def attribute(self, e, env):
        v = self.expr(e.value, env)
        if v.ty.kind == "rec":
            st = self.record_step(e, v.ty, e.attr, "attr")
            return self.step_value(self.as_path(v, e), st, e)
        self.fail(e, "attribute of a value of type %r" % v.ty)

    def step_value(self, p, st, node):
        """the value one step further: containers stay paths, everything else is read now"""
        np = p.extend(*st)
        if is_container(st[2]):
            return V(st[2], path=np)
        return V(st[2], self.read_path(np, node))

    def slice_bound(self, b, env):
        if b is None:
            return "None"
        return "(Some %s)" % _paren(self.as_int(b, env))

    def subscript(self, e, env):
        sl = e.slice
        if isinstance(e.value, ast.Name) and e.value.id in env.vars and env.vars[e.value.id][0] == "cdict":
            d = env.vars[e.value.id][1]
            if not (isinstance(sl, ast.Constant) and type(sl.value) is str and sl.value in d):
                self.fail(e, "a local constant dict is read with its constant keys only")
            return d[sl.value]
        v = self.expr(e.value, env)
        k = v.ty.kind
        if isinstance(sl, ast.Slice):
            if k != "str":
                self.fail(e, "slice of a value of type %r" % v.ty)
            if sl.step is not None:
                self.fail(e, "slice with a step")
            s = self.scalar(v, e)
            return V(STR, "tslice %s %s %s" % (_paren(s), self.slice_bound(sl.lower, env), self.slice_bound(sl.upper, env)))
        skey = sl.value if isinstance(sl, ast.Constant) and type(sl.value) is str else None
        ikey = sl.value if isinstance(sl, ast.Constant) and type(sl.value) is int else None
        if isinstance(sl, ast.UnaryOp) and isinstance(sl.op, ast.USub) and isinstance(sl.operand, ast.Constant) \
                and type(sl.operand.value) is int:
            ikey = -sl.operand.value
        if k == "rec":
            if skey is None:
                self.fail(e, "a %s is read with constant string keys" % v.ty.name)
            return self.step_value(self.as_path(v, e), self.record_step(e, v.ty, skey, "key"), e)
        if k == "dict":
            key = self.to(self.expr(sl, env), v.ty.key, e, "dict key")
            return self.step_value(self.as_path(v, e), ("item", (key, v.ty), v.ty.val), e)
        if k == "list":
            i = self.as_int(sl, env)
            return self.step_value(self.as_path(v, e), ("idx", i, v.ty.elt), e)
        if k == "str":
            s = self.scalar(v, e)
            i = self.as_int(sl, env)
            x = self.tmp()
            self.emit("%s <~ tindex %s %s ;;" % (x, _paren(s), _paren(i)))
            return V(CHAR, x)
        if k == "nval":
            if ikey is None:
                self.fail(e, "a (level, count) tuple is read with a constant index")
            x = self.tmp()
            self.emit("%s <~ nv_item %s %s ;;" % (x, _paren(self.scalar(v, e)), _paren(self.zconst(ikey))))
            return V(INT, x)
        if k == "tuple":
            if ikey not in (0, 1) or len(v.ty.elts) != 2:
                self.fail(e, "a pair is read with the constant index 0 or 1")
            return self.tuple_parts(v, e)[ikey]
        if k == "listv":
            i = self.as_int(sl, env)
            x = self.tmp()
            self.emit("%s <~ tindex %s %s ;;" % (x, _paren(self.scalar(v, e)), _paren(i)))
            return V(v.ty.elt, x)
        self.fail(e, "subscript of a value of type %r" % v.ty)

    def dict_literal(self, e, env):
        """{} (typed by its target) is handled by the assignment; here: a literal with the constant keys of gentry"""
        keys = [k.value if isinstance(k, ast.Constant) and type(k.value) is str else None for k in e.keys]
        schema = RECORDS["gentry"]
        need = [f for f, (_g, _s, _t, o) in schema["fields"].items() if not o]
        if None in keys or sorted(keys) != sorted(need):
            self.fail(e, "a dict literal must have exactly the keys %r" % need)
        vals = {}
        for k, x in zip(keys, e.values):           # Python evaluates the items in order
            t = schema["fields"][k][2]
            if isinstance(x, ast.Dict) and not x.keys and t.kind == "dict":
                vals[k] = "[]"
            else:
                vals[k] = self.to(self.expr(x, env), t, x, "value of %r" % k)
        args = [_paren(vals[f]) if f in vals else "None" for f in schema["fields"]]
        return V(REC("gentry"), "%s %s" % (schema["ctor"], " ".join(args)))

    # -------------------------------------------------------------- calls
    def callee(self, e):
        """the spec of the translated function a call refers to, or None"""
        f = e.func
        if isinstance(f, ast.Name):
            spec = self.done.get((None, f.id))
            if spec is None:
                return None
            if spec["src"] != self.spec["src"]:
                mod = spec["src"].rsplit("/", 1)[1][:-3]
                if self.module_imports.get(f.id) != (mod, 1):
                    self.fail(e, "%s is not imported as `from .%s import %s`" % (f.id, mod, f.id))
            elif self.spec["cls"] is None and False:
                pass
            return spec
        if isinstance(f, ast.Attribute) and isinstance(f.value, ast.Name) and f.value.id == "self" and self.spec["cls"]:
            return self.done.get((self.spec["cls"], f.attr))
        return None

    def call(self, e, env, stmt_level=False):
        f = e.func
        name = f.id if isinstance(f, ast.Name) else None
        nargs = len(e.args)
        plain = not e.keywords and not any(isinstance(a, ast.Starred) for a in e.args)
        spec = self.callee(e)
        if spec is not None:
            return self.call_translated(e, spec, env, stmt_level)
        if name == "len" and plain and nargs == 1:
            v = self.expr(e.args[0], env)
            if v.ty.kind in ("str", "listv"):
                return V(INT, "tlen %s" % _paren(self.scalar(v, e)))
            if v.ty.kind in ("list", "dict"):
                return V(INT, "tlen %s" % _paren(self.read_path(self.as_path(v, e), e)))
            self.fail(e, "len of a value of type %r" % v.ty)
        if name == "str" and plain and nargs == 1:
            v = self.expr(e.args[0], env)
            if v.ty.kind in ("int", "nval"):
                return V(STR, "pystr_int %s" % _paren(self.to(v, INT, e)))
            if v.ty.kind == "float":
                if "mrepr" not in dict(CTX[self.spec["group"]]):
                    self.fail(e, "str of a float is not available in this group")
                return V(STR, "mrepr %s" % _paren(self.scalar(v, e)))
            if v.ty.kind == "str":
                return V(STR, self.scalar(v, e))
            if v.ty.kind == "char":
                return V(STR, "[%s]" % self.scalar(v, e))
            self.fail(e, "str of a value of type %r" % v.ty)
        if isinstance(f, ast.Attribute) and isinstance(f.value, ast.Name) and f.value.id == "math" and plain and nargs == 1 \
                and f.attr in ("log", "floor") and "mlog" in dict(CTX[self.spec["group"]]):
            x = self.to(self.expr(e.args[0], env), FLOAT, e, "argument of math.%s" % f.attr)
            return V(FLOAT, "mlog %s" % _paren(x)) if f.attr == "log" else V(INT, "mfloor %s" % _paren(x))
        if isinstance(f, ast.Attribute) and isinstance(f.value, ast.Attribute) and isinstance(f.value.value, ast.Name) \
                and f.value.value.id == "os" and f.value.attr == "path" and f.attr == "join" and plain and nargs == 2:
            a = self.to(self.expr(e.args[0], env), STR, e)
            b = self.to(self.expr(e.args[1], env), STR, e)
            return V(STR, "path_join %s %s" % (_paren(a), _paren(b)))
        if name == "all" and plain and nargs == 1 and isinstance(e.args[0], ast.GeneratorExp):
            g = e.args[0]
            var, lst, inner = self.comp_head(g, env)
            body = self.pure(g.elt, inner, "the body of all(...)")
            if body.ty.kind != "bool":
                self.fail(e, "all(...) of a non-boolean")
            return V(BOOL, "forallb (fun %s => %s) %s" % (var, body.text, _paren(lst)))
        if name == "Counter" and plain and nargs == 0:
            self.fail(e, "Counter() is supported as the whole right-hand side of an assignment")
        if name == "reversed" and plain and nargs == 1:
            v = self.expr(e.args[0], env)
            if v.ty.kind != "listv":
                self.fail(e, "reversed of a value of type %r" % v.ty)
            return V(v.ty, "rev %s" % _paren(self.scalar(v, e)))
        if isinstance(f, ast.Attribute) and f.attr in ("most_common", "items") and plain and nargs == 0:
            v = self.expr(f.value, env)
            if v.ty.kind != "dict":
                self.fail(e, ".%s() of a value of type %r" % (f.attr, v.ty))
            d = self.read_path(self.as_path(v, e), e)
            lt = LISTV(TUPLE(v.ty.key, v.ty.val))
            if f.attr == "items":
                return V(lt, d)
            if not v.ty.counter:
                self.fail(e, ".most_common() of something that is not a Counter")
            ltb = {"int": "Z.ltb", "float": "PrimFloat.ltb"}[v.ty.val.kind]
            return V(lt, "most_common_by %s %s" % (ltb, _paren(d)))
        if name == "sorted" and nargs == 1 and not any(isinstance(a, ast.Starred) for a in e.args):
            # sorted(d, key=d.get, reverse=True): the keys of d by stable descending value
            kw = {k.arg: k.value for k in e.keywords}
            d = e.args[0]
            if set(kw) == {"key", "reverse"} and isinstance(kw["reverse"], ast.Constant) and kw["reverse"].value is True \
                    and isinstance(kw["key"], ast.Attribute) and kw["key"].attr == "get" \
                    and ast.dump(kw["key"].value) == ast.dump(d):
                v = self.expr(d, env)
                if v.ty.kind == "dict" and v.ty.val.kind == "int":
                    t = self.read_path(self.as_path(v, e), e)
                    return V(LISTV(v.ty.key), "map fst (most_common_by Z.ltb %s)" % _paren(t))
            self.fail(e, "sorted is supported as sorted(d, key=d.get, reverse=True) on a dict of ints")
        self.fail(e, "unsupported call")

    def bind_args(self, e, spec, env):
        """-> {param: ast} with defaults missing; checks arity"""
        params = [p for p in spec["params"] if not (spec["cls"] and p[0] == "self")]
        given = {}
        if len(e.args) > len(params):
            self.fail(e, "too many arguments")
        for (n, _), a in zip(params, e.args):
            if isinstance(a, ast.Starred):
                self.fail(e, "unsupported argument")
            given[n] = a
        for kw in e.keywords:
            if kw.arg is None or kw.arg in given or kw.arg not in dict(params):
                self.fail(e, "unsupported keyword argument")
            given[kw.arg] = kw.value
        return params, given

    def call_translated(self, e, spec, env, stmt_level):
        """a call of an already translated function.  A function that mutates a parameter or the directory
        is accepted at statement level only (its effect is a rebinding of the roots)."""
        effect = bool(spec["mutates"]) or bool(spec.get("fs"))
        if effect and not stmt_level:
            self.fail(e, "a call of a function with effects inside an expression")
        if spec.get("init"):
            self.fail(e, "call of a constructor")
        if spec.get("fs") and not self.fs:
            self.fail(e, "call of a function that writes files from one that does not")
        if spec["group"] != self.spec["group"]:
            self.fail(e, "call across groups")
        params, given = self.bind_args(e, spec, env)
        texts, paths = {}, {}
        order = list(e.args) + [kw.value for kw in e.keywords]      # Python's evaluation order
        if spec["cls"]:
            sv = self.expr(e.func.value, env)
            texts["self"] = self.read_path(self.as_path(sv, e), e)
            paths["self"] = sv.path
        for a in order:
            n = [k for k, v in given.items() if v is a][0]
            ty = dict(params)[n]
            v = self.expr(a, env)
            if is_container(ty):
                paths[n] = self.as_path(v, a)
            texts[n] = self.to(v, ty, a, "argument %r" % n)
        args = []
        for n, ty in spec["params"]:
            if n in texts:
                args.append(_paren(texts[n]))
            elif n in spec["defaults"]:
                args.append(_paren(self.zconst(spec["defaults"][n])))
            else:
                self.fail(e, "missing argument %r" % n)
        muts = list(spec["mutates"])
        roots = [paths[m].root for m in muts]
        if len(set(roots)) != len(roots):
            self.fail(e, "two mutated arguments reach the same root")
        # result: value, then the final state of the mutated parameters, then the directory
        x = self.tmp()
        outs = ([x] if spec["ret"].kind != "none" else []) + ["%s_%s" % (x, m) for m in muts] + (["fs"] if spec.get("fs") else [])
        if not outs:
            outs = [x]
        pat = outs[0] if len(outs) == 1 else "'(" + ", ".join(outs) + ")"
        self.emit("%s <~ %s%s %s%s ;;" % (pat, spec["coq"], "".join(" " + n for n, _ in CTX[spec["group"]]),
                                         " ".join(args), " fs" if spec.get("fs") else ""))
        for m in muts:
            self.write_path(paths[m], "%s_%s" % (x, m), e)
        return V(spec["ret"], x if spec["ret"].kind != "none" else "tt")

    def comp_head(self, g, env):
        """one `for x in s` clause over a str / list value -> (binder text, list text, inner env)"""
        if len(g.generators) != 1:
            self.fail(g, "only one for clause is supported")
        c = g.generators[0]
        if c.ifs or c.is_async or not isinstance(c.target, ast.Name):
            self.fail(g, "unsupported comprehension clause")
        it = self.pure(c.iter, env, "the iterated value of a comprehension")
        if it.ty.kind == "str":
            elt = CHAR
        elif it.ty.kind == "listv":
            elt = it.ty.elt
        else:
            self.fail(g, "comprehension over a value of type %r" % it.ty)
        self.check_name(g, c.target.id)
        if c.target.id in env.vars:
            self.fail(g, "the comprehension variable %r shadows a local" % c.target.id)
        inner = env.copy()
        inner.vars[c.target.id] = ("val", elt)
        return c.target.id, it.text, inner

    def listcomp(self, e, env):
        var, lst, inner = self.comp_head(e, env)
        n = len(self.pre)
        v = self.expr(e.elt, inner)
        t = self.scalar(v, e.elt)
        if is_container(v.ty):
            self.fail(e, "a comprehension of mutable objects")
        binds, self.pre = self.pre[n:], self.pre[:n]
        if not binds:
            return V(LISTV(v.ty), "map (fun %s => %s) %s" % (var, t, _paren(lst)))
        x = self.tmp()
        self.emit("%s <~ tmapM (fun %s => %s TOk %s) %s ;;" % (x, var, " ".join(binds), _paren(t), _paren(lst)))
        return V(LISTV(v.ty), x)

    # -------------------------------------------------------------- analysis of blocks
    @staticmethod
    def terminates(stmts):
        if not stmts:
            return False
        s = stmts[-1]
        if isinstance(s, (ast.Return, ast.Continue, ast.Raise)):
            return True
        if isinstance(s, ast.If):
            return FunctionTranslator.terminates(s.body) and FunctionTranslator.terminates(s.orelse)
        return False

    def escapes(self, n, in_loop=False):
        """is there a return / raise anywhere, or a continue outside a nested loop"""
        if isinstance(n, (ast.Return, ast.Raise)) or (isinstance(n, ast.Continue) and not in_loop):
            return True
        return any(self.escapes(c, in_loop or isinstance(n, ast.For)) for c in ast.iter_child_nodes(n))

    BANNED = (ast.While, ast.Delete, ast.Global, ast.Nonlocal, ast.Lambda, ast.Yield, ast.YieldFrom, ast.NamedExpr,
              ast.Import, ast.ImportFrom, ast.FunctionDef, ast.AsyncFunctionDef, ast.ClassDef, ast.Break, ast.Assert,
              ast.Match, ast.Await, ast.AsyncFor, ast.AsyncWith, ast.SetComp, ast.DictComp, ast.Starred)

    def assigned(self, stmts, env, pre_alias=None):
        """names of the roots / scalars (re)bound or mutated somewhere in stmts, in order of first occurrence;
        pre_alias: names (loop targets) that stand for sub-objects of a root"""
        out = []
        amap = {n: d[1].root for n, d in env.vars.items() if d[0] == "alias"}
        amap.update(pre_alias or {})

        def add(n):
            if n not in out:
                out.append(n)

        def chain_root(x):
            while True:
                if isinstance(x, (ast.Subscript, ast.Attribute)):
                    x = x.value
                elif isinstance(x, ast.Call) and isinstance(x.func, ast.Attribute) and x.func.attr in ("items", "keys", "values") \
                        and not x.args:
                    x = x.func.value
                elif isinstance(x, ast.Call) and isinstance(x.func, ast.Name) and x.func.id == "enumerate" and len(x.args) == 1:
                    x = x.args[0]
                else:
                    break
            if isinstance(x, ast.Name):
                return amap.get(x.id, x.id)
            return None

        def target(t, value=None):
            if isinstance(t, ast.Name):
                add(t.id)
                amap.pop(t.id, None)
                r = chain_root(value) if value is not None else None
                if r is not None and r != t.id:
                    amap[t.id] = r
            elif isinstance(t, (ast.Subscript, ast.Attribute)):
                r = chain_root(t)
                if r is None:
                    self.fail(t, "unsupported assignment target")
                add(r)
            elif isinstance(t, ast.Tuple):
                for x in t.elts:
                    target(x, value)
            else:
                self.fail(t, "unsupported assignment target")

        def calls(node):
            for n in ast.walk(node):
                if isinstance(n, self.BANNED):
                    self.fail(n, "unsupported construct")
                if isinstance(n, ast.Call):
                    spec = self.callee(n)
                    if spec is not None:
                        if spec["mutates"]:
                            for a in list(n.args) + [k.value for k in n.keywords] + \
                                    ([n.func.value] if isinstance(n.func, ast.Attribute) else []):
                                r = chain_root(a)
                                if r is not None:
                                    add(r)
                        if spec.get("fs"):
                            add("fs")
                    elif isinstance(n.func, ast.Name) and n.func.id == "_save_config":
                        add("fs")
                    elif isinstance(n.func, ast.Attribute) and n.func.attr == "write" and isinstance(n.func.value, ast.Name):
                        add(n.func.value.id)

        def walk(ss):
            for s in ss:
                if isinstance(s, self.BANNED):
                    self.fail(s, "unsupported construct")
                if isinstance(s, ast.Assign):
                    calls(s.value)
                    for t in s.targets:
                        target(t, s.value)
                elif isinstance(s, ast.AugAssign):
                    calls(s.value)
                    target(s.target)
                elif isinstance(s, ast.AnnAssign):
                    self.fail(s, "annotated assignment")
                elif isinstance(s, ast.For):
                    if s.orelse:
                        self.fail(s, "for ... else")
                    calls(s.iter)
                    target(s.target, s.iter)
                    walk(s.body)
                elif isinstance(s, ast.If):
                    calls(s.test)
                    walk(s.body)
                    walk(s.orelse)
                elif isinstance(s, ast.Try):
                    walk(s.body)
                    for h in s.handlers:
                        walk(h.body)
                    walk(s.orelse)
                    walk(s.finalbody)
                elif isinstance(s, ast.With):
                    add("fs")
                    for it in s.items:
                        calls(it.context_expr)
                        if it.optional_vars is not None:
                            target(it.optional_vars)
                    walk(s.body)
                else:
                    calls(s)
        walk(list(stmts))
        return out

    def carried(self, stmts, env, node):
        return self.carried_names(stmts, env, node, None)

    def carried_names(self, stmts, env, node, pre_alias):
        """the joined / loop-carried variables of stmts: assigned there and bound before, canonical order"""
        names = [n for n in self.assigned(stmts, env, pre_alias) if n in env.vars]
        for n in names:
            kind = env.vars[n][0]
            if kind in ("alias", "cdict", "exc"):
                self.fail(node, "%r is rebound in a loop / conditional that carries it" % n)
        return sorted(names, key=lambda n: (RANK.get(env.vars[n][1].kind, 7), self.order.get(n, 0)))

    @staticmethod
    def state_text(names):
        if not names:
            return "tt", "(_ : unit)"
        if len(names) == 1:
            return names[0], names[0]
        t = "(" + ", ".join(names) + ")"
        return t, "'" + t

    # -------------------------------------------------------------- layout
    def note(self, s):
        return "(* %d: %s *)" % (s.lineno, _comment(ast.unparse(s).split("\n")[0]))

    def line(self, ind, text, s=None):
        pad = "  " * ind
        if s is None:
            return pad + text + "\n"
        first = pad + text
        return first + " " * max(2, 72 - len(first)) + self.note(s) + "\n"

    def flush(self, ind, s, text=None):
        lines = self.pre + ([text] if text is not None else [])
        self.pre = []
        out = ""
        for n, l in enumerate(lines):
            out += self.line(ind, l, s if n == 0 else None)
        if not lines and s is not None:
            out += self.line(ind, "(* no effect *)", s)
        return out

    def bind(self, node, name, ty, env):
        self.check_name(node, name)
        old = env.vars.get(name)
        if old is not None and (old[0] != "val" or not same(old[1], ty)):
            self.fail(node, "%r changes its kind / type (%r -> %r)" % (name, old[1], ty))
        self.order.setdefault(name, len(self.order))
        env.vars[name] = ("val", ty)

    def new_root(self, node, name, ty, env):
        self.check_name(node, name)
        if name in env.vars:
            self.fail(node, "%r is rebound to a new mutable object" % name)
        self.order.setdefault(name, len(self.order))
        env.vars[name] = ("root", ty)

    # -------------------------------------------------------------- statements
    def block(self, stmts, env, k, ind):
        if self.pre:
            raise TranslateError("internal: pending binds")
        if not stmts:
            return self.line(ind, "TOk %s" % _paren(k.fall(None)))
        if all(isinstance(x, _Resume) and not x.text for x in stmts):
            return self.line(ind, "TOk %s" % _paren(k.fall(None)))
        s, rest = stmts[0], list(stmts[1:])
        if isinstance(s, _Resume):
            out = self.line(ind, s.text) if s.text else ""
            if s.drop:
                env.vars.pop(s.drop, None)
            saved = list(self.guards)
            if s.end_guard in self.guards:
                self.guards.remove(s.end_guard)
            try:
                return out + self.block(rest, env, k, ind)
            finally:
                self.guards = saved
        if isinstance(s, self.BANNED):
            self.fail(s, "unsupported statement (%s)" % type(s).__name__)
        if isinstance(s, ast.Expr) and isinstance(s.value, ast.Constant) and type(s.value.value) is str:
            return self.block(rest, env, k, ind)
        if isinstance(s, ast.Pass):
            return self.block(rest, env, k, ind)
        if isinstance(s, ast.Return):
            if rest:
                self.fail(rest[0], "statement after return")
            v = None
            if s.value is not None and not (isinstance(s.value, ast.Constant) and s.value.value is None):
                v = self.expr(s.value, env)
                if is_container(v.ty):
                    self.fail(s, "a mutable object is returned")
                v = V(v.ty, self.scalar(v, s), elts=v.elts)
            return self.flush(ind, s, "TOk %s" % _paren(k.retv(s, v)))
        if isinstance(s, ast.Continue):
            if rest:
                self.fail(rest[0], "statement after continue")
            return self.line(ind, "TOk %s" % _paren(k.cont(s)), s)
        if isinstance(s, ast.Raise):
            if rest or s.exc is not None or s.cause is not None or k.reraise is None:
                self.fail(s, "only a bare `raise` as the last statement of a handler is supported")
            return self.line(ind, k.reraise, s)
        if isinstance(s, ast.Assign):
            return self.assign(s, env, ind) + self.block(rest, env, k, ind)
        if isinstance(s, ast.AugAssign):
            return self.augassign(s, env, ind) + self.block(rest, env, k, ind)
        if isinstance(s, ast.Expr):
            return self.effect(s, env, ind) + self.block(rest, env, k, ind)
        if isinstance(s, ast.If):
            return self.if_(s, rest, env, k, ind)
        if isinstance(s, ast.For):
            return self.for_(s, rest, env, k, ind)
        if isinstance(s, ast.Try):
            return self.try_(s, rest, env, k, ind)
        if isinstance(s, ast.With):
            return self.with_(s, rest, env, k, ind)
        self.fail(s, "unsupported statement (%s)" % type(s).__name__)

    def live_check(self, node, p, key):
        """an item store d[key] = v into the dict at path p, while loops read dicts of the same root live"""
        def norm(t):
            return self.captured.get(t, t) if hasattr(self, "captured") else t

        mine = [(kd, norm(a[0]) if kd == "item" else (a[0] if kd == "field" else norm(a))) for kd, a, _ in p.steps]
        for (root, steps, keyvar) in self.loops:
            if root != p.root:
                continue
            if mine == steps and norm(key) == keyvar:
                continue
            ext = steps + [("item", keyvar)]
            if len(mine) >= len(ext) and mine[:len(ext)] == ext:
                continue
            self.fail(node, "a store of a (possibly new) key into a dict of %r while a loop iterates over a dict of it" % root)

    def norm_steps(self, p):
        def norm(t):
            return self.captured.get(t, t)
        return [(kd, norm(a[0]) if kd == "item" else (a[0] if kd == "field" else norm(a))) for kd, a, _ in p.steps]

    def store(self, s, target, v, env, value_node):
        """target = v for a Subscript / Attribute target (the value has been evaluated)"""
        if isinstance(target, ast.Attribute):
            base = self.expr(target.value, env)
            if base.ty.kind != "rec":
                self.fail(s, "attribute store into a value of type %r" % base.ty)
            st = self.record_step(s, base.ty, target.attr, "attr")
            p = self.as_path(base, s).extend(*st)
            if self.spec.get("init") and p.root == "self" and len(p.steps) == 1 and self.init_depth == 0:
                self.init_done.add(target.attr)
        else:
            base = self.expr(target.value, env)
            sl = target.slice
            if base.ty.kind == "rec":
                if not (isinstance(sl, ast.Constant) and type(sl.value) is str):
                    self.fail(s, "a %s is stored into with constant string keys" % base.ty.name)
                p = self.as_path(base, s).extend(*self.record_step(s, base.ty, sl.value, "key"))
            elif base.ty.kind == "dict":
                key = self.to(self.expr(sl, env), base.ty.key, s, "dict key")
                bp = self.as_path(base, s)
                self.live_check(s, bp, key)
                if base.ty.val is None:
                    base.ty.val = v.ty           # a Counter gets the type of the first value stored
                p = bp.extend("item", (key, base.ty), base.ty.val)
            elif base.ty.kind == "list":
                p = self.as_path(base, s).extend("idx", self.as_int(sl, env), base.ty.elt)
            else:
                self.fail(s, "store into a value of type %r" % base.ty)
        if is_container(p.ty):
            # only a NEW object may be stored, and only where it replaces nothing
            if v.path is not None or v.text is None or not same(v.ty, p.ty):
                self.fail(s, "a mutable object may only be stored as a fresh literal of the right type")
            kind = p.steps[-1][0]
            if kind == "item":
                g = (ast.dump(target.slice), ast.dump(target.value))
                if g not in self.guards:
                    self.fail(s, "a container may only be stored directly under `if k not in D:` for the same k and D")
                self.guards.remove(g)        # used up: a second store would replace the object just created
            elif not (self.spec.get("init") and p.root == "self" and len(p.steps) == 1):
                self.fail(s, "a container may only replace a field in __init__")
            new = v.text
        else:
            new = self.to(v, p.ty, value_node, "stored value")
        self.write_path(p, new, s)

    def fresh_container(self, s, value, ty, env):
        """a literal that creates a new mutable object of type ty, or None"""
        if isinstance(value, ast.Dict) and not value.keys and ty.kind == "dict":
            return V(ty, "[]")
        if isinstance(value, ast.Dict) and ty.kind == "rec" and ty.name == "gentry":
            return self.dict_literal(value, env)
        if isinstance(value, ast.BinOp) and isinstance(value.op, ast.Mult) and isinstance(value.left, ast.List) \
                and len(value.left.elts) == 1 and ty.kind == "list":
            x = self.to(self.expr(value.left.elts[0], env), ty.elt, s, "list element")
            n = self.as_int(value.right, env)
            return V(ty, "repeat %s (Z.to_nat %s)" % (_paren(x), _paren(n)))
        return None

    def target_type(self, t, env):
        """static type of a store target, without emitting anything"""
        saved, self.pre = self.pre, []
        try:
            base = self.expr(t.value, env)
            if isinstance(t, ast.Attribute):
                return self.record_step(t, base.ty, t.attr, "attr")[2] if base.ty.kind == "rec" else None
            if base.ty.kind == "rec" and isinstance(t.slice, ast.Constant) and type(t.slice.value) is str:
                return self.record_step(t, base.ty, t.slice.value, "key")[2]
            if base.ty.kind == "dict":
                return base.ty.val
            if base.ty.kind == "list":
                return base.ty.elt
            return None
        finally:
            self.pre = saved

    def assign(self, s, env, ind):
        if len(s.targets) != 1:
            self.fail(s, "multiple assignment targets")
        t, value = s.targets[0], s.value
        if isinstance(t, ast.Name):
            if isinstance(value, ast.Call) and isinstance(value.func, ast.Name) and value.func.id == "Counter" \
                    and not value.args and not value.keywords:
                self.new_root(s, t.id, DICT(INT, None, counter=True), env)
                return self.line(ind, "let %s := [] in" % t.id, s)
            if isinstance(value, ast.Dict) and value.keys and all(
                    isinstance(k, ast.Constant) and type(k.value) is str for k in value.keys) \
                    and sorted(k.value for k in value.keys) != sorted(
                        f for f, d in RECORDS["gentry"]["fields"].items() if not d[3]):
                # a local constant table: one value per key, read with constant keys only
                if t.id in env.vars:
                    self.fail(s, "%r is rebound" % t.id)
                self.check_name(s, t.id)
                d = {}
                for kx, vx in zip(value.keys, value.values):
                    d[kx.value] = self.pure(vx, env, "a value of a constant dict")
                env.vars[t.id] = ("cdict", d)
                return self.line(ind, "(* a constant table, read where it is used *)", s)
            if isinstance(value, ast.Call) and self.callee(value) is not None:
                v = self.call(value, env, stmt_level=True)
            else:
                v = self.expr(value, env)
            if v.path is not None and is_container(v.ty):
                return self.alias(s, t.id, v.path, env, ind)
            if is_container(v.ty):
                self.fail(s, "a new mutable object of type %r bound to a variable" % v.ty)
            text = self.scalar(v, s)
            self.bind(s, t.id, v.ty, env)
            return self.flush(ind, s, "let %s := %s in" % (t.id, text))
        if isinstance(t, (ast.Subscript, ast.Attribute)):
            # Python evaluates the right-hand side first, then the target's container and key
            ty = self.target_type(t, env)
            v = self.fresh_container(s, value, ty, env) if ty is not None and is_container(ty) else None
            if v is None:
                v = self.expr(value, env)
                if v.path is not None and is_container(v.ty):
                    self.fail(s, "an existing mutable object is stored (it would be reachable through two paths)")
                v = V(v.ty, self.scalar(v, s), elts=v.elts)
            self.store(s, t, v, env, value)
            return self.flush(ind, s)
        self.fail(s, "unsupported assignment target")

    def alias(self, s, name, p, env, ind):
        """x = P for a sub-object P: x names the PATH (keys captured now); the binding evaluates the path"""
        if name in env.vars and env.vars[name][0] != "alias":
            self.fail(s, "%r is rebound to a mutable object" % name)
        self.check_name(s, name)
        self.read_path(p, s)              # KeyError / IndexError of the binding itself
        steps = []
        if not hasattr(self, "captured"):
            self.captured = {}
        n = 0
        for kind, arg, ty in p.steps:
            if kind == "field":
                steps.append((kind, arg, ty))
                continue
            text = arg[0] if kind == "item" else arg
            kn = "%s_k%d" % (name, n)
            n += 1
            self.emit("let %s := %s in" % (kn, text))
            self.captured[kn] = self.captured.get(text, text)
            steps.append((kind, (kn, arg[1]) if kind == "item" else kn, ty))
        env.vars[name] = ("alias", Path(p.root, steps, p.ty))
        return self.flush(ind, s)

    def augassign(self, s, env, ind):
        if not isinstance(s.op, (ast.Add, ast.Sub, ast.Mult)):
            self.fail(s, "only += -= *= are supported")
        t = s.target
        if isinstance(t, ast.Name):
            if t.id not in env.vars or env.vars[t.id][0] != "val":
                self.fail(s, "augmented assignment to something that is not a scalar variable")
            old = V(env.vars[t.id][1], t.id)
            v = self.binop(s, s.op, old, self.expr(s.value, env))
            if not same(v.ty, old.ty):
                if old.ty.kind == "int" and v.ty.kind == "float":
                    self.fail(s, "%r changes its type from int to float" % t.id)
                self.fail(s, "%r changes its type" % t.id)
            return self.flush(ind, s, "let %s := %s in" % (t.id, self.scalar(v, s)))
        if isinstance(t, (ast.Subscript, ast.Attribute)):
            # Python: container, key, old value, THEN the right-hand side, then the store
            load = ast.copy_location(ast.Attribute(t.value, t.attr, ast.Load()), t) if isinstance(t, ast.Attribute) \
                else ast.copy_location(ast.Subscript(t.value, t.slice, ast.Load()), t)
            old = self.expr(load, env)
            if is_container(old.ty):
                self.fail(s, "augmented assignment on a mutable object")
            old = V(old.ty, self.scalar(old, s))
            if old.ty.kind == "nval":
                old = V(INT, self.to(old, INT, s))
            v = self.binop(s, s.op, old, self.expr(s.value, env))
            self.store(s, t, V(v.ty, self.scalar(v, s)), env, s.value)
            return self.flush(ind, s)
        self.fail(s, "unsupported assignment target")

    def effect(self, s, env, ind):
        c = s.value
        if not isinstance(c, ast.Call):
            self.fail(s, "unsupported expression statement")
        f = c.func
        if isinstance(f, ast.Name) and f.id == "print":
            for a in list(c.args) + [kw.value for kw in c.keywords]:
                if isinstance(a, ast.Name) and a.id in env.vars and env.vars[a.id][0] == "exc":
                    continue
                unbound = [n for n in ast.walk(a) if isinstance(n, ast.Name) and n.id not in env.vars
                           and n.id not in ("str", "len")]
                if unbound and any(kind == "exc" for kind, _ in env.vars.values()):
                    continue                      # inside a handler: a local of the try body (NameError is not modelled)
                v = self.expr(a, env)             # evaluated for its exceptions; the output is dropped
                if is_container(v.ty):
                    self.fail(s, "print of a mutable object")
                self.scalar(v, a)
            return self.flush(ind, s, "(* stdout is not modelled *)")
        if isinstance(f, ast.Name) and f.id == "make_sure_path_exists" and len(c.args) == 1 and not c.keywords:
            self.to(self.expr(c.args[0], env), STR, s)
            return self.flush(ind, s, "(* the OS is not modelled: the directory exists afterwards *)")
        if isinstance(f, ast.Attribute) and f.attr == "write" and isinstance(f.value, ast.Name) \
                and f.value.id in env.vars and env.vars[f.value.id] == ("val", FILE) and len(c.args) == 1 and not c.keywords:
            x = self.to(self.expr(c.args[0], env), STR, s, "argument of write")
            return self.flush(ind, s, "let %s := %s ++ %s in" % (f.value.id, f.value.id, _paren(x)))
        if self.callee(c) is not None:
            self.call(c, env, stmt_level=True)
            return self.flush(ind, s)
        self.fail(s, "unsupported expression statement")

    def test(self, e, env):
        """the test of an `if`: a boolean; a call with effects is accepted as the whole test or under one `not`"""
        neg = False
        c = e
        if isinstance(c, ast.UnaryOp) and isinstance(c.op, ast.Not):
            neg, c = True, c.operand
        if isinstance(c, ast.Call):
            if isinstance(c.func, ast.Name) and c.func.id == "_save_config" and self.fs \
                    and "save_config" in dict(CTX[self.spec["group"]]):
                kw = {k.arg: k.value for k in c.keywords}
                if c.args or set(kw) != {"file_name", "directory", "program_info"}:
                    self.fail(e, "_save_config is called with the keywords file_name, directory, program_info")
                fn = self.to(self.expr(kw["file_name"], env), STR, e)
                d = self.to(self.expr(kw["directory"], env), STR, e)
                pi = self.to(self.expr(kw["program_info"], env), PINFO, e)
                x = self.tmp()
                self.emit("'(%s, fs) <~ TOk (call_save_config save_config %s %s %s fs) ;;" % (x, _paren(d), _paren(fn), _paren(pi)))
                return "negb %s" % x if neg else x
            spec = self.callee(c)
            if spec is not None and (spec["mutates"] or spec.get("fs")):
                v = self.call(c, env, stmt_level=True)
                if v.ty.kind != "bool":
                    self.fail(e, "condition of type %r" % v.ty)
                return "negb %s" % v.text if neg else v.text
        return self.as_bool(e, env)

    def if_(self, s, rest, env, k, ind):
        if all(isinstance(x, _Resume) and not x.text and not x.drop for x in rest):
            rest = []
        c = self.test(s.test, env)
        body, orelse = list(s.body), list(s.orelse)
        bt, et = self.terminates(body), self.terminates(orelse)
        guard = None
        if isinstance(s.test, ast.Compare) and len(s.test.ops) == 1 and isinstance(s.test.ops[0], ast.NotIn):
            guard = (ast.dump(s.test.left), ast.dump(s.test.comparators[0]))
        env_t, env_f = env.copy(), env.copy()
        if self.spec.get("init"):
            self.init_depth += 1

        def then_block(stmts, kk, i):
            if guard:
                self.guards.append(guard)
            try:
                return self.block(stmts, env_t, kk, i)
            finally:
                if guard and guard in self.guards:
                    self.guards.remove(guard)

        try:
            esc = any(self.escapes(n) for n in body + orelse)
            if not rest or bt or et or esc:
                if rest and bt and et:
                    self.fail(rest[0], "unreachable statement")
                # the statements that follow are copied into the branches that can reach them.  A guard
                # `k not in D` only covers the statements of the branch itself
                head = self.flush(ind, s, "if %s then" % c)
                out = head
                if bt or not rest:
                    out += then_block(body, k, ind + 1)
                else:
                    out += self.seq(body, rest, env_t, k, ind + 1, guard)
                out += self.line(ind, "else")
                if et or not rest:
                    out += self.block(orelse, env_f, k, ind + (0 if bt else 1))
                else:
                    out += self.seq(orelse, rest, env_f, k, ind + (0 if bt else 1), None)
                return out
            names = self.carried(body + orelse, env, s)
            tup, pat = self.state_text(names)
            join = K(lambda _n: tup, lambda n: self.fail(n, "continue"), lambda n, v: self.fail(n, "return"))
            out = self.flush(ind, s, "%s <~ (if %s then" % (pat, c))
            out += then_block(body, join, ind + 2)
            out += self.line(ind + 1, "else")
            out += _close(self.block(orelse, env_f, join, ind + 2), ") ;;")
        finally:
            if self.spec.get("init"):
                self.init_depth -= 1
        return out + self.block(rest, env, k, ind)

    def seq(self, first, rest, env, k, ind, guard):
        """the statements `first` (a branch) followed by the copied `rest`; the guard covers `first` only"""
        if guard:
            self.guards.append(guard)
        try:
            return self.block(list(first) + [_Resume(end_guard=guard)] + list(rest), env, k, ind)
        finally:
            if guard and guard in self.guards:
                self.guards.remove(guard)

    def for_(self, s, rest, env, k, ind):
        if s.orelse:
            self.fail(s, "for ... else")
        it = s.iter
        inner = env.copy()
        # a store through a loop target that names a sub-object of the iterated container is a store to its root
        pre = {}
        it_root = it
        while True:
            if isinstance(it_root, (ast.Subscript, ast.Attribute)):
                it_root = it_root.value
            elif isinstance(it_root, ast.Call) and isinstance(it_root.func, ast.Attribute) and not it_root.args:
                it_root = it_root.func.value
            elif isinstance(it_root, ast.Call) and isinstance(it_root.func, ast.Name) and it_root.func.id == "enumerate" \
                    and len(it_root.args) == 1:
                it_root = it_root.args[0]
            else:
                break
        if isinstance(it_root, ast.Name) and it_root.id in env.vars and env.vars[it_root.id][0] in ("root", "alias"):
            r = env.vars[it_root.id][1].root if env.vars[it_root.id][0] == "alias" else it_root.id
            for t in ast.walk(s.target):
                if isinstance(t, ast.Name):
                    pre[t.id] = r
        names = [n for n in self.carried_names(s.body, env, s, pre)]
        body_assigned = self.assigned(s.body, env, pre)
        head_lines = []          # lines at the start of the body
        live = None

        def targets(n):
            if n == 1:
                if not isinstance(s.target, ast.Name):
                    self.fail(s, "the loop needs one plain target")
                return [s.target.id]
            if not (isinstance(s.target, ast.Tuple) and len(s.target.elts) == n
                    and all(isinstance(x, ast.Name) for x in s.target.elts)):
                self.fail(s, "the loop needs %d plain targets" % n)
            return [x.id for x in s.target.elts]

        def fresh(name, entry):
            if name in env.vars:
                self.fail(s, "the loop variable %r is already bound" % name)
            if name in body_assigned:
                self.fail(s, "the loop variable %r is assigned in the loop" % name)
            self.check_name(s, name)
            self.order.setdefault(name, len(self.order))
            inner.vars[name] = entry

        is_call = isinstance(it, ast.Call) and not it.keywords
        if is_call and isinstance(it.func, ast.Name) and it.func.id == "range" and len(it.args) in (1, 2):
            (x,) = targets(1)
            bounds = [self.as_int(a, env) for a in it.args]
            if len(bounds) == 1:
                bounds = ["0%Z"] + bounds
            fresh(x, ("val", INT))
            lst, pattern = "trange %s %s" % (_paren(bounds[0]), _paren(bounds[1])), x
        elif is_call and isinstance(it.func, ast.Name) and it.func.id == "enumerate" and len(it.args) == 1:
            v = self.expr(it.args[0], env)
            a, b = targets(2)
            if v.ty.kind == "list":
                p = self.as_path(v, s)
                cur = self.read_path(p, s)
                fresh(a, ("val", INT))
                if p.root in body_assigned:
                    # the list is changed while it is iterated (by l[i] = v only: the length stays): read live
                    lst, pattern = "trange 0%%Z (tlen %s)" % _paren(cur), a
                    live = ("list", p, a, b)
                else:
                    lst, pattern = "tenumerate %s" % _paren(cur), "'(%s, %s)" % (a, b)
                    self.loop_value(fresh, b, v.ty.elt)
            elif v.ty.kind in ("listv", "str"):
                fresh(a, ("val", INT))
                fresh(b, ("val", CHAR if v.ty.kind == "str" else v.ty.elt))
                lst, pattern = "tenumerate %s" % _paren(self.scalar(v, s)), "'(%s, %s)" % (a, b)
            else:
                self.fail(s, "enumerate of a value of type %r" % v.ty)
        else:
            mode = "keys"
            src = it
            if is_call and isinstance(it.func, ast.Attribute) and it.func.attr in ("items", "keys", "values") and not it.args:
                mode, src = it.func.attr, it.func.value
            elif is_call:
                src = it
            v = self.expr(src, env)
            if v.ty.kind == "dict" and v.path is not None:
                p = self.as_path(v, s)
                cur = self.read_path(p, s)
                if mode == "items" and isinstance(s.target, ast.Name):
                    # for item in d.items(): the pairs as values
                    if p.root in body_assigned or is_container(v.ty.val):
                        self.fail(s, "a single target over .items() of a dict that is changed in the loop / holds objects")
                    fresh(s.target.id, ("val", TUPLE(v.ty.key, v.ty.val)))
                    a = b = None
                    lst, pattern = cur, s.target.id
                elif mode == "items":
                    a, b = targets(2)
                elif mode == "values":
                    # for v in d.values(): the key gets a name of its own (it is what a live loop iterates)
                    (b,) = targets(1)
                    a = b + "_key"
                    if a in env.vars or a in body_assigned:
                        self.fail(s, "the name %r is needed for the key of the loop over .values()" % a)
                else:
                    (a,), b = targets(1), None
                if a is None:
                    pass
                elif not fresh(a, ("val", v.ty.key)) and p.root in body_assigned:
                    # values of the dict (or what hangs below them) are changed while it is iterated; its key
                    # set stays (checked at every store): iterate the keys, read the live value by key
                    lst, pattern = "map fst %s" % _paren(cur), a
                    live = ("dict", p, a, b)
                elif mode in ("items", "values"):
                    lst, pattern = cur, "'(%s, %s)" % (a, b)
                    self.loop_value(fresh, b, v.ty.val)
                else:
                    lst, pattern = "map fst %s" % _paren(cur), a
            elif mode == "keys" and src is it and v.ty.kind in ("str", "listv"):
                elt = CHAR if v.ty.kind == "str" else v.ty.elt
                text = self.scalar(v, s)
                if isinstance(s.target, ast.Tuple):
                    if elt.kind != "tuple" or len(elt.elts) != 2:
                        self.fail(s, "tuple targets over elements of type %r" % elt)
                    a, b = targets(2)
                    fresh(a, ("val", elt.elts[0]))
                    fresh(b, ("val", elt.elts[1]))
                    lst, pattern = text, "'(%s, %s)" % (a, b)
                else:
                    (x,) = targets(1)
                    fresh(x, ("val", elt))
                    lst, pattern = text, x
            else:
                self.fail(s, "unsupported loop over a value of type %r" % v.ty)
        pushed = False
        if live is not None:
            kind, p, a, b = live
            if kind == "dict":
                self.loops.append((p.root, self.norm_steps(p), a))
                pushed = True
                if b is not None:
                    ep = p.extend("item", (a, p.ty), p.ty.val)
                    if is_container(p.ty.val):
                        fresh(b, ("alias", ep))
                    else:
                        fresh(b, ("val", p.ty.val))
                        head_lines.append(("read", b, ep))
            else:
                ep = p.extend("idx", a, p.ty.elt)
                if is_container(p.ty.elt):
                    fresh(b, ("alias", ep))
                else:
                    fresh(b, ("val", p.ty.elt))
                    head_lines.append(("read", b, ep))
        tup, pat = self.state_text(names)
        body_k = K(lambda _n: "Continue %s" % tup, lambda _n: "Continue %s" % tup,
                   lambda n, v: "Return %s" % _paren(k.retv(n, v)))
        out = self.flush(ind, s, "tfor %s (fun %s %s =>" % (_paren(lst), pattern, pat))
        try:
            for _r, name, ep in head_lines:
                t = self.read_path(ep, s)
                self.emit("let %s := %s in" % (name, t))
                out += self.flush(ind + 2, None) if False else "".join(self.line(ind + 2, l) for l in self.pre)
                self.pre = []
            out += _close(self.block(list(s.body), inner, body_k, ind + 2), ")")
        finally:
            if pushed:
                self.loops.pop()
        out += self.line(ind, "%s (fun %s =>" % (tup, pat))
        out += _close(self.block(rest, env, k, ind), ")")
        return out

    def loop_value(self, fresh, name, ty):
        """the second loop variable of a by-value iteration: a scalar, or a read-only root for a container"""
        fresh(name, ("root", ty) if is_container(ty) else ("val", ty))

    def try_(self, s, rest, env, k, ind):
        if s.finalbody or len(s.handlers) != 1:
            self.fail(s, "try is supported with one handler, no finally")
        if s.orelse:
            return self.try_else(s, rest, env, k, ind)
        h = s.handlers[0]
        if h.type is None:
            catches = "(fun _ => true)"
        elif isinstance(h.type, ast.Name) and h.type.id == "Exception":
            catches = "(fun _ => true)"
        elif isinstance(h.type, ast.Name) and h.type.id in EXC:
            catches = "(fun exn => texn_eqb exn %s)" % EXC[h.type.id]
        else:
            self.fail(s, "unsupported exception class")
        names = self.carried(list(s.body) + list(h.body), env, s)
        tup, pat = self.state_text(names)
        kk = K(lambda _n: "Continue %s" % tup, lambda n: "Return %s" % _paren(k.cont(n)),
               lambda n, v: "Return %s" % _paren(k.retv(n, v)))
        kh = K(kk.fall, kk.cont, kk.retv, reraise="TRaise exn")
        henv = env.copy()
        if h.name:
            self.check_name(s, h.name)
            if h.name in env.vars:
                self.fail(s, "the exception variable %r is already bound" % h.name)
            henv.vars[h.name] = ("exc", None)
        out = self.line(ind, "ttry (", s)
        out += _close(self.block(list(s.body), env.copy(), kk, ind + 2), ")")
        out += self.line(ind + 1, "%s (fun exn =>" % catches, h)
        out += _close(self.block(list(h.body), henv, kh, ind + 2), ")")
        out += self.line(ind, "(fun %s =>" % pat)
        out += _close(self.block(rest, env, k, ind), ")")
        return out

    def handler_head(self, s):
        h = s.handlers[0]
        if h.type is None or (isinstance(h.type, ast.Name) and h.type.id == "Exception"):
            return h, "(fun _ => true)"
        if isinstance(h.type, ast.Name) and h.type.id in EXC:
            return h, "(fun exn => texn_eqb exn %s)" % EXC[h.type.id]
        self.fail(s, "unsupported exception class")

    def try_else(self, s, rest, env, k, ind):
        """try: A except E: H else: B.  B runs after A when A did not raise and is NOT protected by the handler:
        ttry_else A catches H B k, where A hands the variables B and the rest need on to B"""
        h, catches = self.handler_head(s)
        names = self.carried(list(s.body) + list(h.body) + list(s.orelse), env, s)
        tup, pat = self.state_text(names)
        env_a = env.copy()
        used_later = {n.id for st in list(s.orelse) for n in ast.walk(st) if isinstance(n, ast.Name)}

        def mid_names():
            new = [n for n in env_a.vars if n not in env.vars and env_a.vars[n][0] == "val" and n in used_later]
            return names + [n for n in new if n not in names]

        def fall_a(_n):
            return "Continue %s" % self.state_text(mid_names())[0]

        ka = K(fall_a, lambda n: "Return %s" % _paren(k.cont(n)), lambda n, v: "Return %s" % _paren(k.retv(n, v)))
        kj = K(lambda _n: "Continue %s" % tup, ka.cont, ka.retv)
        kh = K(kj.fall, kj.cont, kj.retv, reraise="TRaise exn")
        henv = env.copy()
        if h.name:
            self.check_name(s, h.name)
            if h.name in env.vars:
                self.fail(s, "the exception variable %r is already bound" % h.name)
            henv.vars[h.name] = ("exc", None)
        out = self.line(ind, "ttry_else (", s)
        out += _close(self.block(list(s.body), env_a, ka, ind + 2), ")")
        out += self.line(ind + 1, "%s (fun exn =>" % catches, h)
        out += _close(self.block(list(h.body), henv, kh, ind + 2), ")")
        mid = mid_names()
        env_b = env.copy()
        for n in mid:
            env_b.vars[n] = env_a.vars[n]
        out += self.line(ind + 1, "(fun %s =>" % self.state_text(mid)[1], s.orelse[0])
        out += _close(self.block(list(s.orelse), env_b, kj, ind + 2), ")")
        out += self.line(ind, "(fun %s =>" % pat)
        out += _close(self.block(rest, env, k, ind), ")")
        return out

    def with_(self, s, rest, env, k, ind):
        if not self.fs or len(s.items) != 1:
            self.fail(s, "with is supported for one file opened for writing")
        item = s.items[0]
        c = item.context_expr
        ok = isinstance(c, ast.Call) and isinstance(item.optional_vars, ast.Name) and len(c.args) == 2 \
            and isinstance(c.args[1], ast.Constant) and c.args[1].value == "w" \
            and ((isinstance(c.func, ast.Name) and c.func.id == "open" and not c.keywords)
                 or (isinstance(c.func, ast.Attribute) and isinstance(c.func.value, ast.Name) and c.func.value.id == "codecs"
                     and c.func.attr == "open" and [kw.arg for kw in c.keywords] == ["encoding"]))
        if not ok:
            self.fail(s, "unsupported with statement (open(p, 'w') / codecs.open(p, 'w', encoding=e) as f)")
        for n in s.body:
            if self.escapes(n):
                self.fail(n, "control flow leaving a with block")
        p = self.to(self.pure(c.args[0], env, "the path of the file"), STR, s)
        for kw in c.keywords:
            self.to(self.pure(kw.value, env, "the encoding"), STR, s)
        f = item.optional_vars.id
        if f in env.vars:
            self.fail(s, "the file variable %r is already bound" % f)
        self.check_name(s, f)
        inner = env.copy()
        self.order.setdefault(f, len(self.order))
        inner.vars[f] = ("val", FILE)
        out = self.line(ind, "let %s := @nil N in" % f, s)
        close = _Resume(text="let fs := fs_put fs %s %s in" % (_paren(p), f), drop=f, node=s)
        return out + self.block(list(s.body) + [close] + list(rest), inner, k, ind)

    # -------------------------------------------------------------- function
    def check_signature(self):
        fn, spec = self.fn, self.spec
        a = fn.args
        if fn.decorator_list or a.vararg or a.kwarg or a.kwonlyargs or a.posonlyargs or a.kw_defaults:
            self.fail(fn, "unsupported signature")
        names = [x.arg for x in a.args]
        want = [n for n, _ in spec["params"]]
        if names != want:
            self.fail(fn, "parameters are %r, the translator knows %r" % (names, want))
        if any(x.annotation is not None for x in a.args) or fn.returns is not None:
            self.fail(fn, "annotations are not supported")
        defaults = {}
        for x, d in zip(a.args[len(a.args) - len(a.defaults):], a.defaults):
            if not (isinstance(d, ast.Constant) and type(d.value) is int):
                self.fail(fn, "unsupported default value")
            defaults[x.arg] = d.value
        if defaults != spec["defaults"]:
            self.fail(fn, "defaults are %r, the translator knows %r" % (defaults, spec["defaults"]))
        for n, _ in spec["params"]:
            self.check_name(fn, n)

    def result_type(self):
        spec = self.spec
        parts = ([coq_type(spec["ret"])] if spec["ret"].kind != "none" else []) \
            + [coq_type(dict(spec["params"])[m]) for m in spec["mutates"]] + (["fsys"] if spec.get("fs") else [])
        return " * ".join(parts) if parts else "unit"

    def result(self, valtext):
        spec = self.spec
        parts = ([valtext] if spec["ret"].kind != "none" else []) + list(spec["mutates"]) + (["fs"] if spec.get("fs") else [])
        if not parts:
            return "tt"
        return parts[0] if len(parts) == 1 else "(" + ", ".join(parts) + ")"

    def translate(self):
        self.check_signature()
        fn, spec = self.fn, self.spec
        env = Env()
        self.captured = {}
        self.init_done, self.init_depth = set(), 0
        for n, ty in spec["params"]:
            self.order[n] = len(self.order)
            env.vars[n] = ("root", ty) if is_container(ty) else ("val", ty)
        if self.fs:
            self.order["fs"] = len(self.order)
            env.vars["fs"] = ("val", Ty("fsys"))
        ret_ty = spec["ret"]

        def retv(node, v):
            if v is None:
                if ret_ty.kind != "none":
                    self.fail(node, "returns nothing, the translator expects %r" % ret_ty)
                return self.result(None)
            if ret_ty.kind == "none":
                self.fail(node, "returns a value of type %r, the translator expects none" % v.ty)
            return self.result(self.to(v, ret_ty, node, "returned value"))

        def fall(_n):
            if ret_ty.kind != "none":
                self.fail(fn, "the function can end without a return statement")
            return self.result(None)

        k = K(fall, lambda n: self.fail(n, "continue outside a loop"), retv)
        ctx = "".join(" (%s : %s)" % c for c in CTX[spec["group"]])
        shown = [(n, ty) for n, ty in spec["params"] if not (spec.get("init") and n == "self")]
        params = "".join(" (%s : %s)" % (n, coq_type(ty)) for n, ty in shown) + (" (fs : fsys)" if self.fs else "")
        dump = ast.dump(fn, include_attributes=False)
        sha = hashlib.sha256(dump.encode("utf-8")).hexdigest()
        out = "(* %s  %sdef %s  lines %d-%d\n   sha256 of ast.dump: %s%s *)\n" % (
            spec["src"], "class %s  " % spec["cls"] if spec["cls"] else "", fn.name, fn.lineno, fn.end_lineno, sha,
            "\n   defaults: %s" % ", ".join("%s = %d" % kv for kv in sorted(spec["defaults"].items()))
            if spec["defaults"] else "")
        body = ""
        if spec.get("init"):
            body += self.line(1, "let self := %s in" % BLANK[dict(spec["params"])["self"].name])
        body += self.block(list(fn.body), env, k, 1)
        if spec.get("init"):
            fields = set(RECORDS[dict(spec["params"])["self"].name]["fields"])
            if self.init_done != fields:
                self.fail(fn, "__init__ must assign exactly the attributes %r at its top level (assigned: %r)"
                          % (sorted(fields), sorted(self.init_done)))
        out += "Definition %s%s%s : tres %s :=\n" % (spec["coq"], ctx, params, _paren(self.result_type()))
        out += _close(body, ".")
        return out, sha


BLANK = {"alookup": "al_blank", "agen": "ag_blank"}


def _parse(repo, rel):
    path = os.path.join(repo, rel)
    with open(path, encoding="utf-8", newline="") as f:
        src = f.read()
    return path, ast.parse(src, filename=path)


def _check_module(path, tree, names):
    """a rebinding of one of the translated names (or of a builtin the translation interprets) inside its
    module would make the translated text not the code that runs"""
    imports = {}
    for n in ast.walk(tree):
        if isinstance(n, (ast.Assign, ast.AugAssign, ast.AnnAssign, ast.Delete)):
            targets = n.targets if isinstance(n, (ast.Assign, ast.Delete)) else [n.target]
            for t in targets:
                for m in ast.walk(t):
                    if (isinstance(m, ast.Name) and m.id in names) or \
                            (isinstance(m, ast.Attribute) and m.attr in names and not
                             (isinstance(m.value, ast.Name) and m.value.id == "self" and m.attr in ("ngram", "alphabet"))):
                        raise TranslateError("%s:%d: %s is rebound" % (path, n.lineno, ast.unparse(t)))
        if isinstance(n, ast.Name) and n.id in ("setattr", "delattr", "__dict__", "globals", "exec", "eval", "vars", "locals"):
            raise TranslateError("%s:%d: %s is used in the module" % (path, n.lineno, n.id))
        if isinstance(n, (ast.Global, ast.Nonlocal)) and set(n.names) & (names | BUILTINS_USED):
            raise TranslateError("%s:%d: global / nonlocal of a translated name" % (path, n.lineno))
        bound = []
        if isinstance(n, (ast.FunctionDef, ast.AsyncFunctionDef, ast.ClassDef)):
            bound = ([n.name] if n.name not in ("_save_config",) else []) + \
                ([a.arg for a in n.args.args + n.args.kwonlyargs + n.args.posonlyargs
                  + [x for x in (n.args.vararg, n.args.kwarg) if x]] if not isinstance(n, ast.ClassDef) else [])
        elif isinstance(n, ast.Name) and isinstance(n.ctx, (ast.Store, ast.Del)):
            bound = [n.id]
        elif isinstance(n, ast.ExceptHandler) and n.name:
            bound = [n.name]
        elif isinstance(n, (ast.Import, ast.ImportFrom)):
            for a in n.names:
                b = a.asname or a.name.split(".")[0]
                if a.name == "*":
                    raise TranslateError("%s:%d: `import *` may rebind a name the translation interprets" % (path, n.lineno))
                if isinstance(n, ast.Import) and a.asname is None and a.name in ("math", "os", "codecs", "configparser"):
                    continue
                if isinstance(n, ast.ImportFrom) and a.asname is None and (n.module, n.level, a.name) in (
                        ("collections", 0, "Counter"), ("trainer_file_output", 2, "make_sure_path_exists")):
                    continue
                if isinstance(n, ast.ImportFrom) and a.asname is None:
                    imports[a.name] = (n.module, n.level)
                bound.append(b)
        for b in bound:
            if b in BUILTINS_USED:
                raise TranslateError("%s:%d: %s is rebound in the module" % (path, n.lineno, b))
    return imports


def render(out, repo=None):
    """-> text of the generated file `out` (one of OUTS) for the sources of the current working tree"""
    repo = repo or common.REPO
    specs = [s for s in SPECS if s["out"] == out]
    trees, imports = {}, {}
    for rel in sorted({s["src"] for s in specs}):
        trees[rel] = _parse(repo, rel)
        imports[rel] = _check_module(trees[rel][0], trees[rel][1], {s["py"] for s in SPECS if s["src"] == rel and not s.get("init")})
    parts, done = [], {}
    for spec in specs:
        path, tree = trees[spec["src"]]
        scope = tree.body
        if spec["cls"]:
            classes = [n for n in ast.walk(tree) if isinstance(n, ast.ClassDef) and n.name == spec["cls"]]
            if len(classes) != 1 or classes[0] not in tree.body or classes[0].bases or classes[0].decorator_list \
                    or classes[0].keywords:
                raise TranslateError("%s: class %s not found exactly once as a plain top-level class" % (path, spec["cls"]))
            scope = classes[0].body
        alld = [n for n in ast.walk(tree) if isinstance(n, (ast.FunctionDef, ast.AsyncFunctionDef, ast.ClassDef))
                and n.name == spec["py"]]
        defs = [n for n in scope if isinstance(n, ast.FunctionDef) and n.name == spec["py"]]
        if len(defs) != 1 or len(alld) != 1:
            raise TranslateError("%s: %s not defined exactly once" % (path, spec["py"]))
        text, _sha = FunctionTranslator(path, defs[0], spec, done, imports[spec["src"]]).translate()
        parts.append(text)
        done[(spec["cls"], spec["py"])] = spec
    head = (
        "(* GENERATED by harness/translate_omen_trainer.py from the Python source of the current\n"
        "   working tree (%s) on every run of a check.  Do not edit.\n"
        "   Each definition is the line-by-line image of one Python function in the subset\n"
        "   documented in the translator; the numbers in the comments are source lines.\n"
        "   theories/OmenTrainerGenProofs*.v prove these definitions equal to the hand-written\n"
        "   models of theories/OmenTrainer.v. *)\n"
        "From Coq Require Import List Arith Bool NArith ZArith Floats.\n"
        "From Pcfg Require Import KernelRt OmenSpec OmenTrainer OmenTrainerRt.\n"
        "Import ListNotations.\n\n" % (", ".join("%s: %s" % (s["src"], s["py"]) for s in specs)))
    return head + "\n".join(parts)


def failure_text(err):
    return ("(* GENERATED by harness/translate_omen_trainer.py.  The translation of the current sources FAILED:\n"
            "   %s\n   The line below does not type-check on purpose. *)\n"
            "Definition omen_trainer_translation_failed : False := I.\n" % _comment(str(err)))


def write(repo=None):
    """write every generated file; a group that cannot be translated gets the failure text, the
    others are still written; the first error is raised at the end"""
    import extract_consts as X
    changed, first = False, None
    for out in OUTS:
        path = os.path.join(common.COQ, out)
        try:
            text = render(out, repo)
        except Exception as e:
            changed |= bool(X.write(path, failure_text("%s: %s" % (type(e).__name__, e))))
            first = first or e
            continue
        changed |= bool(X.write(path, text))
    if first is not None:
        raise first
    return changed


if __name__ == "__main__":
    if "--write" in sys.argv[1:]:
        print("written" if write() else "unchanged", [os.path.join(common.COQ, o) for o in OUTS])
    else:
        for o in OUTS:
            if len(sys.argv) > 1 and sys.argv[1] not in o:
                continue
            sys.stdout.write(render(o) + "\n")
