#!/venv/bin/python
"""Fail-closed translator of the training-file reader from Python to Gallina.

    /venv/bin/python harness/translate_reader.py            print the generated text
    /venv/bin/python harness/translate_reader.py --write    write coq/gen/Reader_gen.v

Source: lib_trainer/trainer_file_input.py
    check_valid                        -> py_check_valid   (pure)
    TrainerFileInput.__init__          -> py_init          (builds the object record)
    TrainerFileInput.read_password     -> py_read_password (state-and-exception monad)
Output: coq/gen/Reader_gen.v over the runtime coq/theories/ReaderRt.v;
coq/theories/ReaderGenProofs.v proves the generated definitions equal to the
hand-written model coq/theories/Reader.v (properties C19, C07).

The source is only parsed (`ast`), never imported or executed.  Comments,
docstrings, blank lines and formatting do not reach the output (except the source
line numbers in the comments of the generated text); local variable names are
carried over and the proofs do not depend on them.  Anything outside the subset
below raises TranslateError with file:line, and the generated file is then
replaced by one that does not compile.

Reading given to the Python (see ReaderRt.v for every operation):

  values      str = list of code points; int = Z; bool; list of str; bytes = list
              of byte values; the codec named by self.encoding = the oracle record
              ReaderRt.codec; a caught exception; the dict self.duplicate_detection
              = association list in insertion order.  Every variable has one type.
  locals      all locals of read_password travel as one tuple (the frame), in
              the order of their first assignment in the text; a read of a local
              that is not assigned on every path to it is refused (Python would
              raise UnboundLocalError), so the initial values of the frame are
              never seen.  Handler variables (`except E as v`) live in the handler.
  self.x      the attributes __init__ assigns (ATTRS below), read with getf and
              written with modf; anything else on self is refused.
  statements  docstring; pass; print(...) (dropped: no effect on what is yielded or
              counted; its arguments may only be names, constants, str(..) and +);
              x = e; x += e; self.a = e; self.a += e; self.d[k] = e;
              self.d.clear(); self.file.close(); s.encode(self.encoding) as a
              statement; yield e (as a statement); if / elif / else;
              while c: (fuel, see ReaderRt.rwhile); for v in range(a, b):;
              try: ... except Cls [as v]: ... (one handler, no else / finally;
              Cls one of UnicodeError, UnicodeDecodeError, UnicodeEncodeError,
              ValueError, IndexError, LookupError, IOError, OSError, Exception, or a
              bare except); continue; break; return / return None; a bare `raise`
              inside a handler.  Code after continue / break / return / raise in the
              same block is refused.
  expressions names; str / int / bool constants; self.a; v.reason on a caught
              exception; len(e); int(e) (ValueError); check_valid(e) (the function
              translated above); bytes.fromhex(e) (ValueError); e.decode(codec)
              on bytes (UnicodeDecodeError); self.file.readline()
              (UnicodeDecodeError when the oracle says so); e.rstrip('chars');
              e.lstrip(); e.split('c') and 'c'.join(e) for a one-character
              constant; e.startswith(const); e.endswith(const); e[i] on a string
              (one-character string) or a list (IndexError), e[a:b] with constant
              int bounds; + on ints and on strings, - on ints; == != on values of
              one type, < <= > >= on ints; `a in b` / `a not in b` on strings
              (substring test) and `k in self.d`; not / and / or with Python's
              short circuit (truth value of a string, list, dict: non-empty; of an
              int: non-zero).  Sub-expressions that can raise or read the object
              are bound first, in Python's evaluation order (tmpN <- ... ;;).
  check_valid only `if c: return <bool>` (with elif / else), `for v in range(a, b):`
              / `for v in '<chars>':` over constants with such statements inside,
              and a final `return <bool>`; conditions built from len(x) == 0,
              not x, 'c' in x, chr(v) in x, v in x, not / and / or, and
              any(<condition> for v in <constant range / string / list>) /
              all(...) (existsb / forallb: the condition has no side effect, so
              Python's laziness is not observable).  chr(v) is accepted for the
              variable of a constant range inside 0..0x10FFFF.
              check_valid_constants() derives, by walking the same ast (PureEval,
              nothing is executed), the code points this function rejects; the
              constants plugin harness/consts/trainer_io.py falls back to it when
              its own shape matcher does not know the way the tests are written.
  names       a local called `_` is written u_ in the generated text; a name that would capture a
              name of the runtime (exc, res, ret, ...) gets the suffix _v.
  __init__    a sequence of `self.a = e` with e a parameter, a constant (int,
              bool, {}), self.b, or exactly
              codecs.open(self.filename, 'r', encoding=self.encoding,
              errors='surrogateescape') - the open file is the oracle list of what
              readline() returns.  Every attribute of ATTRS must be assigned.

What the translation does NOT model: the default values of parameters (callers
pass every argument); a non-bool prefixcount; what codecs.open / readline do on
the bytes of the file (the file object is the list of lines it returns, decoding
errors included; the correspondence of C19 ties that list to
str.splitlines(keepends) of the decoded stream); print; file.close(); exceptions
other than the listed ones (MemoryError, KeyboardInterrupt, ...); a consumer that
abandons the generator early; rebinding of the translated names from another
module (a rebinding inside this module is refused).
"""
import ast
import hashlib
import os
import re
import sys

HERE = os.path.dirname(os.path.abspath(__file__))
if HERE not in sys.path:
    sys.path.insert(0, HERE)
import common  # noqa: E402
from translate_kernel import TranslateError, _paren, _close, _comment  # noqa: E402

SOURCE = os.path.join("lib_trainer", "trainer_file_input.py")
OUT = os.path.join("gen", "Reader_gen.v")
CLASS = "TrainerFileInput"

STR, INT, BOOL, STRS, BYTES, CODEC, EXN, DICT, FILE, NONE = "str", "Z", "bool", "list str", "list N", "codec", "exn", "dict", "file", "None"

ATTRS = {"encoding": CODEC, "filename": STR, "file": FILE, "num_encoding_errors": INT, "num_passwords": INT,
         "duplicates_found": BOOL, "duplicate_detection": DICT, "num_to_look_for_duplicates": INT, "prefixcount": BOOL}

DEFAULT = {STR: "(@nil N)", INT: "0%Z", BOOL: "false", STRS: "(@nil str)", BYTES: "(@nil N)"}

ECLASS = {"UnicodeError": "CUnicodeError", "UnicodeDecodeError": "CUnicodeDecodeError",
          "UnicodeEncodeError": "CUnicodeEncodeError", "ValueError": "CValueError", "IndexError": "CIndexError",
          "LookupError": "CLookupError", "IOError": "CIOError", "OSError": "CIOError", "Exception": "CException"}

BUILTINS_USED = {"len", "int", "chr", "range", "bytes", "print", "str", "codecs", "check_valid", "True", "False", "None"} | set(ECLASS)

RESERVED = set("""E fuel self opened tt true false fst snd length nth seq nil cons list nat bool unit N Z O S pred fun let in if
then else match with end forall exists Type Prop Set as at return fix cofix struct where Definition Fixpoint Section End Some
None option hd tl last concat skipn firstn map rev app negb andb orb str char memN str_eqb lstrip rstrip split_on join
starts_with ends_with parse_int dict_set dict_get fromhex pyenv codec rline RLine RErr exn exc Val Exn robj obj_new res Ok Raise
M ret raise bind lift getf modf try_catch ctl Normal Continue Break Return on_normal fn_end rwhile rfor pfor zlen zrange
slice_bound pyslice pyindex pystr_index py_chr substr nonempty py_rstrip_chars py_lstrip py_split_char py_join_char
py_startswith py_endswith py_int py_fromhex py_decode py_encode_check dict_mem file_readline file_close yield_ run_reader
exn_is exn_reason codec_none codecs_open_r_surrogateescape out npw nerr rout""".split())


def collides(name):
    """would this source name capture a name of the runtime / of the generated code?"""
    return name in RESERVED or bool(re.match(r"^(tmp|r|it|exn)\d+$", name)) or name.startswith(("py_", "o_", "set_")) \
        or name == "u_"


def vname(n):
    """the Gallina name of a Python variable: itself, except `_` (not a usable binder: u_) and names that
    would capture a name of the runtime (suffix _v; a source name that already has this form is refused)"""
    if n == "_":
        return "u_"
    return n + "_v" if collides(n) else n


def cstr(s):
    if not s:
        return "(@nil N)"
    return "[" + "; ".join("%d" % ord(c) for c in s) + "]%N"


def cint(v):
    return "(%d)%%Z" % v


class Env:
    def __init__(self):
        self.assigned = set()      # locals assigned on every path to here
        self.scoped = {}           # handler variables / parameters in scope: name -> type

    def copy(self):
        e = Env()
        e.assigned = set(self.assigned)
        e.scoped = dict(self.scoped)
        return e


def join_env(a, b):
    """the environment after two alternatives (None = that alternative never falls through)"""
    if a is None:
        return b
    if b is None:
        return a
    e = a.copy()
    e.assigned = a.assigned & b.assigned
    return e


class Base:
    def __init__(self, path, fn, owner):
        self.path, self.fn, self.owner = path, fn, owner
        self.uid = 0

    def fail(self, node, msg):
        raise TranslateError("%s:%d: %s%s: %s  [%s]" % (
            self.path, getattr(node, "lineno", self.fn.lineno), self.owner, self.fn.name, msg,
            _comment(ast.unparse(node)).split("\n")[0][:100]))

    def check_name(self, node, name):
        if name == "_":
            return
        if not name.isidentifier() or not name.isascii():
            self.fail(node, "the variable name %r cannot be written in Gallina" % name)
        if name.endswith("_v") and collides(name[:-2]):
            self.fail(node, "the variable name %r collides with the renaming of %r" % (name, name[:-2]))

    def gensym(self, base):
        self.uid += 1
        return "%s%d" % (base, self.uid)

    def note(self, s):
        return "(* %d: %s *)" % (s.lineno, _comment(ast.unparse(s).split("\n")[0]))

    def line(self, ind, text, s=None):
        pad = "  " * ind
        if s is None:
            return pad + text + "\n"
        first = pad + text
        return first + " " * max(2, 70 - len(first)) + self.note(s) + "\n"

    def sha(self):
        return hashlib.sha256(ast.dump(self.fn).encode("utf-8")).hexdigest()

    def header(self):
        return "(* %s  %sdef %s  lines %d-%d\n   sha256 of ast.dump: %s *)\n" % (
            SOURCE, self.owner, self.fn.name, self.fn.lineno, self.fn.end_lineno, self.sha())

    @staticmethod
    def is_docstring(s):
        return isinstance(s, ast.Expr) and isinstance(s.value, ast.Constant) and isinstance(s.value.value, str)

    def check_signature(self, want, defaults_ok=False):
        a = self.fn.args
        if self.fn.decorator_list or a.vararg or a.kwarg or a.kwonlyargs or a.posonlyargs or a.kw_defaults:
            self.fail(self.fn, "unsupported signature")
        if a.defaults and not defaults_ok:
            self.fail(self.fn, "default values are not supported here")
        for d in a.defaults:
            if not isinstance(d, ast.Constant):
                self.fail(d, "a default value that is not a constant")
        names = [x.arg for x in a.args]
        if len(names) != len(want):
            self.fail(self.fn, "%d parameters, the translator knows %d" % (len(names), len(want)))
        if any(x.annotation is not None for x in a.args) or self.fn.returns is not None:
            self.fail(self.fn, "annotations are not supported")
        for n in names:
            if n != "self":
                self.check_name(self.fn, n)
        return names


# ---------------------------------------------------------------------- check_valid

class PureFn(Base):
    """check_valid: a pure function str -> bool"""

    def translate(self):
        (self.pw,) = self.check_signature(["input_password"])
        self.vars = {}     # loop variable -> ("int", lo, hi) | ("char",)
        body = [s for s in self.fn.body if not self.is_docstring(s)]
        text = self.pblock(body, "top", 1)
        out = self.header()
        out += "Definition py_check_valid (%s : str) : bool :=\n" % vname(self.pw)
        out += _close(text, ".")
        return out

    def const_bool(self, s):
        if not (isinstance(s, ast.Return) and isinstance(s.value, ast.Constant) and type(s.value.value) is bool):
            self.fail(s, "only `return True` / `return False` are supported")
        return "true" if s.value.value else "false"

    def pblock(self, stmts, mode, ind):
        """-> text of a term of type bool (mode top) or option bool (mode loop)"""
        stmts = [s for s in stmts if not isinstance(s, ast.Pass)]
        if not stmts:
            if mode == "top":
                self.fail(self.fn, "the function can end without a return")
            return self.line(ind, "None")
        s, rest = stmts[0], stmts[1:]
        if isinstance(s, ast.Return):
            if rest:
                self.fail(rest[0], "unreachable code")
            v = self.const_bool(s)
            return self.line(ind, v if mode == "top" else "Some %s" % v, s)
        if isinstance(s, ast.If):
            c = self.pcond(s.test)
            if self.always_returns(s.body) and (not s.orelse or self.always_returns(s.orelse)) and (rest or s.orelse):
                # if c: return ..   [else: return ..]   rest
                out = self.line(ind, "if %s then" % c, s)
                out += self.pblock(s.body, mode, ind + 1)
                out += self.line(ind, "else")
                if s.orelse:
                    if rest:
                        self.fail(rest[0], "unreachable code")
                    return out + self.pblock(s.orelse, mode, ind)
                return out + self.pblock(rest, mode, ind)
            if self.always_returns(s.body) and not s.orelse and not rest and mode == "loop":
                out = self.line(ind, "if %s then" % c, s)
                out += self.pblock(s.body, mode, ind + 1)
                out += self.line(ind, "else")
                return out + self.line(ind, "None")
            self.fail(s, "a conditional whose branches do not all return")
        if isinstance(s, ast.For):
            if mode != "top":
                self.fail(s, "nested loops are not supported")
            if s.orelse or not isinstance(s.target, ast.Name):
                self.fail(s, "unsupported loop")
            v = s.target.id
            self.check_name(s, v)
            if v in self.vars or v == self.pw:
                self.fail(s, "the loop variable %r is reused" % v)
            seq, kind = self.const_seq(s, s.iter, v)
            self.vars[v] = kind
            out = self.line(ind, "pfor %s (fun %s =>" % (seq, vname(v)), s)
            out += _close(self.pblock(s.body, "loop", ind + 1), ") (")
            del self.vars[v]
            out += _close(self.pblock(rest, mode, ind), ")")
            return out
        if self.is_docstring(s):
            return self.pblock(rest, mode, ind)
        self.fail(s, "unsupported statement")

    def always_returns(self, stmts):
        stmts = [s for s in stmts if not isinstance(s, ast.Pass) and not self.is_docstring(s)]
        if not stmts:
            return False
        s = stmts[-1]
        if isinstance(s, ast.Return):
            return True
        if isinstance(s, ast.If) and s.orelse:
            return self.always_returns(s.body) and self.always_returns(s.orelse)
        return False

    def pstr(self, e):
        """a string-valued expression"""
        if isinstance(e, ast.Name) and e.id == self.pw:
            return vname(e.id)
        if isinstance(e, ast.Name) and self.vars.get(e.id, (None,))[0] == "char":
            return vname(e.id)
        if isinstance(e, ast.Constant) and isinstance(e.value, str):
            return cstr(e.value)
        if isinstance(e, ast.Call) and isinstance(e.func, ast.Name) and e.func.id == "chr" and len(e.args) == 1 and not e.keywords \
                and isinstance(e.args[0], ast.Name) and self.vars.get(e.args[0].id, (None,))[0] == "int":
            return "(py_chr %s)" % vname(e.args[0].id)
        self.fail(e, "unsupported string expression")

    def const_seq(self, node, it, v):
        """a constant iterable -> (Gallina list text, kind of its items)"""
        if isinstance(it, ast.Call) and isinstance(it.func, ast.Name) and it.func.id == "range" and not it.keywords \
                and 1 <= len(it.args) <= 2 and all(isinstance(a, ast.Constant) and type(a.value) is int for a in it.args):
            lo, hi = (0, it.args[0].value) if len(it.args) == 1 else (it.args[0].value, it.args[1].value)
            if not (0 <= lo and hi <= 0x110000 and hi - lo <= 4096):
                self.fail(node, "range outside 0..0x110000 or longer than 4096")
            return "(zrange %s %s)" % (cint(lo), cint(hi)), ("int", lo, hi)
        if isinstance(it, ast.Constant) and isinstance(it.value, str):
            return ("[" + "; ".join(cstr(ch) for ch in it.value) + "]" if it.value else "(@nil str)"), ("char",)
        if isinstance(it, (ast.List, ast.Tuple, ast.Set)) and all(isinstance(e, ast.Constant) and isinstance(e.value, str) for e in it.elts):
            return ("[" + "; ".join(cstr(e.value) for e in it.elts) + "]" if it.elts else "(@nil str)"), ("char",)
        self.fail(node, "an iteration over something else than a constant range / string / list of strings")

    def pcond(self, e):
        # any(<condition> for v in <constant iterable>) / all(...): the condition has no side effect
        if isinstance(e, ast.Call) and isinstance(e.func, ast.Name) and e.func.id in ("any", "all") and len(e.args) == 1 \
                and not e.keywords and isinstance(e.args[0], (ast.GeneratorExp, ast.ListComp)):
            g = e.args[0]
            if len(g.generators) != 1 or g.generators[0].ifs or g.generators[0].is_async \
                    or not isinstance(g.generators[0].target, ast.Name):
                self.fail(e, "unsupported generator expression")
            v = g.generators[0].target.id
            self.check_name(e, v)
            if v in self.vars or v == self.pw:
                self.fail(e, "the generator variable %r is reused" % v)
            seq, kind = self.const_seq(e, g.generators[0].iter, v)
            self.vars[v] = kind
            body = self.pcond(g.elt)
            del self.vars[v]
            return "%s (fun %s => %s) %s" % ("existsb" if e.func.id == "any" else "forallb", vname(v), body, seq)
        if isinstance(e, ast.UnaryOp) and isinstance(e.op, ast.Not):
            if isinstance(e.operand, ast.Name) and e.operand.id == self.pw:
                return "negb (nonempty %s)" % vname(self.pw)
            return "negb %s" % _paren(self.pcond(e.operand))
        if isinstance(e, ast.BoolOp):
            op = " && " if isinstance(e.op, ast.And) else " || "
            return op.join(_paren(self.pcond(v)) for v in e.values)
        if isinstance(e, ast.Name) and e.id == self.pw:
            return "nonempty %s" % vname(self.pw)
        if isinstance(e, ast.Compare) and len(e.ops) == 1:
            op, l, r = e.ops[0], e.left, e.comparators[0]
            if isinstance(op, (ast.In, ast.NotIn)):
                t = "substr %s %s" % (_paren(self.pstr(l)), _paren(self.pstr(r)))
                return t if isinstance(op, ast.In) else "negb (%s)" % t
            if isinstance(op, (ast.Eq, ast.NotEq, ast.Lt, ast.LtE, ast.Gt, ast.GtE)):
                a, b = self.pint(l), self.pint(r)
                t = {ast.Eq: "Z.eqb %s %s" % (a, b), ast.NotEq: "negb (Z.eqb %s %s)" % (a, b),
                     ast.Lt: "Z.ltb %s %s" % (a, b), ast.LtE: "Z.leb %s %s" % (a, b),
                     ast.Gt: "Z.ltb %s %s" % (b, a), ast.GtE: "Z.leb %s %s" % (b, a)}[type(op)]
                return t
        self.fail(e, "unsupported condition")

    def pint(self, e):
        if isinstance(e, ast.Constant) and type(e.value) is int and abs(e.value) < 10 ** 9:
            return cint(e.value)
        if isinstance(e, ast.Call) and isinstance(e.func, ast.Name) and e.func.id == "len" and len(e.args) == 1 and not e.keywords:
            return "(zlen %s)" % _paren(self.pstr(e.args[0]))
        self.fail(e, "unsupported int expression")


class PureEval:
    """Evaluates check_valid, as read by PureFn (which must have accepted it), on one string, by walking the
    ast - nothing of the source is executed.  Used to derive the data constants `check_valid_rejected` /
    `check_valid_rejects_empty` when the older shape matcher of harness/consts/trainer_io.py does not know
    the way the tests are written; ReaderGenProofs.py_check_valid_is_model proves, for every password, that
    the translated function is the model's check_valid on exactly these constants, so a wrong derivation
    cannot go unnoticed."""

    class _Ret(Exception):
        def __init__(self, v):
            self.v = v

    def __init__(self, fn):
        self.fn = fn
        self.pw = fn.args.args[0].arg

    def chars(self):
        """every code point the function mentions (a superset of those its tests mention: the characters of
        the docstring are harmless extra candidates)"""
        out = set()
        for n in ast.walk(self.fn):
            if isinstance(n, ast.Constant) and isinstance(n.value, str):
                out.update(ord(c) for c in n.value)
            if isinstance(n, ast.Call) and isinstance(n.func, ast.Name) and n.func.id == "range" \
                    and all(isinstance(a, ast.Constant) and type(a.value) is int for a in n.args):
                out.update(range(*[a.value for a in n.args]))
        return sorted(c for c in out if 0 <= c < 0x110000), None

    def call(self, w):
        env = {self.pw: w}
        try:
            self.block(self.fn.body, env)
        except PureEval._Ret as r:
            return r.v
        raise TranslateError("check_valid: no return")

    def block(self, stmts, env):
        for s in stmts:
            if PureFn.is_docstring(s) or isinstance(s, ast.Pass):
                continue
            if isinstance(s, ast.Return):
                raise PureEval._Ret(s.value.value)
            if isinstance(s, ast.If):
                self.block(s.body if self.cond(s.test, env) else s.orelse, env)
            elif isinstance(s, ast.For):
                for v in self.seq(s.iter):
                    env[s.target.id] = v
                    self.block(s.body, env)
                env.pop(s.target.id, None)
            else:
                raise TranslateError("check_valid: statement not evaluated")

    def seq(self, it):
        if isinstance(it, ast.Call):
            return list(range(*[a.value for a in it.args]))
        if isinstance(it, ast.Constant):
            return list(it.value)
        return [e.value for e in it.elts]

    def val(self, e, env):
        if isinstance(e, ast.Name):
            return env[e.id]
        if isinstance(e, ast.Constant):
            return e.value
        if isinstance(e, ast.Call) and e.func.id == "chr":
            return chr(self.val(e.args[0], env))
        if isinstance(e, ast.Call) and e.func.id == "len":
            return len(self.val(e.args[0], env))
        raise TranslateError("check_valid: expression not evaluated")

    def cond(self, e, env):
        if isinstance(e, ast.Call) and isinstance(e.func, ast.Name) and e.func.id in ("any", "all"):
            g = e.args[0]
            res = []
            for v in self.seq(g.generators[0].iter):
                env2 = dict(env)
                env2[g.generators[0].target.id] = v
                res.append(self.cond(g.elt, env2))
            return any(res) if e.func.id == "any" else all(res)
        if isinstance(e, ast.UnaryOp):
            return not self.cond(e.operand, env)
        if isinstance(e, ast.BoolOp):
            vals = [self.cond(v, env) for v in e.values]
            return all(vals) if isinstance(e.op, ast.And) else any(vals)
        if isinstance(e, ast.Name):
            return bool(env[e.id])
        if isinstance(e, ast.Compare):
            a, b = self.val(e.left, env), self.val(e.comparators[0], env)
            op = type(e.ops[0])
            return {ast.In: lambda: a in b, ast.NotIn: lambda: a not in b, ast.Eq: lambda: a == b, ast.NotEq: lambda: a != b,
                    ast.Lt: lambda: a < b, ast.LtE: lambda: a <= b, ast.Gt: lambda: a > b, ast.GtE: lambda: a >= b}[op]()
        raise TranslateError("check_valid: condition not evaluated")


def check_valid_constants(repo=None):
    """-> (sorted code points check_valid rejects, rejects the empty password), derived from the ast of
    check_valid in the subset PureFn accepts (raises TranslateError outside it)"""
    repo = repo or common.REPO
    path = os.path.join(repo, SOURCE)
    with open(path, encoding="utf-8", newline="") as f:
        tree = ast.parse(f.read(), filename=path)
    funcs = [n for n in tree.body if isinstance(n, ast.FunctionDef) and n.name == "check_valid"]
    if len(funcs) != 1:
        raise TranslateError("%s: check_valid not found exactly once at module level" % path)
    PureFn(path, funcs[0], "").translate()          # refuses anything outside the subset
    ev = PureEval(funcs[0])
    cands, _ = ev.chars()
    rejected = [c for c in cands if ev.call(chr(c)) is False]
    return rejected, ev.call("") is False


# ---------------------------------------------------------------------- __init__

class InitFn(Base):
    def translate(self):
        names = self.check_signature(["self", "filename", "encoding", "prefixcount"], defaults_ok=True)
        if names[0] != "self":
            self.fail(self.fn, "first parameter is not self")
        self.params = dict(zip(names[1:], [STR, CODEC, BOOL]))
        out = self.header()
        out += "Definition py_init (%s : str) (%s : codec) (%s : bool) (opened : list rline) : robj :=\n" % tuple(
            vname(n) for n in names[1:])
        out += self.line(1, "let self := obj_new in")
        assigned = []
        for s in self.fn.body:
            if self.is_docstring(s) or isinstance(s, ast.Pass):
                continue
            if not (isinstance(s, ast.Assign) and len(s.targets) == 1 and isinstance(s.targets[0], ast.Attribute)
                    and isinstance(s.targets[0].value, ast.Name) and s.targets[0].value.id == "self"):
                self.fail(s, "only `self.attribute = value` is supported in __init__")
            attr = s.targets[0].attr
            if attr not in ATTRS:
                self.fail(s, "unknown attribute %r" % attr)
            t, ty = self.value(s.value, assigned)
            if ty != ATTRS[attr]:
                self.fail(s, "self.%s is a %s, the value is a %s" % (attr, ATTRS[attr], ty))
            out += self.line(1, "let self := set_%s %s self in" % (attr, _paren(t)), s)
            assigned.append(attr)
        missing = [a for a in ATTRS if a not in assigned]
        if missing:
            self.fail(self.fn, "attributes never assigned: %s" % ", ".join(missing))
        out += self.line(1, "self.")
        return out

    def selfattr(self, e, assigned):
        if isinstance(e, ast.Attribute) and isinstance(e.value, ast.Name) and e.value.id == "self":
            if e.attr not in ATTRS or e.attr not in assigned:
                self.fail(e, "self.%s is read before it is assigned" % e.attr)
            return "(o_%s self)" % e.attr, ATTRS[e.attr]
        return None

    def value(self, e, assigned):
        if isinstance(e, ast.Name) and e.id in self.params:
            return vname(e.id), self.params[e.id]
        sa = self.selfattr(e, assigned)
        if sa:
            return sa
        if isinstance(e, ast.Constant):
            if type(e.value) is bool:
                return ("true" if e.value else "false"), BOOL
            if type(e.value) is int and abs(e.value) < 10 ** 12:
                return cint(e.value), INT
        if isinstance(e, ast.Dict) and not e.keys:
            return "(@nil (str * Z))", DICT
        if isinstance(e, ast.Call) and isinstance(e.func, ast.Attribute) and e.func.attr == "open" \
                and isinstance(e.func.value, ast.Name) and e.func.value.id == "codecs":
            kw = {k.arg: k.value for k in e.keywords}
            if len(e.args) != 2 or set(kw) != {"encoding", "errors"}:
                self.fail(e, "codecs.open: expected (name, 'r', encoding=.., errors=..)")
            name = self.selfattr(e.args[0], assigned)
            enc = self.selfattr(kw["encoding"], assigned)
            if not name or name[1] != STR or not enc or enc[1] != CODEC:
                self.fail(e, "codecs.open: the name / encoding is not an attribute of self")
            if not (isinstance(e.args[1], ast.Constant) and e.args[1].value == "r"):
                self.fail(e, "codecs.open: mode is not 'r'")
            if not (isinstance(kw["errors"], ast.Constant) and kw["errors"].value == "surrogateescape"):
                self.fail(e, "codecs.open: errors is not 'surrogateescape'")
            return "codecs_open_r_surrogateescape %s %s opened" % (name[0], enc[0]), FILE
        self.fail(e, "unsupported value")


# ---------------------------------------------------------------------- read_password

class GenFn(Base):
    """read_password: statements in the monad M, locals in one frame"""

    def translate(self):
        names = self.check_signature(["self"])
        if names != ["self"]:
            self.fail(self.fn, "the only parameter must be self")
        self.pre = []               # binds of the statement under translation
        self.types = {}             # local -> type
        self.frame = self.collect_locals()
        for n in self.frame:
            self.check_name(self.fn, n)
        if not any(isinstance(n, ast.Yield) for n in ast.walk(self.fn)):
            self.fail(self.fn, "not a generator")
        env = Env()
        body, _ = self.block(list(self.fn.body), env, 2)
        untyped = [n for n in self.frame if n not in self.types]
        if untyped:
            self.fail(self.fn, "no type for %s" % untyped)
        out = self.header()
        out += "Definition py_read_password (E : pyenv) (fuel : nat) : M unit :=\n"
        out += self.line(1, "(* locals not yet assigned (never read: checked by the translator) *)")
        for n in self.frame:
            out += self.line(1, "let %s := %s in" % (vname(n), DEFAULT[self.types[n]]))
        out += self.line(1, "r0 <- (")
        out += _close(body, ") ;;")
        out += self.line(1, "fn_end r0.")
        return out

    def collect_locals(self):
        found = []

        def add(t):
            if isinstance(t, ast.Name):
                if t.id not in found:
                    found.append(t.id)
            elif isinstance(t, (ast.Tuple, ast.List, ast.Starred)):
                self.fail(t, "unpacking is not supported")

        class V(ast.NodeVisitor):
            def visit_Assign(v, n):
                for t in n.targets:
                    add(t)
                v.generic_visit(n)

            def visit_AugAssign(v, n):
                add(n.target)
                v.generic_visit(n)

            def visit_AnnAssign(v, n):
                self.fail(n, "annotated assignment")

            def visit_For(v, n):
                add(n.target)
                v.generic_visit(n)

            def visit_NamedExpr(v, n):
                self.fail(n, "assignment expression")

            def visit_FunctionDef(v, n):
                if n is not self.fn:
                    self.fail(n, "nested function")
                v.generic_visit(n)

            def visit_Lambda(v, n):
                self.fail(n, "lambda")

            def visit_With(v, n):
                self.fail(n, "with statement")

            def visit_Global(v, n):
                self.fail(n, "global statement")

            def visit_Nonlocal(v, n):
                self.fail(n, "nonlocal statement")

            def visit_Delete(v, n):
                self.fail(n, "del statement")

            def visit_ListComp(v, n):
                self.fail(n, "comprehension")
            visit_SetComp = visit_DictComp = visit_GeneratorExp = visit_ListComp

        V().visit(self.fn)
        handler_names = {h.name for h in ast.walk(self.fn) if isinstance(h, ast.ExceptHandler) and h.name}
        clash = handler_names & set(found)
        if clash:
            self.fail(self.fn, "%s is both a local and an exception variable" % sorted(clash))
        if not found:
            self.fail(self.fn, "no local variables")
        return found

    # ------------------------------------------------------------------ frame text
    def ftuple(self):
        names = [vname(n) for n in self.frame]
        return "(" + ", ".join(names) + ")" if len(names) > 1 else names[0]

    def fbinder(self):
        return "'" + self.ftuple() if len(self.frame) > 1 else vname(self.frame[0])

    # ------------------------------------------------------------------ statements
    def trivial(self, s):
        if self.is_docstring(s) or isinstance(s, ast.Pass):
            return True
        if isinstance(s, ast.Expr) and isinstance(s.value, ast.Call) and isinstance(s.value.func, ast.Name) \
                and s.value.func.id == "print":
            self.check_print(s.value)
            return True
        return False

    def check_print(self, call):
        for a in list(call.args) + [k.value for k in call.keywords]:
            for n in ast.walk(a):
                if isinstance(n, ast.Call):
                    if not (isinstance(n.func, ast.Name) and n.func.id == "str"):
                        self.fail(call, "print of a call (only names, constants, str(..) and + are accepted)")
                elif not isinstance(n, (ast.Name, ast.Constant, ast.BinOp, ast.Add, ast.Load, ast.Attribute, ast.JoinedStr,
                                        ast.FormattedValue)):
                    self.fail(call, "print of an unsupported expression")

    def flush(self, ind):
        out = "".join(self.line(ind, p) for p in self.pre)
        self.pre = []
        return out

    def block(self, stmts, env, ind):
        """-> (text of a term of type M (ctl frame unit), environment after or None)"""
        out = ""
        env = env.copy()
        k = 0
        while k < len(stmts):
            s = stmts[k]
            rest = stmts[k + 1:]
            k += 1
            if self.trivial(s):
                continue
            if isinstance(s, (ast.Continue, ast.Break, ast.Return, ast.Raise)):
                if any(not self.trivial(x) for x in rest):
                    self.fail(rest[0], "unreachable code")
                out += self.leave(s, env, ind)
                return out, None
            if isinstance(s, (ast.If, ast.While, ast.For, ast.Try)):
                live_rest = [x for x in rest if not self.trivial(x)]
                text, after = self.compound(s, env, ind + 1 if live_rest else ind)
                if not live_rest:
                    return out + text, after
                if after is None:
                    self.fail(live_rest[0], "unreachable code")
                r = self.gensym("r")
                out += self.line(ind, "%s <- (" % r)
                out += _close(text, ") ;;")
                out += self.line(ind, "on_normal %s (fun %s =>" % (r, self.fbinder()))
                text2, after2 = self.block(live_rest, after, ind)
                return out + _close(text2, ")"), after2
            out += self.simple(s, env, ind)
        out += self.line(ind, "ret (Normal %s)" % self.ftuple())
        return out, env

    def leave(self, s, env, ind):
        if isinstance(s, ast.Continue):
            if not self.in_loop:
                self.fail(s, "continue outside a loop")
            return self.line(ind, "ret (Continue %s)" % self.ftuple(), s)
        if isinstance(s, ast.Break):
            if not self.in_loop:
                self.fail(s, "break outside a loop")
            return self.line(ind, "ret (Break %s)" % self.ftuple(), s)
        if isinstance(s, ast.Return):
            if s.value is not None and not (isinstance(s.value, ast.Constant) and s.value.value is None):
                self.fail(s, "a generator returning a value")
            return self.line(ind, "ret (Return tt)", s)
        if isinstance(s, ast.Raise):
            if s.exc is not None or s.cause is not None or not self.handler_var:
                self.fail(s, "only a bare `raise` inside a handler is supported")
            return self.line(ind, "raise %s" % vname(self.handler_var[-1]), s)
        self.fail(s, "unsupported statement")

    in_loop = 0
    handler_var = ()

    def compound(self, s, env, ind):
        if isinstance(s, ast.If):
            c = self.cond(s.test, env)
            out = self.flush(ind)
            out += self.line(ind, "if %s then (" % c, s)
            t1, e1 = self.block(s.body, env, ind + 1)
            out += _close(t1, ")")
            out += self.line(ind, "else (")
            t2, e2 = self.block(s.orelse, env, ind + 1)
            out += _close(t2, ")")
            return out, join_env(e1, e2)
        if isinstance(s, ast.While):
            if s.orelse:
                self.fail(s, "while ... else")
            saved = self.pre
            self.pre = []
            c = self.cond(s.test, env)
            out = self.line(ind, "rwhile fuel (fun %s =>" % self.fbinder(), s)
            out += self.flush(ind + 2)
            out += self.line(ind + 2, "ret %s)" % _paren(c))
            self.pre = saved
            out += self.line(ind + 1, "(fun %s =>" % self.fbinder())
            self.in_loop += 1
            t, _ = self.block(s.body, env, ind + 2)
            self.in_loop -= 1
            out += _close(t, ")")
            out += self.line(ind + 1, self.ftuple())
            return out, env.copy()
        if isinstance(s, ast.For):
            if s.orelse or not isinstance(s.target, ast.Name):
                self.fail(s, "unsupported loop")
            it = s.iter
            if not (isinstance(it, ast.Call) and isinstance(it.func, ast.Name) and it.func.id == "range" and not it.keywords
                    and 1 <= len(it.args) <= 2):
                self.fail(s, "only `for v in range(a, b)` is supported")
            args = [self.expr(a, env) for a in it.args]
            if any(ty != INT for _, ty in args):
                self.fail(s, "range of non-ints")
            lo, hi = (cint(0), args[0][0]) if len(args) == 1 else (args[0][0], args[1][0])
            out = self.flush(ind)
            v = s.target.id
            self.settype(s, v, INT)
            item = self.gensym("it")
            out += self.line(ind, "rfor (zrange %s %s) (fun %s %s =>" % (_paren(lo), _paren(hi), item, self.fbinder()), s)
            out += self.line(ind + 1, "let %s := %s in" % (vname(v), item))
            env2 = env.copy()
            env2.assigned.add(v)
            self.in_loop += 1
            t, _ = self.block(s.body, env2, ind + 1)
            self.in_loop -= 1
            out += _close(t, ")")
            out += self.line(ind + 1, self.ftuple())
            return out, env.copy()
        if isinstance(s, ast.Try):
            if s.orelse or s.finalbody or len(s.handlers) != 1:
                self.fail(s, "try with else / finally / several handlers")
            h = s.handlers[0]
            if h.type is None:
                cls = "CAny"
            elif isinstance(h.type, ast.Name) and h.type.id in ECLASS:
                cls = ECLASS[h.type.id]
            else:
                self.fail(h, "unsupported exception class")
            out = self.line(ind, "try_catch (", s)
            t1, e1 = self.block(s.body, env, ind + 1)
            out += _close(t1, ")")
            hv = h.name or self.gensym("exn")
            if h.name:
                self.check_name(h, h.name)
                if h.name in env.scoped:
                    self.fail(h, "the exception variable %r shadows another one" % h.name)
            out += self.line(ind, "%s (fun %s =>" % (cls, vname(hv)), h)
            # what the body assigned before raising is unknown: only what was assigned before the try counts
            env_h = env.copy()
            env_h.scoped[hv] = EXN
            self.handler_var = self.handler_var + (hv,)
            t2, e2 = self.block(h.body, env_h, ind + 1)
            self.handler_var = self.handler_var[:-1]
            out += _close(t2, ")")
            if e2 is not None:
                e2 = e2.copy()
                e2.scoped.pop(hv, None)
            return out, join_env(e1, e2)
        self.fail(s, "unsupported statement")

    def settype(self, node, name, ty):
        if ty not in DEFAULT:
            self.fail(node, "a local variable of type %s" % ty)
        if self.types.setdefault(name, ty) != ty:
            self.fail(node, "%s is a %s and is assigned a %s" % (name, self.types[name], ty))

    def selfattr(self, e):
        if isinstance(e, ast.Attribute) and isinstance(e.value, ast.Name) and e.value.id == "self":
            if e.attr not in ATTRS:
                self.fail(e, "unknown attribute self.%s" % e.attr)
            return e.attr
        return None

    def simple(self, s, env, ind):
        """assignment / expression statement -> lines ending in `in` or `;;`"""
        if isinstance(s, ast.Assign):
            if len(s.targets) != 1:
                self.fail(s, "chained assignment")
            t = s.targets[0]
            if isinstance(t, ast.Name):
                v, ty = self.expr(s.value, env)
                self.settype(s, t.id, ty)
                out = self.flush(ind)
                out = self.mark(out, s) if out else out
                env.assigned.add(t.id)
                return out + self.line(ind, "let %s := %s in" % (vname(t.id), v), None if out else s)
            a = self.selfattr(t)
            if a:
                if a == "file":
                    self.fail(s, "self.file is reassigned")
                v, ty = self.expr(s.value, env)
                if ty != ATTRS[a]:
                    self.fail(s, "self.%s is a %s, the value is a %s" % (a, ATTRS[a], ty))
                out = self.flush(ind)
                out = self.mark(out, s) if out else out
                return out + self.line(ind, "_ <- modf (set_%s %s) ;;" % (a, _paren(v)), None if out else s)
            if isinstance(t, ast.Subscript) and self.selfattr(t.value) and ATTRS[self.selfattr(t.value)] == DICT \
                    and not isinstance(t.slice, ast.Slice):
                a = self.selfattr(t.value)
                # Python evaluates the value, then the container, then the key
                v, ty = self.expr(s.value, env)
                if ty != INT:
                    self.fail(s, "a dict value that is not an int")
                d = self.gensym("tmp")
                self.pre.append("%s <- getf o_%s ;;" % (d, a))
                key, kty = self.expr(t.slice, env)
                if kty != STR:
                    self.fail(s, "a dict key that is not a string")
                out = self.mark(self.flush(ind), s)
                return out + self.line(ind, "_ <- modf (set_%s (dict_set %s %s %s)) ;;" % (a, _paren(key), _paren(v), d))
            self.fail(s, "unsupported assignment target")
        if isinstance(s, ast.AugAssign):
            if not isinstance(s.op, ast.Add):
                self.fail(s, "only += is supported")
            t = s.target
            if isinstance(t, ast.Name):
                cur, cty = self.expr(ast.copy_location(ast.Name(id=t.id, ctx=ast.Load()), t), env)
                v, ty = self.expr(s.value, env)
                new, nty = self.add(s, cur, cty, v, ty)
                self.settype(s, t.id, nty)
                out = self.flush(ind)
                out = self.mark(out, s) if out else out
                return out + self.line(ind, "let %s := %s in" % (vname(t.id), new), None if out else s)
            a = self.selfattr(t)
            if a and a != "file":
                cur = self.gensym("tmp")
                self.pre.append("%s <- getf o_%s ;;" % (cur, a))
                v, ty = self.expr(s.value, env)
                new, nty = self.add(s, cur, ATTRS[a], v, ty)
                if nty != ATTRS[a]:
                    self.fail(s, "self.%s changes type" % a)
                out = self.mark(self.flush(ind), s)
                return out + self.line(ind, "_ <- modf (set_%s %s) ;;" % (a, _paren(new)))
            self.fail(s, "unsupported target of +=")
        if isinstance(s, ast.Expr):
            e = s.value
            if isinstance(e, ast.Yield):
                if e.value is None:
                    self.fail(s, "yield without a value")
                v, ty = self.expr(e.value, env)
                if ty != STR:
                    self.fail(s, "yield of a %s" % ty)
                out = self.flush(ind)
                out = self.mark(out, s) if out else out
                return out + self.line(ind, "_ <- yield_ %s ;;" % _paren(v), None if out else s)
            if isinstance(e, ast.Call) and isinstance(e.func, ast.Attribute) and not e.keywords:
                f = e.func
                if f.attr == "close" and not e.args and self.selfattr(f.value) == "file":
                    return self.line(ind, "_ <- file_close ;;", s)
                if f.attr == "clear" and not e.args and self.selfattr(f.value) and ATTRS[self.selfattr(f.value)] == DICT:
                    return self.line(ind, "_ <- modf (set_%s (@nil (str * Z))) ;;" % self.selfattr(f.value), s)
                if f.attr == "encode" and len(e.args) == 1:
                    v, ty = self.expr(f.value, env)
                    c, cty = self.expr(e.args[0], env)
                    if ty != STR or cty != CODEC:
                        self.fail(s, "encode of a %s with a %s" % (ty, cty))
                    out = self.flush(ind)
                    out = self.mark(out, s) if out else out
                    return out + self.line(ind, "_ <- lift (py_encode_check %s %s) ;;" % (_paren(c), _paren(v)), None if out else s)
            self.fail(s, "unsupported expression statement")
        self.fail(s, "unsupported statement")

    def mark(self, text, s):
        """put the source comment on the first line of text"""
        first, nl, rest = text.partition("\n")
        return first + " " * max(2, 70 - len(first)) + self.note(s) + nl + rest

    def add(self, node, a, ta, b, tb):
        if (ta, tb) == (INT, INT):
            return "(%s + %s)%%Z" % (_paren(a), _paren(b)), INT
        if (ta, tb) == (STR, STR):
            return "%s ++ %s" % (_paren(a), _paren(b)), STR
        self.fail(node, "+ on %s and %s" % (ta, tb))

    # ------------------------------------------------------------------ expressions
    def bindm(self, text):
        t = self.gensym("tmp")
        self.pre.append("%s <- %s ;;" % (t, text))
        return t

    def truth(self, node, text, ty):
        if ty == BOOL:
            return text
        if ty in (STR, STRS, BYTES, DICT):
            return "nonempty %s" % _paren(text)
        if ty == INT:
            return "negb (Z.eqb %s 0)" % _paren(text)
        self.fail(node, "truth value of a %s" % ty)

    def cond(self, e, env):
        """a condition -> pure bool text (binds go to self.pre)"""
        if isinstance(e, ast.UnaryOp) and isinstance(e.op, ast.Not):
            return "negb %s" % _paren(self.cond(e.operand, env))
        if isinstance(e, ast.BoolOp):
            isand = isinstance(e.op, ast.And)
            # operands after the first are evaluated only when needed: when they need binds
            # the rest becomes a nested computation
            first = self.cond(e.values[0], env)
            others = e.values[1:]
            saved = self.pre
            self.pre = []
            if len(others) == 1:
                rest = self.cond(others[0], env)
            else:
                rest = self.cond(ast.copy_location(ast.BoolOp(op=e.op, values=others), others[0]), env)
            inner, self.pre = self.pre, saved
            if not inner:
                return "%s %s %s" % (_paren(first), "&&" if isand else "||", _paren(rest))
            comp = " ".join(inner) + " ret %s" % _paren(rest)
            if isand:
                return self.bindm("(if %s then (%s) else ret false)" % (first, comp))
            return self.bindm("(if %s then ret true else (%s))" % (first, comp))
        t, ty = self.expr(e, env)
        return self.truth(e, t, ty)

    def const_int(self, e):
        if isinstance(e, ast.Constant) and type(e.value) is int and abs(e.value) < 10 ** 9:
            return e.value
        if isinstance(e, ast.UnaryOp) and isinstance(e.op, ast.USub) and isinstance(e.operand, ast.Constant) \
                and type(e.operand.value) is int and abs(e.operand.value) < 10 ** 9:
            return -e.operand.value
        return None

    def one_char(self, e):
        if isinstance(e, ast.Constant) and isinstance(e.value, str) and len(e.value) == 1:
            return ord(e.value)
        self.fail(e, "expected a one-character string constant")

    def expr(self, e, env):
        """-> (pure text, type); computations that raise / read the object are bound in self.pre"""
        if isinstance(e, ast.Name):
            if e.id in env.scoped:
                return vname(e.id), env.scoped[e.id]
            if e.id in self.frame:
                if e.id not in env.assigned:
                    self.fail(e, "%r may be read before it is assigned" % e.id)
                return vname(e.id), self.types[e.id]
            self.fail(e, "unknown name %r" % e.id)
        if isinstance(e, ast.Constant):
            if type(e.value) is bool:
                return ("true" if e.value else "false"), BOOL
            if type(e.value) is int and abs(e.value) < 10 ** 9:
                return cint(e.value), INT
            if isinstance(e.value, str):
                return cstr(e.value), STR
            self.fail(e, "unsupported constant")
        ci = self.const_int(e)
        if ci is not None:
            return cint(ci), INT
        if isinstance(e, ast.Attribute):
            a = self.selfattr(e)
            if a:
                if a == "file":
                    self.fail(e, "self.file used as a value")
                return self.bindm("getf o_%s" % a), ATTRS[a]
            if e.attr == "reason":
                v, ty = self.expr(e.value, env)
                if ty == EXN:
                    return "exn_reason %s" % _paren(v), STR
            self.fail(e, "unsupported attribute")
        if isinstance(e, ast.UnaryOp) and isinstance(e.op, ast.Not) or isinstance(e, ast.BoolOp):
            return self.cond(e, env), BOOL
        if isinstance(e, ast.BinOp):
            a, ta = self.expr(e.left, env)
            b, tb = self.expr(e.right, env)
            if isinstance(e.op, ast.Add):
                return self.add(e, a, ta, b, tb)
            if isinstance(e.op, ast.Sub) and (ta, tb) == (INT, INT):
                return "(%s - %s)%%Z" % (_paren(a), _paren(b)), INT
            self.fail(e, "unsupported arithmetic")
        if isinstance(e, ast.Compare):
            if len(e.ops) != 1:
                self.fail(e, "chained comparison")
            op = e.ops[0]
            a, ta = self.expr(e.left, env)
            b, tb = self.expr(e.comparators[0], env)
            a, b = _paren(a), _paren(b)
            if isinstance(op, (ast.In, ast.NotIn)):
                if (ta, tb) == (STR, STR):
                    t = "substr %s %s" % (a, b)
                elif (ta, tb) == (STR, DICT):
                    t = "dict_mem %s %s" % (a, b)
                else:
                    self.fail(e, "`in` on %s and %s" % (ta, tb))
                return (t if isinstance(op, ast.In) else "negb (%s)" % t), BOOL
            if ta != tb:
                self.fail(e, "comparison of %s and %s" % (ta, tb))
            if isinstance(op, (ast.Eq, ast.NotEq)):
                eq = {STR: "str_eqb", INT: "Z.eqb", BOOL: "Bool.eqb"}.get(ta)
                if not eq:
                    self.fail(e, "== on %s" % ta)
                t = "%s %s %s" % (eq, a, b)
                return (t if isinstance(op, ast.Eq) else "negb (%s)" % t), BOOL
            if ta == INT and isinstance(op, (ast.Lt, ast.LtE, ast.Gt, ast.GtE)):
                t = {ast.Lt: "Z.ltb %s %s" % (a, b), ast.LtE: "Z.leb %s %s" % (a, b),
                     ast.Gt: "Z.ltb %s %s" % (b, a), ast.GtE: "Z.leb %s %s" % (b, a)}[type(op)]
                return t, BOOL
            self.fail(e, "unsupported comparison")
        if isinstance(e, ast.Subscript):
            v, ty = self.expr(e.value, env)
            if isinstance(e.slice, ast.Slice):
                if e.slice.step is not None:
                    self.fail(e, "slice with a step")
                bounds = []
                for b in (e.slice.lower, e.slice.upper):
                    if b is None:
                        bounds.append("None")
                    else:
                        ci = self.const_int(b)
                        if ci is None:
                            self.fail(e, "slice bound that is not an int constant")
                        bounds.append("(Some %s)" % cint(ci))
                if ty not in (STR, STRS):
                    self.fail(e, "slice of a %s" % ty)
                return "pyslice %s %s %s" % (_paren(v), bounds[0], bounds[1]), ty
            i, ity = self.expr(e.slice, env)
            if ity != INT:
                self.fail(e, "subscript that is not an int")
            if ty == STR:
                return self.bindm("lift (pystr_index %s %s)" % (_paren(v), _paren(i))), STR
            if ty == STRS:
                return self.bindm("lift (pyindex %s %s)" % (_paren(v), _paren(i))), STR
            self.fail(e, "subscript of a %s" % ty)
        if isinstance(e, ast.Call):
            if e.keywords:
                self.fail(e, "keyword arguments")
            f = e.func
            if isinstance(f, ast.Name):
                args = [self.expr(a, env) for a in e.args]
                if f.id == "len" and len(args) == 1 and args[0][1] in (STR, STRS, BYTES, DICT):
                    return "zlen %s" % _paren(args[0][0]), INT
                if f.id == "int" and len(args) == 1 and args[0][1] == STR:
                    return self.bindm("lift (py_int E %s)" % _paren(args[0][0])), INT
                if f.id == "check_valid" and len(args) == 1 and args[0][1] == STR:
                    return "py_check_valid %s" % _paren(args[0][0]), BOOL
                self.fail(e, "unsupported call")
            if isinstance(f, ast.Attribute):
                # bytes.fromhex(s)
                if isinstance(f.value, ast.Name) and f.value.id == "bytes" and f.attr == "fromhex" and len(e.args) == 1:
                    a, ta = self.expr(e.args[0], env)
                    if ta != STR:
                        self.fail(e, "fromhex of a %s" % ta)
                    return self.bindm("lift (py_fromhex %s)" % _paren(a)), BYTES
                # self.file.readline()
                if f.attr == "readline" and not e.args and self.selfattr(f.value) == "file":
                    return self.bindm("file_readline"), STR
                # 'c'.join(l)
                if f.attr == "join" and isinstance(f.value, ast.Constant) and len(e.args) == 1:
                    c = self.one_char(f.value)
                    a, ta = self.expr(e.args[0], env)
                    if ta != STRS:
                        self.fail(e, "join of a %s" % ta)
                    return "py_join_char %d %s" % (c, _paren(a)), STR
                v, ty = self.expr(f.value, env)
                if ty == BYTES and f.attr == "decode" and len(e.args) == 1:
                    c, cty = self.expr(e.args[0], env)
                    if cty != CODEC:
                        self.fail(e, "decode with a %s" % cty)
                    return self.bindm("lift (py_decode %s %s)" % (_paren(c), _paren(v))), STR
                if ty == STR:
                    if f.attr == "rstrip" and len(e.args) == 1 and isinstance(e.args[0], ast.Constant) \
                            and isinstance(e.args[0].value, str):
                        return "py_rstrip_chars %s %s" % (_paren(v), cstr(e.args[0].value)), STR
                    if f.attr == "lstrip" and not e.args:
                        return "py_lstrip E %s" % _paren(v), STR
                    if f.attr == "split" and len(e.args) == 1:
                        return "py_split_char %s %d" % (_paren(v), self.one_char(e.args[0])), STRS
                    if f.attr in ("startswith", "endswith") and len(e.args) == 1 and isinstance(e.args[0], ast.Constant) \
                            and isinstance(e.args[0].value, str):
                        return "py_%s %s %s" % (f.attr, _paren(v), cstr(e.args[0].value)), BOOL
                self.fail(e, "unsupported method call")
            self.fail(e, "unsupported call")
        self.fail(e, "unsupported expression (%s)" % type(e).__name__)


# ---------------------------------------------------------------------- driver

def render(repo=None):
    """-> text of gen/Reader_gen.v for the sources of the current working tree"""
    repo = repo or common.REPO
    path = os.path.join(repo, SOURCE)
    with open(path, encoding="utf-8", newline="") as f:
        src = f.read()
    tree = ast.parse(src, filename=path)
    funcs = [n for n in tree.body if isinstance(n, ast.FunctionDef) and n.name == "check_valid"]
    classes = [n for n in tree.body if isinstance(n, ast.ClassDef) and n.name == CLASS]
    if len(funcs) != 1 or len(classes) != 1:
        raise TranslateError("%s: check_valid / class %s not found exactly once at module level" % (path, CLASS))
    cls = classes[0]
    if cls.bases or cls.keywords or cls.decorator_list:
        raise TranslateError("%s:%d: class %s has bases / decorators" % (path, cls.lineno, CLASS))
    defs = {}
    for n in cls.body:
        if isinstance(n, (ast.FunctionDef, ast.AsyncFunctionDef)):
            if n.name in defs:
                raise TranslateError("%s:%d: %s defined twice" % (path, n.lineno, n.name))
            defs[n.name] = n
        elif not (isinstance(n, ast.Expr) and isinstance(n.value, ast.Constant)) and not isinstance(n, ast.Pass):
            raise TranslateError("%s:%d: class body statement other than a def" % (path, n.lineno))
    for name in ("__init__", "read_password"):
        if not isinstance(defs.get(name), ast.FunctionDef):
            raise TranslateError("%s: %s.%s not found" % (path, CLASS, name))
    for name in defs:
        if name.startswith("__") and name != "__init__":
            raise TranslateError("%s:%d: special method %s is not modelled" % (path, defs[name].lineno, name))
    # a rebinding inside this file of a name the translated code calls would make the translated
    # definition not the one that runs
    watched = BUILTINS_USED | {CLASS, "read_password", "__init__"}
    translated = (funcs[0], defs["__init__"], defs["read_password"])
    for n in ast.walk(tree):
        if isinstance(n, (ast.FunctionDef, ast.AsyncFunctionDef, ast.ClassDef)) and n.name in watched and n not in translated \
                and n is not cls:
            raise TranslateError("%s:%d: %s is defined again" % (path, n.lineno, n.name))
        if isinstance(n, (ast.Assign, ast.AugAssign, ast.AnnAssign, ast.Delete, ast.For, ast.NamedExpr)):
            targets = n.targets if isinstance(n, (ast.Assign, ast.Delete)) else [n.target]
            for t in targets:
                for m in ast.walk(t):
                    if (isinstance(m, ast.Name) and m.id in watched) or \
                            (isinstance(m, ast.Attribute) and m.attr in ("read_password", "__init__", "check_valid", "__class__")):
                        raise TranslateError("%s:%d: %s is rebound" % (path, n.lineno, ast.unparse(t)))
        if isinstance(n, (ast.Import, ast.ImportFrom)):
            for a in n.names:
                bound = a.asname or a.name.split(".")[0]
                if bound in watched and not (isinstance(n, ast.Import) and a.name == "codecs" and a.asname is None):
                    raise TranslateError("%s:%d: import rebinds %s" % (path, n.lineno, bound))
        if isinstance(n, ast.ExceptHandler) and n.name in watched:
            raise TranslateError("%s:%d: exception variable rebinds %s" % (path, n.lineno, n.name))
        if isinstance(n, ast.arg) and n.arg in watched:
            raise TranslateError("%s:%d: parameter rebinds %s" % (path, n.lineno, n.arg))
        if isinstance(n, ast.Name) and n.id in ("setattr", "delattr", "__dict__", "globals", "locals", "exec", "eval", "vars"):
            raise TranslateError("%s:%d: %s is used in the module" % (path, n.lineno, n.id))
        if isinstance(n, (ast.Global, ast.Nonlocal)):
            raise TranslateError("%s:%d: global / nonlocal statement" % (path, n.lineno))
    if not any(isinstance(n, ast.Import) and any(a.name == "codecs" and a.asname is None for a in n.names) for n in tree.body):
        raise TranslateError("%s: `import codecs` not found at module level" % path)
    parts = [PureFn(path, funcs[0], "").translate(),
             InitFn(path, defs["__init__"], "class %s  " % CLASS).translate(),
             GenFn(path, defs["read_password"], "class %s  " % CLASS).translate()]
    head = (
        "(* GENERATED by harness/translate_reader.py from the Python source of the current\n"
        "   working tree (%s) on every run of a check.  Do not edit.\n"
        "   Each definition is the line-by-line image of one Python function in the subset\n"
        "   documented in the translator; the numbers in the comments are source lines.\n"
        "   theories/ReaderGenProofs.v proves these definitions equal to the hand-written\n"
        "   model of theories/Reader.v. *)\n"
        "From Coq Require Import List NArith ZArith Bool.\n"
        "From Pcfg Require Import TextFile Reader ReaderRt.\n"
        "Import ListNotations.\n\n" % SOURCE)
    return head + "\n".join(parts)


def failure_text(err):
    """text written instead of the definitions when the translation fails: it must not
    compile, so that no stale generated definition survives"""
    return ("(* GENERATED by harness/translate_reader.py.  The translation of the current sources FAILED:\n"
            "   %s\n   The line below does not type-check on purpose. *)\n"
            "Definition reader_translation_failed : False := I.\n" % _comment(str(err)))


def write(repo=None):
    import extract_consts as X
    path = os.path.join(common.COQ, OUT)
    try:
        text = render(repo)
    except Exception as e:
        X.write(path, failure_text("%s: %s" % (type(e).__name__, e)))
        raise
    return X.write(path, text)


if __name__ == "__main__":
    if "--write" in sys.argv[1:]:
        print("written" if write() else "unchanged", os.path.join(common.COQ, OUT))
    else:
        sys.stdout.write(render())
