#!/venv/bin/python
"""Fail-closed extraction of data constants and comparison operators from the
current /repo sources into coq/gen/Consts_gen.v.  Runs at the start of every
check; the theorems are generic in these constants and side-condition lemmas
(Props/*.v) are re-checked against the regenerated file.

Anything unexpected in the source (function missing, comparison of another
shape) raises: the check then reports that the tie to the source is broken.
"""
import ast
import os
import sys

HERE = os.path.dirname(os.path.abspath(__file__))
sys.path.insert(0, HERE)
import common  # noqa: E402


class ExtractError(Exception):
    pass


def parse(rel):
    p = os.path.join(common.REPO, rel)
    return ast.parse(open(p, encoding="utf-8").read(), filename=p)


def find_func(tree, name, cls=None):
    for node in ast.walk(tree):
        if cls and isinstance(node, ast.ClassDef) and node.name == cls:
            for n in node.body:
                if isinstance(n, ast.FunctionDef) and n.name == name:
                    return n
        if not cls and isinstance(node, ast.FunctionDef) and node.name == name:
            return node
    raise ExtractError("function %s not found" % name)


def compares(fn, left_name, right_name):
    """All comparisons `left_name OP right_name` (Name OP Name) inside fn."""
    out = []
    for n in ast.walk(fn):
        if isinstance(n, ast.Compare) and len(n.ops) == 1 and isinstance(n.left, ast.Name) \
                and isinstance(n.comparators[0], ast.Name):
            if n.left.id == left_name and n.comparators[0].id == right_name:
                out.append(type(n.ops[0]).__name__)
    return out


FLIP = {"Lt": "Gt", "LtE": "GtE", "Gt": "Lt", "GtE": "LtE", "Eq": "Eq", "NotEq": "NotEq"}
NEGATE = {"Lt": "GtE", "LtE": "Gt", "Gt": "LtE", "GtE": "Lt", "Eq": "NotEq", "NotEq": "Eq"}


def compares_with_param(fn, k):
    """Operators of all simple comparisons `x OP <k-th parameter after self>` inside fn, in source order, whatever the other
    operand is called (a comparison written the other way round, `param OP x`, is returned flipped; one under an odd
    number of `not` is returned negated: `not x > p` is `x <= p` on the ok values the theorems are about).  Independent of
    the names of local variables and of the parameter itself."""
    args = [a.arg for a in fn.args.args]
    if args and args[0] == "self":
        args = args[1:]
    if k >= len(args):
        raise ExtractError("%s has no parameter number %d" % (fn.name, k))
    pname = args[k]
    out = []

    def walk(n, neg):
        if isinstance(n, ast.UnaryOp) and isinstance(n.op, ast.Not):
            walk(n.operand, not neg)
            return
        if isinstance(n, ast.Compare) and len(n.ops) == 1:
            l, r = n.left, n.comparators[0]
            op = None
            if isinstance(r, ast.Name) and r.id == pname and not (isinstance(l, ast.Name) and l.id == pname):
                op = type(n.ops[0]).__name__
            elif isinstance(l, ast.Name) and l.id == pname:
                op = FLIP.get(type(n.ops[0]).__name__, "?")
            if op is not None:
                out.append((n.lineno, n.col_offset, NEGATE.get(op, "?") if neg else op))
        for c in ast.iter_child_nodes(n):
            # the polarity is kept through `and` / `or` only as far as a single comparison is concerned (De Morgan
            # changes the connective, not the comparisons); any other construct starts afresh
            walk(c, neg if isinstance(n, ast.BoolOp) else False)

    walk(fn, False)
    return [op for _, _, op in sorted(out)]


def const_value(tree, name):
    for n in ast.walk(tree):
        if isinstance(n, ast.Assign) and len(n.targets) == 1 and isinstance(n.targets[0], ast.Name) \
                and n.targets[0].id == name:
            return ast.literal_eval(n.value)
    raise ExtractError("constant %s not found" % name)


def extract():
    C = {}
    g = parse("lib_guesser/pcfg_grammar.py")
    # is_parent_around: `new_parent_prob < max_prob` (strict) or `<=`
    ops = compares_with_param(find_func(g, "is_parent_around", "PcfgGrammar"), 1)        # ... OP max_prob
    if ops == ["Lt"]:
        C["parent_around_strict"] = True
    elif ops == ["LtE"]:
        C["parent_around_strict"] = False
    else:
        raise ExtractError("is_parent_around: unexpected comparisons %r" % ops)
    # _are_you_my_child (`new_parent_prob < parent_prob`, `== parent_prob`, `pos < parent_pos`) and the restore walk
    # (`parent_prob < min_prob`, `parent_prob <= max_prob`): both functions are translated to Gallina on every run and
    # PROVED equal to the model (harness/translate_kernel.py, KernelGenProofs.v: kernel_my_child_eq, kernel_restore_eq),
    # which decides every way of writing these tests.  The pattern check here used to raise for every property when a
    # behaviour-preserving rewrite changed the number or the order of the comparisons; it now only records the constant
    # (which no Coq file uses) when the familiar shape is found.
    f = find_func(g, "_are_you_my_child", "PcfgGrammar")
    ops1 = compares_with_param(f, 3)         # ... OP parent_prob
    ops2 = compares_with_param(f, 2)         # ... OP parent_pos
    if ops1 == ["Lt", "Eq"] and ops2 == ["Eq", "Lt"]:
        C["child_tie_lower"] = True
    find_func(g, "_recursive_restore_prob_order", "PcfgGrammar")         # must exist
    return C


def cbool(b):
    return "true" if b else "false"


def render(C):
    lines = ["(* GENERATED by harness/extract_consts.py from the current /repo sources. Do not edit. *)",
             "From Coq Require Import List NArith Bool.", "Import ListNotations.", ""]
    for k in sorted(C):
        v = C[k]
        if isinstance(v, bool):
            lines.append("Definition %s : bool := %s." % (k, cbool(v)))
        elif isinstance(v, int):
            lines.append("Definition %s : nat := %d." % (k, v))
        elif isinstance(v, str):
            lines.append("Definition %s : list N := %s." % (k, common.cstr(v)))
        elif isinstance(v, list) and all(isinstance(x, str) for x in v):
            lines.append("Definition %s : list (list N) := %s." % (
                k, "[" + ";\n  ".join(common.cstr(x) for x in v) + "]" if v else "[]"))
        elif isinstance(v, list) and all(isinstance(x, int) for x in v):
            lines.append("Definition %s : list N := %s." % (
                k, ("[" + "; ".join("%d" % x for x in v) + "]%N") if v else "[]"))
        else:
            raise ExtractError("cannot render %s" % k)
    return "\n".join(lines) + "\n"


def write(path, text):
    if os.path.exists(path) and open(path, encoding="utf-8").read() == text:
        return False
    os.makedirs(os.path.dirname(path), exist_ok=True)
    with open(path, "w", encoding="utf-8") as f:
        f.write(text)
    return True


def main():
    C = extract()
    import importlib
    import pkgutil
    import consts
    # A plugin that fails leaves its constants out: only the Coq files (and hence
    # the properties) that use them stop compiling, and they name the constant.
    errors = {}
    for m in sorted(pkgutil.iter_modules(consts.__path__), key=lambda m: m.name):
        try:
            mod = importlib.import_module("consts." + m.name)
            got = mod.extract()
            render(got)
        except Exception as e:  # fail closed for the dependants only
            errors[m.name] = "%s: %s" % (type(e).__name__, e)
            continue
        for k, v in got.items():
            if k in C:
                raise ExtractError("duplicate constant " + k)
            C[k] = v
    main.errors = errors
    write(os.path.join(common.COQ, "gen", "Consts_gen.v"), render(C))
    return C


if __name__ == "__main__":
    print(main())
