"""C08, family "deep restore": sessions saved far into a grammar with long terminal lists.

A ruleset with 1-2 base structures over two long variables (hundreds to thousands of groups of pairwise different
probability, a few lines sharing a probability) defines a grid of pre-terminals per base structure.  The save state of a
session that was quit when it popped the cell (i, j) is what PcfgQueue.update_save_config writes: min_probability 0.0 and
max_probability str(probability of that cell) - it is built directly, the hundred thousands of pops before it are not run.
A real PcfgQueue restores from it (the recursion of the restore walk gets as deep as the index sum of the deepest restored
node) and is popped `pops` times; then it saves again and a second PcfgQueue restores that (a two-cycle history).

Oracle (independent of the implementation's kernel: every cell's probability is the left-to-right product of the
probabilities written to the files, groups = runs of equal probability):
  * the restored queue: nothing above the saved probability m; every cell with probability <= m none of whose parents
    (one index lower) has probability <= m must be queued (it has no other way to be emitted: `lost`); a queued cell with
    a parent <= m is emitted again as that parent's descendant (`repeat-below-saved` unless its probability is m);
  * the first pops: non-increasing, none above m, every cell with probability in (last popped, m] exactly once (all cells
    <= m when the queue ran empty), none twice unless its probability is m.
"""
import sys
import time
import uuid as _uuid
from collections import Counter

import common
import impl_next

# variable -> number of distinct terminal strings available
VARS = {"D4": 10 ** 4, "D5": 10 ** 5, "D6": 10 ** 6}
DEFAULT_RECURSION_LIMIT = 1000    # what a fresh `pcfg_guesser.py --load` process starts with


# ------------------------------------------------------------------ generator

def gen_probs(rng, n):
    """n line probabilities, non-increasing, nearly all pairwise different; returns (shape name, list)"""
    shape = rng.choice(["slow-linear", "geometric", "zipf", "counts"])
    if shape == "slow-linear":
        a = rng.uniform(0.02, 0.3)
        ps = [(1.0 + a - 2 * a * i / n) / n for i in range(n)]
    elif shape == "geometric":
        r = 1.0 - rng.uniform(0.002, 0.02)
        c = rng.uniform(0.5, 1.0) * (1.0 - r)
        ps = [c * r ** i for i in range(n)]
    elif shape == "zipf":
        s = rng.uniform(0.6, 1.4)
        w = [1.0 / (i + 1) ** s for i in range(n)]
        t = sum(w)
        ps = [x / t for x in w]
    else:
        # what the trainer writes: count / total, counts falling by random steps
        cs, c = [], 1
        for _ in range(n):
            cs.append(c)
            c += rng.choice([1, 1, 1, 2, 3, 7, 50])
        cs.reverse()
        t = sum(cs)
        ps = [c / t for c in cs]
    if rng.random() < 0.4:
        # some lines share their probability with the line before (one group)
        for i in range(1, n):
            if rng.random() < 0.05:
                ps[i] = ps[i - 1]
    ps.sort(reverse=True)
    return shape, ps


def gen_ruleset(rng, lo, hi, name="DR"):
    """{ruleset description of rulesets.write_ruleset, 'shape': how it was drawn}"""
    x, y = rng.sample(sorted(VARS), 2)
    n = {x: rng.randint(lo, hi), y: rng.randint(lo, hi)}
    if rng.random() < 0.3:
        n[y] = max(lo // 3, n[y] // 3, 2)           # one long, one shorter list
    rs = {"name": name, "encoding": "utf-8", "uuid": str(_uuid.UUID(int=rng.getrandbits(128))),
          "files": {}, "grammar": [], "prince": [], "omen": None, "omen_prob": []}
    shapes = {}
    for v in (x, y):
        shapes[v], ps = gen_probs(rng, n[v])
        w = int(v[1:])
        rs["files"][v] = [("%0*d" % (w, i), p) for i, p in enumerate(ps)]
    structs = rng.choice([[x + y], [x + y], [x + y, y + x], [x + y, x], [y + x, y], [x + y, x + x]])
    bps = {1: [[1.0], [0.5], [0.9]], 2: [[0.6, 0.4], [0.5, 0.5], [0.7, 0.3], [0.9, 0.1], [0.25, 0.125]]}[len(structs)]
    rs["grammar"] = list(zip(structs, rng.choice(bps)))
    rs["prince"] = [(x, 0.5), (y, 0.5)]
    rs["shape"] = {"vars": [x, y], "lines": [n[x], n[y]], "probs": [shapes[x], shapes[y]], "structs": structs}
    return rs


# ------------------------------------------------------------------ independent enumeration

def groups_of(lines):
    out = []
    for _, p in lines:
        p = float(p)
        if not out or out[-1] != p:
            out.append(p)
    return out


class Grid:
    """probabilities of every pre-terminal of the ruleset FILES: per base structure a list (one slot) or a list of rows
    (two slots), entry = ((base * p_first) * p_second), the order of the multiplications of the guesser's _find_prob"""

    def __init__(self, rs):
        import re
        self.bases = []
        gp = {v: groups_of(lines) for v, lines in rs["files"].items()}
        for struct, bp in rs["grammar"]:
            names = re.findall(r"[A-Z][0-9]+", struct)
            bp = float(bp)
            if len(names) == 1:
                cells = [bp * a for a in gp[names[0]]]
            elif len(names) == 2:
                second = gp[names[1]]
                cells = [[ba * b for b in second] for ba in (bp * a for a in gp[names[0]])]
            else:
                raise ValueError("deep_restore: base structures of 1 or 2 variables only")
            self.bases.append((names, bp, cells))

    def key(self, bi, vec):
        names, bp, cells = self.bases[bi]
        p = cells[vec[0]] if len(vec) == 1 else cells[vec[0]][vec[1]]
        return (tuple(zip(names, vec)), bp.hex(), p.hex())

    def prob(self, bi, vec):
        cells = self.bases[bi][2]
        return cells[vec[0]] if len(vec) == 1 else cells[vec[0]][vec[1]]

    def two_slot_bases(self):
        return [bi for bi, b in enumerate(self.bases) if len(b[0]) == 2]

    def count_above(self, m):
        n = 0
        for names, bp, cells in self.bases:
            if len(names) == 1:
                n += sum(1 for p in cells if p > m)
            else:
                n += sum(1 for row in cells for p in row if p > m)
        return n

    def between(self, lo, lo_strict, m):
        """Counter of the keys of the cells with lo < p <= m (lo_strict) or lo <= p <= m"""
        out = Counter()
        for bi, (names, bp, cells) in enumerate(self.bases):
            if len(names) == 1:
                hit = [(i,) for i, p in enumerate(cells) if p <= m and (p > lo if lo_strict else p >= lo)]
            elif lo_strict:
                hit = [(i, j) for i, row in enumerate(cells) for j, p in enumerate(row) if lo < p <= m]
            else:
                hit = [(i, j) for i, row in enumerate(cells) for j, p in enumerate(row) if lo <= p <= m]
            for vec in hit:
                out[self.key(bi, vec)] += 1
        return out

    def frontier(self, m):
        """cells with probability <= m none of whose parents has probability <= m"""
        out = Counter()
        for bi, (names, bp, cells) in enumerate(self.bases):
            if len(names) == 1:
                for i, p in enumerate(cells):
                    if p <= m and (i == 0 or cells[i - 1] > m):
                        out[self.key(bi, (i,))] += 1
                continue
            prev = None
            for i, row in enumerate(cells):
                for j, p in enumerate(row):
                    if p <= m and (j == 0 or row[j - 1] > m) and (prev is None or prev[j] > m):
                        out[self.key(bi, (i, j))] += 1
                prev = row
        return out


def _shape_of_cut(grid, m):
    """(cells above m, index sum of the deepest node the restore has to reach) - for CHOOSING cuts only, by bisection
    in the rows (which are non-increasing); no verdict depends on it"""
    import bisect
    above, depth = 0, 0
    for names, bp, cells in grid.bases:
        if len(names) == 1:
            j0 = bisect.bisect_left([-p for p in cells], -m)
            above += j0
            depth = max(depth, j0 if j0 < len(cells) else j0 - 1)
            continue
        prev = None
        for i, row in enumerate(cells):
            # first j with row[j] <= m
            lo, hi = 0, len(row)
            while lo < hi:
                mid = (lo + hi) // 2
                if row[mid] > m:
                    lo = mid + 1
                else:
                    hi = mid
            above += lo
            if lo < len(row) and (prev is None or lo < prev):
                depth = max(depth, i + lo)
            elif lo == len(row):
                depth = max(depth, i + lo - 1)
            prev = lo
            if lo == 0:
                break
    return above, depth


def pick_cut(rng, grid, budget, deep=True, tries=8):
    """a cell of a two-slot base structure with at most `budget` cells above it; `deep`: of several candidates far down
    the lists the one whose restore walk gets deepest"""
    bi = rng.choice(grid.two_slot_bases())
    cells = grid.bases[bi][2]
    n1, n2 = len(cells), len(cells[0])
    cands = []
    for _ in range(tries if deep else 1):
        if deep:
            mode = rng.choice(["diagonal", "corner-first", "corner-second", "end"])
            if mode == "diagonal":
                t = rng.uniform(0.5, 0.97)
                i, j = int(t * n1), int(t * n2)
            elif mode == "corner-first":
                i, j = n1 - 1 - rng.randrange(0, 1 + n1 // 20), int(rng.uniform(0.2, 0.9) * n2)
            elif mode == "corner-second":
                i, j = int(rng.uniform(0.2, 0.9) * n1), n2 - 1 - rng.randrange(0, 1 + n2 // 20)
            else:
                i, j = n1 - 1 - rng.randrange(0, 3), n2 - 1 - rng.randrange(0, 3)
        else:
            i, j = rng.randrange(n1), rng.randrange(n2)
        i, j = max(0, min(i, n1 - 1)), max(0, min(j, n2 - 1))
        while True:
            m = cells[i][j]
            above, depth = _shape_of_cut(grid, m)
            if above <= budget or (i == 0 and j == 0):
                break
            # too expensive: move towards the origin, keeping the proportions
            i, j = int(i * 0.93), int(j * 0.93)
        cands.append((depth, -above, (i, j), m))
    depth, nabove, vec, m = max(cands)
    return bi, vec, m, -nabove


# ------------------------------------------------------------------ the real queue

def restore_queue(g, cfg):
    """a real PcfgQueue restored from cfg, in the state of a fresh process (default recursion limit); messages swallowed"""
    from lib_guesser.priority_queue import PcfgQueue
    old = sys.getrecursionlimit()
    t0 = time.time()
    try:
        sys.setrecursionlimit(DEFAULT_RECURSION_LIMIT)
        q, so, se = common.quiet_call(PcfgQueue, g, cfg)
    finally:
        sys.setrecursionlimit(max(old, DEFAULT_RECURSION_LIMIT))
    return q, time.time() - t0, (so + se)


def save_of(q):
    import configparser
    cfg = configparser.ConfigParser()
    cfg.add_section("guessing_info")
    q.update_save_config(cfg)
    return cfg


def item_of(it):
    return {"pt": [tuple(x) for x in it["pt"]], "prob": it["prob"], "base_prob": it["base_prob"]}


def check_queue(grid, queued, m, replay, label):
    """oracle on the content of the restored queue"""
    vio = []
    if any(it["prob"] > m for it in queued):
        vio.append({"sig": "C08:too-probable", "what": "%s: the restored queue holds a pre-terminal above the saved probability %r"
                    % (label, m), "replay": replay})
    want = grid.frontier(m)
    have = Counter(impl_next.key(it) for it in queued)
    missing = want - have
    if missing:
        vio.append({"sig": "C08:lost", "what": "%s (m=%r): %d of the %d pre-terminals that only the restore can put into the queue "
                    "(probability <= m, every parent above m) are not restored (%d queued), so they and what only they lead to are never "
                    "emitted, e.g. %r" % (label, m, sum(missing.values()), sum(want.values()), len(queued), list(missing)[:2]),
                    "replay": replay})
    extra = [k for k in (have - want).elements() if float.fromhex(k[2]) != m]
    if extra:
        vio.append({"sig": "C08:repeat-below-saved", "what": "%s (m=%r): %d restored pre-terminal(s) with a probability other than the saved one "
                    "are queued twice or also have a parent at or below the saved probability that creates them again, e.g. %r"
                    % (label, m, len(extra), extra[:2]), "replay": replay})
    return vio


def check_restored(grid, q, m, pops, replay, label):
    """oracle on the restored queue and its first `pops` pops; returns (violations, popped items, exhausted, stats)"""
    vio = []
    try:
        queued = [item_of(qi.pt_item) for qi in q.p_queue]
    except AttributeError:
        queued = None       # the queue keeps its items some other way: only the emitted stream is judged
    if queued is None:
        stats = {"frontier": -1, "walk_depth": 0}
        vq = []
    else:
        stats = {"frontier": len(queued), "walk_depth": max([sum(i for _, i in it["pt"]) for it in queued] or [0])}
        vq = check_queue(grid, queued, m, replay, label)
    vio += vq
    B = []
    exhausted = False
    while len(B) < pops:
        it = q.next()
        if it is None:
            exhausted = True
            break
        B.append(item_of(it))
    for i in range(1, len(B)):
        if B[i]["prob"] > B[i - 1]["prob"]:
            vio.append({"sig": "C08:order", "what": "%s: resumed stream not in non-increasing order at %d" % (label, i), "replay": replay})
            break
    if B and max(b["prob"] for b in B) > m:
        vio.append({"sig": "C08:too-probable", "what": "%s: the resumed run emits a pre-terminal above the saved probability %r" % (label, m),
                    "replay": replay})
    got = Counter(impl_next.key(b) for b in B)
    if exhausted or not B:
        lo = -1.0
        must = allowed = grid.between(lo, True, m)
    else:
        lo = B[-1]["prob"]
        must = grid.between(lo, True, m)
        allowed = grid.between(lo, False, m)
    missing = must - got
    if missing:
        vio.append({"sig": "C08:lost", "what": "%s (m=%r): %d of the %d pre-terminals with probability in (%r, m] are not among the first %d "
                    "the resumed run emits%s, e.g. %r" % (label, m, sum(missing.values()), sum(must.values()), lo, len(B),
                                                         " (it ended there)" if exhausted else "", list(missing)[:2]), "replay": replay})
    bad = [k for k in (got - allowed).elements() if float.fromhex(k[2]) != m]
    if bad:
        vio.append({"sig": "C08:repeat-below-saved", "what": "%s (m=%r): %d pre-terminal(s) with a probability other than the saved one are "
                    "emitted more often than the grammar has them, e.g. %r" % (label, m, len(bad), bad[:2]), "replay": replay})
    stats["pops"] = len(B)
    return vio, B, exhausted, stats


def run_cut(g, grid, m, pops, then, replay):
    """restore at m, pop `pops`, (then: save, restore again, pop `then`).  Returns (violations, stats)"""
    cfg = impl_next.resume_config(m)
    q, secs, _ = restore_queue(g, cfg)
    vio, B, exhausted, stats = check_restored(grid, q, m, pops, replay, "deep restore")
    stats["restore_s"] = secs
    stats["cycles"] = 1
    if then and B and not exhausted:
        cfg2 = save_of(q)
        m2 = cfg2.getfloat("guessing_info", "max_probability")
        if m2 != B[-1]["prob"]:
            vio.append({"sig": "C08:saved-prob", "what": "saved probability %r != popped probability %r" % (m2, B[-1]["prob"]),
                        "replay": replay})
        q2, secs2, _ = restore_queue(g, cfg2)
        v2, B2, _, st2 = check_restored(grid, q2, m2, then, replay, "second restore after %d more pops" % len(B))
        vio += v2
        stats["cycles"] = 2
        stats["restore_s"] = max(secs, secs2)
        stats["walk_depth"] = max(stats["walk_depth"], st2["walk_depth"])
        stats["pops"] += st2["pops"]
    return vio, stats


def explore(ctx, n_rulesets, lo, hi, budget, pops, dist, samples):
    """the family; returns violations"""
    sc = common.scratch()
    vio = []
    dist.update({"deep_rulesets": 0, "deep_restores": 0, "deep_max_walk_depth": 0, "deep_walk_depth_over_longest_list": 0,
                 "deep_max_cells_above_cut": 0, "deep_pops": 0, "deep_max_restore_s": 0.0, "deep_shapes": {}})
    for r in range(n_rulesets):
        rs = gen_ruleset(ctx.rng, lo, hi)
        grid = Grid(rs)
        g = impl_next.load_grammar(rs, sc, True, False, "Grammar")
        dist["deep_rulesets"] += 1
        sh = "+".join(rs["shape"]["probs"]) + " " + ",".join(rs["shape"]["structs"])
        dist["deep_shapes"][sh] = dist["deep_shapes"].get(sh, 0) + 1
        longest = max(len(groups_of(l)) for l in rs["files"].values())
        for deep in (True, True, False):
            bi, vec, m, above = pick_cut(ctx.rng, grid, budget, deep)
            then = ctx.rng.choice([0, pops // 4])
            replay = {"deep": True, "ruleset": rs, "m": m.hex(), "cell": [bi, list(vec)], "pops": pops, "then": then}
            v, st = run_cut(g, grid, m, pops, then, replay)
            vio += v
            dist["deep_restores"] += st["cycles"]
            dist["deep_pops"] += st["pops"]
            dist["deep_max_walk_depth"] = max(dist["deep_max_walk_depth"], st["walk_depth"])
            dist["deep_walk_depth_over_longest_list"] += st["walk_depth"] > longest + 100
            dist["deep_max_cells_above_cut"] = max(dist["deep_max_cells_above_cut"], above)
            dist["deep_max_restore_s"] = round(max(dist["deep_max_restore_s"], st["restore_s"]), 2)
            if deep and len(samples) < 5 and not any("deep" in s for s in samples):
                samples.append({"deep": rs["shape"], "bases": rs["grammar"], "cut_cell": [bi, list(vec)], "saved": m,
                                "cells_above_cut": above, "restored_nodes": st["frontier"], "walk_depth": st["walk_depth"],
                                "restore_s": round(st["restore_s"], 2)})
            if v:
                return vio          # one failing input is enough, the rest of the family costs time on a broken tree
    return vio


def small_cases(ctx, n, lo=16, hi=40):
    """scaled-down instances for the model: (ruleset, loaded grammar, saved probability, the whole resumed stream)"""
    sc = common.scratch()
    out = []
    for _ in range(n):
        rs = gen_ruleset(ctx.rng, lo, hi)
        grid = Grid(rs)
        g = impl_next.load_grammar(rs, sc, True, False, "Grammar")
        bi, vec, m, above = pick_cut(ctx.rng, grid, 10 ** 9, True, tries=2)
        q, _, _ = restore_queue(g, impl_next.resume_config(m))
        B = []
        while True:
            it = q.next()
            if it is None:
                break
            B.append(item_of(it))
        if 0 < len(B) <= 500:
            out.append((rs, g, m, B))
    return out


def replay(ctx, inp):
    rs = inp["ruleset"]
    grid = Grid(rs)
    g = impl_next.load_grammar(rs, common.scratch(), True, False, "Grammar")
    v, _ = run_cut(g, grid, float.fromhex(inp["m"]), inp.get("pops", 2000), inp.get("then", 0), inp)
    return v
