"""Names the broken theorem when the translator tie of the priority-queue OBJECT breaks.

gen/Queue_gen.v is regenerated from the current sources on every run
(harness/consts/zz_queue.py -> translate_queue.py: QueueItem's comparison methods,
PcfgQueue.__init__ / next / insert_queue / restore_base_item / update_save_config,
PcfgGrammar.restore_prob_order) and theories/QueueGenProofs.v is rebuilt against it by the
common build.  When that build fails the compiled file is removed, so Props/C01.v, C02.v,
C08.v stop compiling with a bare "cannot find QueueGenProofs".  obligation() turns that into
a correspondence entry that says WHICH equality no longer holds (or which construct the
translator refused): it recompiles the two files, takes the first error and looks up the
enclosing lemma.  On an unchanged tree it only stats the compiled file."""
import os
import re
import subprocess

import common

GEN = os.path.join("gen", "Queue_gen.v")
PROOFS = os.path.join("theories", "QueueGenProofs.v")
NAME = ("translator-tie:translated QueueItem.__lt__/__le__/__eq__/__ne__/__gt__/__ge__, PcfgQueue.__init__/next/"
        "insert_queue/restore_base_item/update_save_config, PcfgGrammar.restore_prob_order = model QueueModel.v "
        "(QueueGenProofs)")
TRUSTED = ("harness/translate_queue.py: fail-closed ast translator of the priority-queue object (QueueItem's six comparison "
           "methods, PcfgQueue.__init__ / next / insert_queue / restore_base_item / update_save_config, "
           "PcfgGrammar.restore_prob_order) into gen/Queue_gen.v, and the runtime QueueRt.v it targets: the object as a "
           "record, heapq as the parameters push / pop (contract push_ok / heap_ok for the translated __lt__), the config "
           "object as the list of stored floats (float(str(p)) = p), a bound-method callback applied to the recorded calls, "
           "sys.setrecursionlimit as a pinned constant, RecursionError = out of fuel (not modelled)")


def _coqc(rel):
    r = subprocess.run(["timeout", "300", "coqc", "-Q", "theories", "Pcfg", "-Q", "gen", "PcfgGen", rel],
                       cwd=common.COQ, capture_output=True, text=True)
    return r.returncode, (r.stdout + r.stderr)


def _enclosing(rel, line):
    name = None
    with open(os.path.join(common.COQ, rel), encoding="utf-8") as f:
        for n, l in enumerate(f, 1):
            if n > line:
                break
            m = re.match(r"\s*(?:Lemma|Theorem|Corollary|Example)\s+([A-Za-z0-9_']+)", l)
            if m:
                name = m.group(1)
    return name


def obligation():
    """-> (name, ok, detail) for the `corr` list of C01 / C02 / C08"""
    vo = os.path.join(common.COQ, PROOFS + "o")
    gen = os.path.join(common.COQ, GEN)
    if os.path.exists(vo) and os.path.exists(gen) and os.path.getmtime(vo) >= os.path.getmtime(gen):
        return (NAME, True, "")
    txt = open(gen, encoding="utf-8").read() if os.path.exists(gen) else ""
    m = re.search(r"The translation of the current sources FAILED:\s*(.*?)\s*The line below", txt, re.S)
    if m:
        return (NAME, False, "harness/translate_queue.py refused the current source (outside its subset): "
                + " ".join(m.group(1).split())[:600])
    fd = common._lock()
    try:
        for rel in (GEN, PROOFS):
            rc, log = _coqc(rel)
            if rc != 0:
                e = re.search(r'File "\./([^"]+)", line (\d+)', log)
                where = ""
                if e and e.group(1) == PROOFS:
                    where = "theorem %s (QueueGenProofs.v:%s) no longer holds for the translated source: " % (
                        _enclosing(PROOFS, int(e.group(2))), e.group(2))
                elif "Kernel_gen" in log or "KernelGenProofs" in log:
                    where = "gen/Kernel_gen.v / KernelGenProofs.v (the kernel's own tie) did not build: "
                # a compiled file the common build did not produce is not left behind
                for stale in (PROOFS + "o",):
                    try:
                        os.remove(os.path.join(common.COQ, stale))
                    except OSError:
                        pass
                return (NAME, False, where + " ".join(log.split())[-500:])
        return (NAME, True, "rebuilt")
    finally:
        os.close(fd)
