"""Translator tie of the OMEN generator core (C10, C15): on every run the Python text of the
classes Optimizer (lib_guesser/omen/optimizer.py), GuessStructure (guess_structure.py) and
MarkovCracker (markov_cracker.py) is translated to Gallina (harness/translate_omen_gen.py, ast
only, fail closed) into coq/gen/OmenGen_opt_gen.v, OmenGen_gs_gen.v and OmenGen_mc_gen.v;
coq/theories/OmenGen*Proofs.v prove the generated definitions equal to the hand-written model of
coq/theories/Omen.v.

A file is rewritten only when its text changes (so nothing is rebuilt on an unchanged tree).
When the translation of a class fails its file is replaced by one that does not compile - no
stale definition survives - and the error is raised, which the extractor driver records for this
plugin.

MarkovCracker.save_session / load_session (pickle I/O) are not translated; what the model
(Omen.mc_save / mc_load) says about them is extracted instead: the ORDER of the pickled fields
on both sides (constants omen_save_order / omen_load_order; codes 1 target_level, 2 cur_ip,
3 cur_len, 4 cur_guess.parse_tree, 5 cur_guess.first_guess; Props/C15.v pins both to 1..5), and
that load_session rebuilds the GuessStructure from the loaded cursors with the very constructor
call _increase_ip_for_target uses before it overwrites parse_tree / first_guess (fails closed
otherwise)."""
import ast
import os

import common
import translate_omen_gen
from translate_kernel import TranslateError

FIELDS = {"self.target_level": 1, "self.cur_ip": 2, "self.cur_len": 3,
          "self.cur_guess.parse_tree": 4, "self.cur_guess.first_guess": 5}


def _method(cls, name):
    fns = [n for n in cls.body if isinstance(n, ast.FunctionDef) and n.name == name]
    if len(fns) != 1:
        raise TranslateError("MarkovCracker.%s not defined exactly once" % name)
    return fns[0]


def _gs_calls(fn):
    return [n for n in ast.walk(fn) if isinstance(n, ast.Call) and isinstance(n.func, ast.Name)
            and n.func.id == "GuessStructure"]


def _kw(call):
    if call.args:
        raise TranslateError("GuessStructure(..) with positional arguments at line %d" % call.lineno)
    return {k.arg: ast.dump(k.value) for k in call.keywords}


def session_fields(repo=None):
    path = os.path.join(repo or common.REPO, translate_omen_gen.SRC_MC)
    tree = ast.parse(open(path, encoding="utf-8").read(), filename=path)
    cls = translate_omen_gen._class_node(path, tree, "MarkovCracker")
    # ---- save_session: pickle.dump(<field>, file) in order
    save = _method(cls, "save_session")
    order = []
    for n in ast.walk(save):
        if isinstance(n, ast.Call) and isinstance(n.func, ast.Attribute) and n.func.attr == "dump":
            if not (isinstance(n.func.value, ast.Name) and n.func.value.id == "pickle" and len(n.args) == 2):
                raise TranslateError("%s:%d: unexpected dump call" % (path, n.lineno))
            order.append((n.lineno, n.col_offset, ast.unparse(n.args[0])))
    save_order = []
    for _l, _c, text in sorted(order):
        if text not in FIELDS:
            raise TranslateError("%s: save_session pickles %s, which the model does not know" % (path, text))
        save_order.append(FIELDS[text])
    stores = [n for n in ast.walk(save) if isinstance(n, (ast.Attribute, ast.Subscript)) and not isinstance(n.ctx, ast.Load)]
    if stores:
        raise TranslateError("%s:%d: save_session stores into an object" % (path, stores[0].lineno))
    # ---- load_session: x = pickle.load(file) in order, then the GuessStructure, then the two overwrites
    load = _method(cls, "load_session")
    loads = []
    for n in ast.walk(load):
        if isinstance(n, ast.Assign) and isinstance(n.value, ast.Call) and isinstance(n.value.func, ast.Attribute) \
                and n.value.func.attr == "load" and isinstance(n.value.func.value, ast.Name) \
                and n.value.func.value.id == "pickle" and len(n.targets) == 1:
            loads.append((n.lineno, n.col_offset, ast.unparse(n.targets[0])))
    names = {"parse_tree": 4, "first_guess": 5}
    load_order = []
    for _l, _c, text in sorted(loads):
        if text in FIELDS and FIELDS[text] <= 3:
            load_order.append(FIELDS[text])
        elif text in names:
            load_order.append(names[text])
        else:
            raise TranslateError("%s: load_session loads into %s, which the model does not know" % (path, text))
    assigns = {}
    for n in ast.walk(load):
        if isinstance(n, ast.Assign) and len(n.targets) == 1 and isinstance(n.targets[0], ast.Attribute):
            assigns.setdefault(ast.unparse(n.targets[0]), []).append(n)
    for local, target in (("parse_tree", "self.cur_guess.parse_tree"), ("first_guess", "self.cur_guess.first_guess")):
        a = assigns.get(target, [])
        if len(a) != 1 or not (isinstance(a[0].value, ast.Name) and a[0].value.id == local):
            raise TranslateError("%s: load_session does not end with `%s = %s`" % (path, target, local))
    # the GuessStructure of the loaded state: the expression assigned to self.cur_guess (a constructor call,
    # or a private helper `def h(self): return GuessStructure(..)`, which the translator inlines) must be
    # the one _increase_ip_for_target uses
    class _Subst(ast.NodeTransformer):
        def __init__(self, m):
            self.m = m

        def visit_Name(self, n):
            return self.m.get(n.id, n)

    def resolve(e, depth=0):
        if isinstance(e, ast.Call) and isinstance(e.func, ast.Attribute) and isinstance(e.func.value, ast.Name) \
                and e.func.value.id == "self" and not e.args and not e.keywords and depth < 3:
            h = translate_omen_gen.helper_body(cls, "MarkovCracker", e.func.attr)
            if h is not None:
                # the helper's locals are replaced by what they were assigned
                m = {}
                for names, exprs in h[0]:
                    vals = [_Subst(dict(m)).visit(ast.parse(ast.unparse(x), mode="eval").body) for x in exprs]
                    m.update(zip(names, vals))
                return resolve(_Subst(m).visit(ast.parse(ast.unparse(h[1]), mode="eval").body), depth + 1)
        return e

    def new_guess(fn):
        out = [n for n in ast.walk(fn) if isinstance(n, ast.Assign) and len(n.targets) == 1
               and ast.unparse(n.targets[0]) == "self.cur_guess"
               and not (isinstance(n.value, ast.Constant) and n.value.value is None)]
        if len(out) != 1:
            raise TranslateError("%s: %s: self.cur_guess is not assigned exactly once" % (path, fn.name))
        e = resolve(out[0].value)
        if not (isinstance(e, ast.Call) and isinstance(e.func, ast.Name) and e.func.id == "GuessStructure"):
            raise TranslateError("%s: %s: self.cur_guess is not set to a GuessStructure(..)" % (path, fn.name))
        return out[0], _kw(e)

    g, kw_load = new_guess(load)
    _g2, kw_ref = new_guess(_method(cls, "_increase_ip_for_target"))
    if kw_load != kw_ref:
        raise TranslateError("%s: load_session does not rebuild the GuessStructure from the loaded cursors with the "
                             "constructor call of _increase_ip_for_target" % path)
    if not (max(l for l, _c, _t in loads) < g.lineno < assigns["self.cur_guess.parse_tree"][0].lineno):
        raise TranslateError("%s: load_session: the GuessStructure must be built after the loads and before the overwrites" % path)
    return {"omen_save_order": save_order, "omen_load_order": load_order}


def extract():
    translate_omen_gen.write()
    return session_fields()
