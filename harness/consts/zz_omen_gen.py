"""Translator tie of the OMEN generator core (C10, C15): on every run the Python text of the
classes Optimizer (lib_guesser/omen/optimizer.py), GuessStructure (guess_structure.py) and
MarkovCracker (markov_cracker.py) is translated to Gallina (harness/translate_omen_gen.py, ast
only, fail closed) into coq/gen/OmenGen_opt_gen.v, OmenGen_gs_gen.v and OmenGen_mc_gen.v;
coq/theories/OmenGen*Proofs.v prove the generated definitions equal to the hand-written model of
coq/theories/Omen.v.

A file is rewritten only when its text changes (so nothing is rebuilt on an unchanged tree).
When the translation of a class fails its file is replaced by one that does not compile - no
stale definition survives - and the error is raised, which the extractor driver records for this
plugin.  No data constants are returned."""
import translate_omen_gen


def extract():
    translate_omen_gen.write()
    return {}
