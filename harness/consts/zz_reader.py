"""Translator tie of the training-file reader (C19, C07): on every run the Python
text of check_valid, TrainerFileInput.__init__ and TrainerFileInput.read_password
(lib_trainer/trainer_file_input.py) is translated to Gallina
(harness/translate_reader.py, ast only, fail closed) into coq/gen/Reader_gen.v;
coq/theories/ReaderGenProofs.v proves the generated definitions equal to the
hand-written model of coq/theories/Reader.v (read_text / check_valid), for every
file, codec oracle and --prefixcount setting.

The file is rewritten only when its text changes (nothing is rebuilt on an
unchanged tree).  When the translation fails the file is replaced by one that
does not compile - no stale definition survives - and the error is raised, which
the extractor driver records for this plugin.  No data constants are returned."""
import translate_reader


def extract():
    translate_reader.write()
    return {}
