"""Translator tie of the ruleset writers to the source (C06, C07): on every run the Python
text of lib_trainer/save_pcfg_data.py (calculate_and_save_counter, save_indexed_counters,
save_pcfg_data), base_structure.py, prince_metrics.py, the tail of
PCFGPasswordParser.parse, the Markov block / the order of the calls of run_trainer and the
section-building functions of config_file.py is translated to Gallina
(harness/translate_writer.py, ast only, fail closed) into coq/gen/Writer_gen.v,
WriterStruct_gen.v and WriterConfig_gen.v; coq/theories/WriterGenProofs*.v prove the
generated definitions equal to the hand-written models of Counters.v / TextFile.v and
restate the theorems of C06 / C07 over them.

A file is rewritten only when its text changes (nothing is rebuilt on an unchanged tree).
When a translation fails its file is replaced by one that does not compile - no stale
definition survives - and the error is raised after all groups have been written, which
the extractor driver records for this plugin.  No data constants are returned."""
import translate_writer


def extract():
    translate_writer.write_all()
    return {}
