"""Translator tie of the scorer's parse to the source (C13): on every run the Python
text of PCFGPasswordScorer.parse (lib_scorer/pcfg_password_scorer.py) is translated
to Gallina (harness/translate_scorer.py, ast only, fail closed) into
coq/gen/Scorer_gen.v; coq/theories/ScorerGenProofs.v proves the generated definition
equal to the hand-written model of coq/theories/Scorer.v (score over Segment.parse)
and coq/theories/ScorerGenInst.v restates the theorems of C13 over it.

The file is rewritten only when its text changes (so nothing is rebuilt on an
unchanged tree).  When the translation fails the file is replaced by one that
does not compile - no stale definition survives - and the error is raised, which
the extractor driver records for this plugin.  No data constants are returned."""
import translate_scorer


def extract():
    translate_scorer.write()
    return {}
