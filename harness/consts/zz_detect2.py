"""Second tie of the remaining trainer detectors to the source: on every run the Python
text of MultiWordDetector (train, _get_count, _identify_multi, parse), detect_email /
email_detection, detect_website / website_detection and the keyboard-walk detector
(lib_trainer/detection_rules/*.py) is translated to Gallina
(harness/translate_detect2.py, ast only, fail closed) into coq/gen/DetectMw_gen.v,
DetectEmail_gen.v, DetectWeb_gen.v, DetectKbd_gen.v; coq/theories/DetectGenProofsMw.v,
...Email.v, ...Web.v, ...Kbd.v prove the generated definitions equal to the hand-written
models of coq/theories/Multiword.v / Detect.v.

Each file is rewritten only when its text changes.  When the translation of one group
fails its file is replaced by one that does not compile - no stale definition survives -
the other groups are still written, and the first error is raised, which the extractor
driver records for this plugin.  No data constants are returned."""
import translate_detect2


def extract():
    translate_detect2.write()
    return {}
