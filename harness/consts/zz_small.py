"""Translator tie of three small kernels to the source: on every run the Python
text of PcfgGrammar.random_walk (lib_guesser/pcfg_grammar.py),
calculate_probabilities (lib_trainer/calculate_probabilities.py) and the filter
passes of edit_rules.py is translated to Gallina (harness/translate_small.py,
ast only, fail closed) into coq/gen/Small_walk_gen.v, Small_probs_gen.v and
Small_edit_gen.v; coq/theories/SmallGenProofs*.v prove the generated
definitions equal to the hand-written models of Honey.v, Counters.v and
EditRules.v (properties C16, C06, C20).

A file is rewritten only when its text changes (nothing is rebuilt on an
unchanged tree).  When a translation fails its file is replaced by one that does
not compile - no stale definition survives - and the error is raised after all
kernels have been written, which the extractor driver records for this plugin.
No data constants are returned."""
import translate_small


def extract():
    translate_small.write_all()
    return {}
