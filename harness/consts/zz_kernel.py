"""Second tie of the "next" kernel to the source: on every run the Python text of
_find_prob, _are_you_my_child, find_children, is_parent_around,
_recursive_restore_prob_order and initalize_base_structures (lib_guesser/pcfg_grammar.py; other
methods of the class they call are inlined at the call) is translated to
Gallina (harness/translate_kernel.py, fail closed) into coq/gen/Kernel_gen.v;
coq/theories/KernelGenProofs.v proves the generated definitions equal to the
hand-written model of coq/theories/Next.v.

The file is rewritten only when its text changes (so nothing is rebuilt on an
unchanged tree).  When the translation fails the file is replaced by one that
does not compile - no stale definition survives - and the error is raised, which
the extractor driver records for this plugin.  No data constants are returned."""
import translate_kernel


def extract():
    translate_kernel.write()
    return {}
