"""Control-flow facts of the guessing session that the combined Markov session
model (coq/theories/MarkovSession.v, property C15) takes as parameters or relies
on.  `ast` only (the sources are never imported or executed); fail closed: any
shape other than the ones described raises with file:line.

Extracted (all bool):

  session_quit_check_after_pop
      CrackingSession.run, the `while` loop that calls `self.pqueue.next()`:
      True  when the statement containing that call comes BEFORE the `if` whose
            body calls `self._save_session()` and breaks (the code as it is: the
            saved max_probability is that of the pop FOLLOWING the interrupted
            pre-terminal, which has not been guessed);
      False when that `if` comes first (the saved probability would be the
            interrupted pre-terminal's own).
      Exactly one such call and one such `if` must be direct statements of the
      loop body.  The model parameter `check_after_pop` of
      MarkovSession.interrupted.

  session_omen_restored_before_loop
      CrackingSession.run: the statement containing the call `...restore_omen(...)`
      is a direct statement of the function body placed BEFORE that `while` loop
      (True) or AFTER it (False); inside the loop or absent: raises.  The model
      parameter `omen_first` of MarkovSession.resumed_out.

  queue_next_records_popped_probability
      PcfgQueue.next: after the statement that calls `heapq.heappop`, an
      assignment `self.max_probability = <expr>` exists whose right-hand side
      mentions the popped variable and the key 'prob' (True); no assignment to
      self.max_probability in `next` (False); anything else raises.  A
      side-condition only (Props/C15.v): the model saves the popped
      pre-terminal's probability.

Insensitive to comments, docstrings, blank lines, formatting and to the names
of local variables (the popped variable is whatever name the heappop result is
bound to).  Not modelled: the bodies of the other statements of these functions
(status report, limit handling, stderr messages)."""
import ast
import os

import common


class ExtractError(Exception):
    pass


def _parse(rel):
    p = os.path.join(common.REPO, rel)
    return p, ast.parse(open(p, encoding="utf-8").read(), filename=p)


def _method(tree, cls, name, path):
    for n in ast.walk(tree):
        if isinstance(n, ast.ClassDef) and n.name == cls:
            for m in n.body:
                if isinstance(m, ast.FunctionDef) and m.name == name:
                    return m
    raise ExtractError("%s: %s.%s not found" % (path, cls, name))


def _calls_attr(node, attr):
    """Does the subtree contain a call  <something>.attr(...) ?"""
    return any(isinstance(n, ast.Call) and isinstance(n.func, ast.Attribute) and n.func.attr == attr
               for n in ast.walk(node))


def _is_pqueue_next(node):
    return any(isinstance(n, ast.Call) and isinstance(n.func, ast.Attribute) and n.func.attr == "next"
               and isinstance(n.func.value, ast.Attribute) and n.func.value.attr == "pqueue"
               for n in ast.walk(node))


def extract():
    C = {}
    path, tree = _parse("lib_guesser/cracking_session.py")
    run = _method(tree, "CrackingSession", "run", path)
    loops = [(i, s) for i, s in enumerate(run.body) if isinstance(s, ast.While) and _is_pqueue_next(s)]
    if len(loops) != 1:
        raise ExtractError("%s:%d: expected exactly one top-level while loop calling self.pqueue.next() in run, found %d"
                           % (path, run.lineno, len(loops)))
    li, loop = loops[0]
    pops = [i for i, s in enumerate(loop.body) if _is_pqueue_next(s)]
    saves = [i for i, s in enumerate(loop.body)
             if isinstance(s, ast.If) and any(_calls_attr(b, "_save_session") for b in s.body)
             and any(isinstance(b, ast.Break) for b in s.body)]
    if len(pops) != 1 or len(saves) != 1 or pops[0] == saves[0]:
        raise ExtractError("%s:%d: session loop: expected one statement calling self.pqueue.next() and one "
                           "`if ...: self._save_session(); break` as direct statements of the loop (found %d / %d)"
                           % (path, loop.lineno, len(pops), len(saves)))
    # a save/break hidden anywhere else in the loop would make the order ambiguous
    other = [s for i, s in enumerate(loop.body) if i != saves[0] and _calls_attr(s, "_save_session")]
    if other:
        raise ExtractError("%s:%d: session loop: another statement calls _save_session" % (path, other[0].lineno))
    C["session_quit_check_after_pop"] = pops[0] < saves[0]
    # restore_omen relative to the loop
    rest = [i for i, s in enumerate(run.body) if _calls_attr(s, "restore_omen")]
    if len(rest) != 1:
        raise ExtractError("%s:%d: run: expected exactly one top-level statement calling restore_omen, found %d"
                           % (path, run.lineno, len(rest)))
    if rest[0] == li:
        raise ExtractError("%s:%d: run: restore_omen is called inside the session loop" % (path, loop.lineno))
    C["session_omen_restored_before_loop"] = rest[0] < li
    # PcfgQueue.next
    path, tree = _parse("lib_guesser/priority_queue.py")
    nxt = _method(tree, "PcfgQueue", "next", path)
    popped = None
    pop_at = None
    for i, s in enumerate(nxt.body):
        if isinstance(s, ast.Assign) and len(s.targets) == 1 and isinstance(s.targets[0], ast.Name) \
                and isinstance(s.value, ast.Call) and isinstance(s.value.func, ast.Attribute) \
                and s.value.func.attr == "heappop":
            if popped is not None:
                raise ExtractError("%s:%d: PcfgQueue.next: more than one heappop" % (path, s.lineno))
            popped, pop_at = s.targets[0].id, i
    if popped is None:
        raise ExtractError("%s:%d: PcfgQueue.next: no `x = heapq.heappop(...)` statement" % (path, nxt.lineno))
    assigns = []
    for i, s in enumerate(nxt.body):
        for n in ast.walk(s):
            if isinstance(n, ast.Assign) and any(isinstance(t, ast.Attribute) and t.attr == "max_probability"
                                                 and isinstance(t.value, ast.Name) and t.value.id == "self"
                                                 for t in n.targets):
                assigns.append((i, n))
    if not assigns:
        C["queue_next_records_popped_probability"] = False
    elif len(assigns) == 1:
        i, n = assigns[0]
        names = {x.id for x in ast.walk(n.value) if isinstance(x, ast.Name)}
        keys = {x.value for x in ast.walk(n.value) if isinstance(x, ast.Constant)}
        if i > pop_at and popped in names and "prob" in keys and n is nxt.body[i]:
            C["queue_next_records_popped_probability"] = True
        else:
            raise ExtractError("%s:%d: PcfgQueue.next: unexpected assignment to self.max_probability: %s"
                               % (path, n.lineno, ast.unparse(n)))
    else:
        raise ExtractError("%s:%d: PcfgQueue.next: several assignments to self.max_probability" % (path, nxt.lineno))
    return C
