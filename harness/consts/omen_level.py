"""Constants of the OMEN level / keyspace code (C11, C18), extracted by ast
from the current /repo sources.  Fail closed.

The four functions that harness/translate_omen_level.py translates to Gallina
(find_omen_level, _rec_calc_keyspace, calc_omen_keyspace, OmenScorer.parse) are
NOT shape-checked here any more: their tie to the source is the translation plus
the equality proofs of OmenLevelGenProofs.v / OmenKeyspaceGenProofs.v, which hold
for every behaviour-preserving way of writing them that the translator accepts
and the proofs follow.  The two comparisons of calc_omen_keyspace that the model
of C18 has as parameters (keyspace_ip_guard_strict, keyspace_len_skip_le) are
read off the TRANSLATION of calc_omen_keyspace (where `x > 0` / `0 < x` and the
names of locals are already normalised away); the defaults come from the def
line.  The functions that are not translated (the guesser's loader, the way the
scorer opens its files, the probability written to pcfg_omen_prob.txt) keep
their checks; the last one is now tied by the translation of save_omen_rules_to_disk
(harness/translate_omen_trainer.py), _check_prob_formula below is kept for reference only."""
import ast
import copy
import os
import re

import common


class ExtractError(Exception):
    pass


def _func(tree, name):
    for n in ast.walk(tree):
        if isinstance(n, ast.FunctionDef) and n.name == name:
            return n
    raise ExtractError("function %s not found" % name)


def _shape(fn):
    """comparisons, loop headers and selected calls of a function, in ast.walk order"""
    cmp_, loops, calls = [], [], []
    for m in ast.walk(fn):
        if isinstance(m, ast.Compare):
            cmp_.append(ast.unparse(m))
        elif isinstance(m, ast.For):
            loops.append(ast.unparse(m.iter))
        elif isinstance(m, ast.While):
            loops.append(ast.unparse(m.test))
        elif isinstance(m, ast.Call) and isinstance(m.func, ast.Name) and m.func.id == "_rec_calc_keyspace":
            calls.append(ast.unparse(m))
    return cmp_, loops, calls


def _expect(what, got, want):
    if got != want:
        raise ExtractError("%s: unexpected shape %r (modelled: %r)" % (what, got, want))


def _pick(what, got, options):
    for k, v in options.items():
        if got == k:
            return v
    raise ExtractError("%s: unexpected comparison %r (known: %r)" % (what, got, list(options)))


class _Subst(ast.NodeTransformer):
    def __init__(self, env, item):
        self.env, self.item = env, item

    def visit_Subscript(self, n):
        if self.item and isinstance(n.value, ast.Name) and n.value.id == self.item and isinstance(n.slice, ast.Constant) \
                and n.slice.value in (0, 1) and type(n.slice.value) is int:
            return ast.Name(id="LEVEL" if n.slice.value == 0 else "KEYSPACE", ctx=ast.Load())
        return self.generic_visit(n)

    def visit_Name(self, n):
        if isinstance(n.ctx, ast.Load) and n.id in self.env:
            return copy.deepcopy(self.env[n.id])
        return n


def _check_prob_formula(fn):
    loops = [n for n in ast.walk(fn) if isinstance(n, ast.For) and isinstance(n.iter, ast.Call)
             and isinstance(n.iter.func, ast.Attribute) and n.iter.func.attr == "items" and not n.iter.args
             and isinstance(n.iter.func.value, ast.Name) and n.iter.func.value.id == "omen_keyspace"]
    if len(loops) != 1 or loops[0].orelse:
        raise ExtractError("save_omen_rules_to_disk: expected one loop over omen_keyspace.items()")
    loop = loops[0]
    env, item = {}, None
    t = loop.target
    if isinstance(t, ast.Name):
        item = t.id
    elif isinstance(t, ast.Tuple) and len(t.elts) == 2 and all(isinstance(x, ast.Name) for x in t.elts):
        env[t.elts[0].id] = ast.Name(id="LEVEL", ctx=ast.Load())
        env[t.elts[1].id] = ast.Name(id="KEYSPACE", ctx=ast.Load())
    else:
        raise ExtractError("save_omen_rules_to_disk: unexpected loop target %s" % ast.unparse(t))
    found = {"guard": 0, "store": 0}

    def sub(e):
        return ast.unparse(_Subst(env, item).visit(copy.deepcopy(e)))

    def block(stmts, guarded):
        for i, st in enumerate(stmts):
            if isinstance(st, ast.Expr) and isinstance(st.value, ast.Constant):
                continue
            if isinstance(st, ast.Assign) and len(st.targets) == 1 and isinstance(st.targets[0], ast.Name):
                if st.targets[0].id == item:
                    raise ExtractError("save_omen_rules_to_disk: the loop variable is rebound")
                env[st.targets[0].id] = _Subst(env, item).visit(copy.deepcopy(st.value))
                continue
            if isinstance(st, ast.If) and not st.orelse:
                test = sub(st.test)
                if test in ("KEYSPACE == 0", "0 == KEYSPACE") and len(st.body) == 1 and isinstance(st.body[0], ast.Continue) \
                        and not guarded:
                    found["guard"] += 1
                    block(stmts[i + 1:], True)
                    return
                if test in ("KEYSPACE != 0", "0 != KEYSPACE", "not KEYSPACE == 0") and not guarded and i == len(stmts) - 1:
                    found["guard"] += 1
                    block(st.body, True)
                    return
                raise ExtractError("save_omen_rules_to_disk: unexpected condition `%s`" % test)
            if isinstance(st, ast.Assign) and len(st.targets) == 1 and isinstance(st.targets[0], ast.Subscript) \
                    and isinstance(st.targets[0].value, ast.Name) and st.targets[0].value.id == "pcfg_omen_prob":
                key, val = sub(st.targets[0].slice), sub(st.value)
                if not guarded or key != "LEVEL" or val != "omen_levels_count[LEVEL] / num_valid_passwords / KEYSPACE":
                    raise ExtractError("save_omen_rules_to_disk: pcfg_omen_prob[%s] = %s%s is not the modelled "
                                       "(omen_levels_count[level] / num_valid_passwords) / keyspace under keyspace != 0"
                                       % (key, val, "" if guarded else " (unguarded)"))
                found["store"] += 1
                continue
            raise ExtractError("save_omen_rules_to_disk: unexpected statement in the probability loop: %s"
                               % ast.unparse(st).split("\n")[0])

    block(list(loop.body), False)
    if found != {"guard": 1, "store": 1}:
        raise ExtractError("save_omen_rules_to_disk: probability loop not as modelled (%r)" % found)
    stores = [n for n in ast.walk(fn) if isinstance(n, ast.Subscript) and isinstance(n.ctx, ast.Store)
              and isinstance(n.value, ast.Name) and n.value.id == "pcfg_omen_prob"]
    if len(stores) != 1:
        raise ExtractError("save_omen_rules_to_disk: pcfg_omen_prob is stored into at %d places" % len(stores))


def extract():
    C = {}
    src = lambda rel: ast.parse(open(os.path.join(common.REPO, rel), encoding="utf-8").read())
    ev = src("lib_trainer/omen/evaluate_password.py")

    # calc_omen_keyspace: the two comparisons the model is parameterised by, from its translation
    # (harness/translate_omen_level.py: `a > b` is rendered as `(b <? a)`, locals keep no meaning)
    f = _func(ev, "calc_omen_keyspace")
    import translate_omen_level as tol
    try:
        text = tol.render(tol.OUT_KEYSPACE)
    except Exception as e:
        raise ExtractError("calc_omen_keyspace / _rec_calc_keyspace cannot be translated: %s" % e)
    body = text[text.index("Definition py_calc_omen_keyspace"):]
    # `if level_minus_ip >= 0:` -> `if ((0%Z) <=? level_minus_ip)%Z then`,  `> 0` -> `<?`
    ipg = re.findall(r"^\s*if \(\(0%Z\) (<=\?|<\?) \(?\w+\)?\)%Z then", body, re.M)
    if len(ipg) != 1:
        raise ExtractError("calc_omen_keyspace: expected exactly one guard `<level - ip_level> >= 0` / `> 0`, found %r" % (ipg,))
    C["keyspace_ip_guard_strict"] = ipg[0] == "<?"
    # `if length < omen_trainer.ngram: continue` -> `if (length <? (Z.of_nat (tt_ngram omen_trainer)))%Z then` + Continue
    # (the n-gram size may have been given a local name first)
    ngram_names = re.findall(r"let (\w+) := Z\.of_nat \(tt_ngram \w+\) in", body)
    ngram_alt = "|".join([r"\(Z\.of_nat \(tt_ngram \w+\)\)"] + [re.escape(n) for n in ngram_names])
    skip = re.findall(r"^\s*if \(\(?\w+\)? (<=\?|<\?) (?:%s)\)%%Z then[^\n]*\n\s*Ok \(Continue " % ngram_alt, body, re.M)
    if not skip:
        # the skip merged into the test of the following if: `if length >= ngram and ...:` -> `if ((ngram <=? length)%Z) && ...`
        # (length >= ngram is the negation of the skip `length < ngram`; length > ngram of `length <= ngram`)
        merged = re.findall(r"^\s*if \(\(\((?:%s) (<=\?|<\?) \(?\w+\)?\)%%Z\) && " % ngram_alt, body, re.M)
        skip = [{"<=?": "<?", "<?": "<=?"}[m] for m in merged]
    if len(skip) != 1:
        raise ExtractError("calc_omen_keyspace: expected exactly one skip `if length < ngram: continue` / `<=`, found %r" % (skip,))
    C["keyspace_len_skip_le"] = skip[0] == "<=?"
    d = [ast.literal_eval(a) for a in f.args.defaults]
    if len(d) != 2 or not all(isinstance(x, int) for x in d):
        raise ExtractError("calc_omen_keyspace defaults %r" % (d,))
    C["keyspace_default_max_level"] = d[0]
    C["keyspace_default_max_keyspace"] = [d[1]]      # rendered as list N (too large for nat)

    # scorer (OmenScorer.parse is translated; only the way _load_omen opens its files is read here)
    sc = src("lib_scorer/omen_scorer.py")

    # guesser loader
    gi = src("lib_guesser/omen/input_file_io.py")
    # parameter names are free (located by POSITION: base_directory, filename, grammar, name, min_size); the
    # function as a whole is translated and proved equal to its model by harness/translate_loader2.py (T19)
    import copy
    ll = copy.deepcopy(_func(gi, "_load_length"))
    canon = ["base_directory", "filename", "grammar", "name", "min_size"]
    if len(ll.args.args) != len(canon):
        raise ExtractError("_load_length: %d parameters, modelled %d" % (len(ll.args.args), len(canon)))
    ren = {a.arg: c0 for a, c0 in zip(ll.args.args, canon)}
    if len(set(ren)) != len(canon) or (set(canon) - set(ren)) & {n.id for n in ast.walk(ll) if isinstance(n, ast.Name)}:
        raise ExtractError("_load_length: parameter names clash with the canonical ones")
    for n in ast.walk(ll):
        if isinstance(n, ast.Name) and n.id in ren:
            n.id = ren[n.id]
    # the comparisons of _load_length are no longer text-matched here: the whole function is translated on every run
    # and proved equal to TextFile.ln_levels / ln_guesser (harness/translate_loader2.py, Loader2GenProofs.omen_load_length_eq),
    # which accepts equivalent ways of writing them (chained comparison, enumerate, a local for grammar['max_level'])
    ml = None
    for n in ast.walk(_func(gi, "_load_config")):
        if isinstance(n, ast.Assign) and ast.unparse(n.targets[0]) == "grammar['max_level']":
            ml = ast.literal_eval(n.value)
    if not isinstance(ml, int):
        raise ExtractError("_load_config: max_level not found")
    C["guesser_max_level_src"] = ml

    # ---- line framing / codec of the three readers (C11)
    # scorer: how IP.level / CP.level are opened
    lo = _func(sc, "_load_omen")
    opens = [ast.unparse(n) for n in ast.walk(lo) if isinstance(n, ast.Call) and
             ((isinstance(n.func, ast.Name) and n.func.id == "open") or
              (isinstance(n.func, ast.Attribute) and n.func.attr == "open"))]
    if len(opens) != 3:
        raise ExtractError("OmenScorer._load_omen: %d open calls, modelled 3: %r" % (len(opens), opens))
    enc_ok = {"codecs.open(full_file_path, 'r', encoding=self.encoding)", "open(full_file_path, 'r', encoding=self.encoding)",
              "codecs.open(full_file_path, 'r', encoding=self.encoding, errors='strict')",
              "open(full_file_path, 'r', encoding=self.encoding, errors='strict')"}
    plain = "open(full_file_path, 'r')"
    flags = []
    for o in opens[:2]:      # IP.level, CP.level (LN.level holds digits only)
        if o in enc_ok:
            flags.append(True)
        elif o == plain:
            flags.append(False)
        else:
            raise ExtractError("OmenScorer._load_omen: unexpected open call %r" % o)
    C["scorer_opens_with_ruleset_encoding"] = all(flags)
    # universal newlines (text mode, newline=None) unless codecs.open is used; the model's scorer_breaks is LF, CR:
    # with codecs.open the scorer would split like the guesser
    C["scorer_uses_codecs_reader"] = any(o.startswith("codecs.open") for o in opens[:2])
    # guesser: _load_ngrams must iterate a codecs.open file (str.splitlines line ends)
    ng = _func(gi, "_load_ngrams")
    gopens = [ast.unparse(n) for n in ast.walk(ng) if isinstance(n, ast.Call) and isinstance(n.func, ast.Attribute)
              and n.func.attr == "open"]
    _expect("_load_ngrams open", gopens, ["codecs.open(full_file_path, 'r', encoding=grammar['alphabet_encoding'], errors='strict')"])
    # the characters str.splitlines (codecs readline) ends a line at, probed from the running interpreter
    allc = "".join(chr(c) for c in range(0x110000) if not 0xD800 <= c <= 0xDFFF)
    br = sorted({ord(l[-1]) for l in ("x".join(allc) + "x").splitlines(True) if l and l[-1] != "x"})
    if 10 not in br or 13 not in br or len(br) > 64:
        raise ExtractError("unexpected line-break set %r" % br)
    C["guesser_linebreaks"] = br
    # the characters the trainer never admits into a password (check_valid)
    tf = src("lib_trainer/trainer_file_input.py")
    cv = _func(tf, "check_valid")
    import importlib
    common.repo_on_path()
    tfi = importlib.import_module("lib_trainer.trainer_file_input")
    rej = sorted(c for c in set(range(0, 0x3000)) | {0x2028, 0x2029, 0x85} if not tfi.check_valid("a" + chr(c) + "b"))
    if 9 not in rej:
        raise ExtractError("check_valid admits TAB")
    C["trainer_rejected_chars"] = rej

    # the probability written to pcfg_omen_prob.txt is no longer shape-checked here: save_omen_rules_to_disk is
    # translated (harness/translate_omen_trainer.py -> gen/OmenTrainerOut_gen.v) and proved equal to the model
    # whose probability loop is OmenKeyspace.omen_prob (Props/C18.v: C18_source_prob_loop_is_model)
    return C
