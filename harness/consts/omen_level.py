"""Constants of the OMEN level / keyspace code (C11, C18), extracted by ast
from the current /repo sources.  Fail closed: every comparison, loop header
and recursive call of the modelled functions must have one of the shapes the
Gallina models (OmenLevel.v, OmenKeyspace.v) transcribe; the two comparisons
the property C18 depends on are exported as booleans, the rest must be exactly
as modelled or extraction raises (the check then reports a broken tie)."""
import ast
import os

import common


class ExtractError(Exception):
    pass


def _func(tree, name):
    for n in ast.walk(tree):
        if isinstance(n, ast.FunctionDef) and n.name == name:
            return n
    raise ExtractError("function %s not found" % name)


def _shape(fn):
    """comparisons, loop headers and selected calls of a function, in ast.walk order"""
    cmp_, loops, calls = [], [], []
    for m in ast.walk(fn):
        if isinstance(m, ast.Compare):
            cmp_.append(ast.unparse(m))
        elif isinstance(m, ast.For):
            loops.append(ast.unparse(m.iter))
        elif isinstance(m, ast.While):
            loops.append(ast.unparse(m.test))
        elif isinstance(m, ast.Call) and isinstance(m.func, ast.Name) and m.func.id == "_rec_calc_keyspace":
            calls.append(ast.unparse(m))
    return cmp_, loops, calls


def _expect(what, got, want):
    if got != want:
        raise ExtractError("%s: unexpected shape %r (modelled: %r)" % (what, got, want))


def _pick(what, got, options):
    for k, v in options.items():
        if got == k:
            return v
    raise ExtractError("%s: unexpected comparison %r (known: %r)" % (what, got, list(options)))


def extract():
    C = {}
    src = lambda rel: ast.parse(open(os.path.join(common.REPO, rel), encoding="utf-8").read())
    ev = src("lib_trainer/omen/evaluate_password.py")

    # find_omen_level
    c, l, _ = _shape(_func(ev, "find_omen_level"))
    _expect("find_omen_level comparisons", c,
            ["pw_len < omen_trainer.min_length", "pw_len > omen_trainer.max_length", "end_pos <= pw_len"])
    _expect("find_omen_level loops", l, ["end_pos <= pw_len"])

    # _rec_calc_keyspace
    c, l, k = _shape(_func(ev, "_rec_calc_keyspace"))
    _expect("_rec_calc_keyspace comparisons", c,
            ["'keyspace_cache' not in omen_trainer.grammar[ip]",
             "length not in omen_trainer.grammar[ip]['keyspace_cache']",
             "level in omen_trainer.grammar[ip]['keyspace_cache'][length]",
             "length == 1", "letter_level[0] == level", "letter_level[0] <= level"])
    _expect("_rec_calc_keyspace loops", l, ["omen_trainer.grammar[ip]['next_letter'].items()"] * 2)
    _expect("_rec_calc_keyspace recursion", k,
            ["_rec_calc_keyspace(omen_trainer, level - letter_level[0], length - 1, ip[1:] + last_letter)"])

    # calc_omen_keyspace
    f = _func(ev, "calc_omen_keyspace")
    c, l, k = _shape(f)
    if len(c) != 4:
        raise ExtractError("calc_omen_keyspace: %d comparisons, modelled 4: %r" % (len(c), c))
    C["keyspace_ip_guard_strict"] = _pick("calc_omen_keyspace IP guard", c[0],
                                          {"level_minus_ip > 0": True, "level_minus_ip >= 0": False})
    C["keyspace_len_skip_le"] = _pick("calc_omen_keyspace length skip", c[1],
                                      {"length <= omen_trainer.ngram": True, "length < omen_trainer.ngram": False})
    _expect("calc_omen_keyspace length guard", c[2], "length_info[0] <= level_minus_ip")
    _expect("calc_omen_keyspace cut-off", c[3], "keyspace[level] > max_keyspace")
    _expect("calc_omen_keyspace loops", l,
            ["range(1, max_level + 1)", "omen_trainer.grammar.items()", "enumerate(omen_trainer.ln_lookup)"])
    _expect("calc_omen_keyspace call", k,
            ["_rec_calc_keyspace(omen_trainer, level_minus_ip - length_info[0], length - omen_trainer.ngram + 1, ip)"])
    d = [ast.literal_eval(a) for a in f.args.defaults]
    if len(d) != 2 or not all(isinstance(x, int) for x in d):
        raise ExtractError("calc_omen_keyspace defaults %r" % (d,))
    C["keyspace_default_max_level"] = d[0]
    C["keyspace_default_max_keyspace"] = [d[1]]      # rendered as list N (too large for nat)

    # scorer
    sc = src("lib_scorer/omen_scorer.py")
    c, l, _ = _shape(_func(sc, "parse"))
    _expect("OmenScorer.parse comparisons", c, ["pass_len < self.ngram", "pass_len > self.max_len", "end_pos <= pass_len"])
    _expect("OmenScorer.parse loops", l, ["end_pos <= pass_len"])

    # guesser loader
    gi = src("lib_guesser/omen/input_file_io.py")
    c, _, _ = _shape(_func(gi, "_load_length"))
    _expect("_load_length comparisons", c, ["cur_length >= min_size", "level < 0", "level > grammar['max_level']"])
    ml = None
    for n in ast.walk(_func(gi, "_load_config")):
        if isinstance(n, ast.Assign) and ast.unparse(n.targets[0]) == "grammar['max_level']":
            ml = ast.literal_eval(n.value)
    if not isinstance(ml, int):
        raise ExtractError("_load_config: max_level not found")
    C["guesser_max_level_src"] = ml

    # ---- line framing / codec of the three readers (C11)
    # scorer: how IP.level / CP.level are opened
    lo = _func(sc, "_load_omen")
    opens = [ast.unparse(n) for n in ast.walk(lo) if isinstance(n, ast.Call) and
             ((isinstance(n.func, ast.Name) and n.func.id == "open") or
              (isinstance(n.func, ast.Attribute) and n.func.attr == "open"))]
    if len(opens) != 3:
        raise ExtractError("OmenScorer._load_omen: %d open calls, modelled 3: %r" % (len(opens), opens))
    enc_ok = {"codecs.open(full_file_path, 'r', encoding=self.encoding)", "open(full_file_path, 'r', encoding=self.encoding)",
              "codecs.open(full_file_path, 'r', encoding=self.encoding, errors='strict')",
              "open(full_file_path, 'r', encoding=self.encoding, errors='strict')"}
    plain = "open(full_file_path, 'r')"
    flags = []
    for o in opens[:2]:      # IP.level, CP.level (LN.level holds digits only)
        if o in enc_ok:
            flags.append(True)
        elif o == plain:
            flags.append(False)
        else:
            raise ExtractError("OmenScorer._load_omen: unexpected open call %r" % o)
    C["scorer_opens_with_ruleset_encoding"] = all(flags)
    # universal newlines (text mode, newline=None) unless codecs.open is used; the model's scorer_breaks is LF, CR:
    # with codecs.open the scorer would split like the guesser
    C["scorer_uses_codecs_reader"] = any(o.startswith("codecs.open") for o in opens[:2])
    # guesser: _load_ngrams must iterate a codecs.open file (str.splitlines line ends)
    ng = _func(gi, "_load_ngrams")
    gopens = [ast.unparse(n) for n in ast.walk(ng) if isinstance(n, ast.Call) and isinstance(n.func, ast.Attribute)
              and n.func.attr == "open"]
    _expect("_load_ngrams open", gopens, ["codecs.open(full_file_path, 'r', encoding=grammar['alphabet_encoding'], errors='strict')"])
    # the characters str.splitlines (codecs readline) ends a line at, probed from the running interpreter
    allc = "".join(chr(c) for c in range(0x110000) if not 0xD800 <= c <= 0xDFFF)
    br = sorted({ord(l[-1]) for l in ("x".join(allc) + "x").splitlines(True) if l and l[-1] != "x"})
    if 10 not in br or 13 not in br or len(br) > 64:
        raise ExtractError("unexpected line-break set %r" % br)
    C["guesser_linebreaks"] = br
    # the characters the trainer never admits into a password (check_valid)
    tf = src("lib_trainer/trainer_file_input.py")
    cv = _func(tf, "check_valid")
    import importlib
    common.repo_on_path()
    tfi = importlib.import_module("lib_trainer.trainer_file_input")
    rej = sorted(c for c in set(range(0, 0x3000)) | {0x2028, 0x2029, 0x85} if not tfi.check_valid("a" + chr(c) + "b"))
    if 9 not in rej:
        raise ExtractError("check_valid admits TAB")
    C["trainer_rejected_chars"] = rej

    # probability written to pcfg_omen_prob.txt
    fo = _func(src("lib_trainer/omen/omen_file_output.py"), "save_omen_rules_to_disk")
    assigns = [ast.unparse(n) for n in ast.walk(fo) if isinstance(n, ast.Assign)]
    for want in ["percentage_cracked = num_instances / num_valid_passwords",
                 "pcfg_omen_prob[level] = percentage_cracked / keyspace",
                 "num_instances = omen_levels_count[level]"]:
        if want not in assigns:
            raise ExtractError("save_omen_rules_to_disk: `%s` not found" % want)
    return C
