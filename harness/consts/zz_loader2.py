"""Translator tie of the remaining readers of a ruleset to the source: on every run the Python
text of lib_guesser/omen/input_file_io.py (load_rules and its four helpers),
lib_scorer/omen_scorer.py (OmenScorer.__init__ / _load_omen), lib_scorer/grammar_io.py
(load_grammar, _load_from_multiple_files) and lib_guesser/grammar_io.py (load_grammar,
_load_terminals, _load_config, _load_from_multiple_files) is translated to Gallina
(harness/translate_loader2.py, ast only, fail closed) into coq/gen/Loader2_gen.v;
coq/theories/Loader2GenProofs.v proves the generated definitions equal to the hand-written
readers of TextFile.v / Loader2Model.v (properties C07, C10, C11, C04).

The file is rewritten only when its text changes (nothing is rebuilt on an unchanged tree).
When the translation fails the file is replaced by one that does not compile - no stale
definition survives - and the error is raised, which the extractor driver records for this
plugin.  No data constants are returned."""
import translate_loader2


def extract():
    translate_loader2.write()
    return {}
