"""Constants / control-flow facts of the guesser extracted from the sources."""
import ast
import os

import common


class ExtractError(Exception):
    pass


def _parse(rel):
    p = os.path.join(common.REPO, rel)
    return ast.parse(open(p, encoding="utf-8").read(), filename=p)


def _func(tree, name):
    for n in ast.walk(tree):
        if isinstance(n, ast.FunctionDef) and n.name == name:
            return n
    raise ExtractError("function %s not found" % name)


def _is_seek0(node):
    return (isinstance(node, ast.Expr) and isinstance(node.value, ast.Call)
            and isinstance(node.value.func, ast.Attribute) and node.value.func.attr == "seek"
            and len(node.value.args) == 1 and isinstance(node.value.args[0], ast.Constant)
            and node.value.args[0].value == 0)


def extract():
    """Every group of constants is extracted on its own: a source shape one of them does not recognise leaves only
    THAT constant out (the Coq files and properties that use it stop compiling - fail closed for the dependants only),
    not the constants of unrelated functions.  Before, a refactoring of random_walk (property C16) also took the
    session constants of C12 / C17 with it."""
    C, errors = {}, []
    for part in (_part_load_base, _part_load_save, _part_session_quit, _part_prince, _part_random_walk):
        try:
            part(C)
        except Exception as e:          # ExtractError and anything unexpected in the source
            errors.append("%s: %s: %s" % (part.__name__, type(e).__name__, e))
    extract.errors = errors
    if errors:
        import sys
        print("harness/consts/guesser.py: constants left out (their dependants will not compile): " + "; ".join(errors),
              file=sys.stderr)
    if not C:
        raise ExtractError("; ".join(errors))
    return C


def _part_load_base(C):
    # --- _load_base_structures: does the first scan rewind when no 'M' line exists?
    f = _func(_parse("lib_guesser/grammar_io.py"), "_load_base_structures")
    scans = []
    # the flag is the THIRD parameter, whatever it is called (harness/translate_loader.py binds the
    # parameters by position too, so a renamed parameter is not an alarm)
    if len(f.args.args) != 4:
        raise ExtractError("_load_base_structures: expected four parameters")
    flag = f.args.args[2].arg
    for n in ast.walk(f):
        if isinstance(n, ast.If) and isinstance(n.test, ast.Name) and n.test.id == flag:
            scans.append(n)
    if len(scans) != 1:
        raise ExtractError("_load_base_structures: expected exactly one `if skip_brute:` block")
    body = scans[0].body
    loops = [i for i, s in enumerate(body) if isinstance(s, ast.For)]
    if len(loops) != 1:
        raise ExtractError("_load_base_structures: expected one scan loop under skip_brute")
    loop = body[loops[0]]
    in_if = any(_is_seek0(s) for n in ast.walk(loop) if isinstance(n, ast.If) for s in n.body)
    in_else = any(_is_seek0(s) for s in loop.orelse)
    after = any(_is_seek0(s) for s in body[loops[0] + 1:])
    if not (in_if or after):
        raise ExtractError("_load_base_structures: no rewind after finding M")
    C["skip_brute_rewinds_without_M"] = bool(in_else or after)


def _part_load_save(C):
    # --- pcfg_guesser.main: is the save file read before the grammar is built?
    m = _func(_parse("pcfg_guesser.py"), "main")
    calls = {}
    for n in ast.walk(m):
        if isinstance(n, ast.Call) and isinstance(n.func, ast.Name) and n.func.id in ("load_save", "PcfgGrammar"):
            calls.setdefault(n.func.id, []).append(n.lineno)
    if "load_save" not in calls or "PcfgGrammar" not in calls or len(calls["PcfgGrammar"]) != 1:
        raise ExtractError("pcfg_guesser.main: load_save / PcfgGrammar calls not found as expected")
    C["load_save_before_grammar"] = min(calls["load_save"]) < calls["PcfgGrammar"][0]


def _part_session_quit(C):
    # --- CrackingSession.run: what does the main loop test to decide to quit?
    cs = _parse("lib_guesser/cracking_session.py")
    run = None
    for n in ast.walk(cs):
        if isinstance(n, ast.ClassDef) and n.name == "CrackingSession":
            for m2 in n.body:
                if isinstance(m2, ast.FunctionDef) and m2.name == "run":
                    run = m2
    if run is None:
        raise ExtractError("CrackingSession.run not found")
    tests = []
    for n in ast.walk(run):
        if isinstance(n, ast.If) and any(isinstance(b, ast.Break) for b in n.body) and \
                any(isinstance(b, ast.Expr) and isinstance(b.value, ast.Call) and
                    isinstance(b.value.func, ast.Attribute) and b.value.func.attr == "_save_session" for b in n.body):
            tests.append(ast.unparse(n.test))
    if tests == ["not user_thread.is_alive()"]:
        C["session_polls_quit_flag"] = False
    elif tests == ["self.pcfg.should_exit"]:
        C["session_polls_quit_flag"] = True
    else:
        raise ExtractError("CrackingSession.run: unexpected quit test(s) %r" % tests)


def _part_prince(C):
    # --- create_prince_wordlist: is the remaining size passed to create_guesses?
    pl = _func(_parse("lib_princeling/wordlist_generation.py"), "create_prince_wordlist")
    calls = [n for n in ast.walk(pl) if isinstance(n, ast.Call) and isinstance(n.func, ast.Attribute)
             and n.func.attr == "create_guesses"]
    if len(calls) != 1:
        raise ExtractError("create_prince_wordlist: expected one create_guesses call")
    kw = {k.arg: ast.unparse(k.value) for k in calls[0].keywords}
    if "limit" not in kw and len(calls[0].args) == 1:
        C["prince_passes_remaining_size"] = False
    elif "limit" in kw and kw["limit"] != "None":
        # SOME limit is passed.  WHAT is passed (max_size - num_generated_guesses, under whatever local names) is
        # decided by the translator tie of the function itself (harness/translate_session.py ->
        # gen/SessionPrince_gen.v, SessionPrinceGenProofs.prince_eq); the shape check that used to be here raised on
        # harmless renames of the locals
        C["prince_passes_remaining_size"] = True
    else:
        raise ExtractError("create_prince_wordlist: unexpected create_guesses arguments %r" % kw)


def _part_random_walk(C):
    # --- random_walk: what happens when rounding leaves the running sum below the draw?
    rw = None
    for n in ast.walk(_parse("lib_guesser/pcfg_grammar.py")):
        if isinstance(n, ast.FunctionDef) and n.name == "random_walk":
            rw = n
    if rw is None:
        raise ExtractError("random_walk not found")
    C["walk_fallback_last"] = _walk_fallback(rw)
    return C


def _walk_fallback(rw):
    """Does each of the two selection loops of random_walk fall back to the LAST entry when the
    running sum never reaches the draw?  Independent of variable names.  A selection loop is a
    for loop with, directly in its body, an `if` that ends in `break`.  Two spellings of the
    fall-back are recognised:
      * a for ... else block;
      * a sentinel: `x = None` before the loop, `x = <entry>` in the breaking branch and, as the
        next statement after the loop, `if x is None: x = <...>[-1]`;
      * a default: `x = len(<list>) - 1` before the loop and `x = <index>` in the breaking branch.
    (That the selected entry IS what the model selects is established by the translator tie,
    harness/translate_small.py + SmallGenProofsWalk.v; this constant only picks the variant of
    the model the correspondence runs.)"""
    def breaking_if(loop):
        for b in loop.body:
            if isinstance(b, ast.If) and b.body and isinstance(b.body[-1], ast.Break):
                return b
        return None

    # every statement list of the function, to find what follows a loop
    blocks = []
    for n in ast.walk(rw):
        for fld in ("body", "orelse", "finalbody"):
            v = getattr(n, fld, None)
            if isinstance(v, list) and v and isinstance(v[0], ast.stmt):
                blocks.append(v)

    def sentinel_fallback(loop):
        br = breaking_if(loop)
        set_in_branch = {t.id for st in br.body if isinstance(st, ast.Assign)
                         for t in st.targets if isinstance(t, ast.Name)}
        for blk in blocks:
            for i, st in enumerate(blk):
                if st is not loop:
                    continue
                none_before = {t.id for prev in blk[:i] if isinstance(prev, ast.Assign)
                               and isinstance(prev.value, ast.Constant) and prev.value.value is None
                               for t in prev.targets if isinstance(t, ast.Name)}
                # third spelling: the default is the LAST index, assigned before the loop
                # (`x = len(..) - 1` ... `x = index; break` ... x used after the loop)
                for prev in blk[:i]:
                    if isinstance(prev, ast.Assign) and len(prev.targets) == 1 and isinstance(prev.targets[0], ast.Name) \
                            and prev.targets[0].id in set_in_branch and isinstance(prev.value, ast.BinOp) \
                            and isinstance(prev.value.op, ast.Sub) and isinstance(prev.value.right, ast.Constant) \
                            and prev.value.right.value == 1 and isinstance(prev.value.left, ast.Call) \
                            and isinstance(prev.value.left.func, ast.Name) and prev.value.left.func.id == "len":
                        return True
                nxt = blk[i + 1] if i + 1 < len(blk) else None
                if not (isinstance(nxt, ast.If) and not nxt.orelse and isinstance(nxt.test, ast.Compare)
                        and isinstance(nxt.test.left, ast.Name) and len(nxt.test.ops) == 1
                        and isinstance(nxt.test.ops[0], ast.Is) and isinstance(nxt.test.comparators[0], ast.Constant)
                        and nxt.test.comparators[0].value is None):
                    return False
                x = nxt.test.left.id
                if x not in set_in_branch or x not in none_before:
                    return False
                for a in nxt.body:
                    if isinstance(a, ast.Assign) and len(a.targets) == 1 and isinstance(a.targets[0], ast.Name) \
                            and a.targets[0].id == x:
                        for m in ast.walk(a.value):
                            if isinstance(m, ast.Subscript) and isinstance(m.slice, ast.UnaryOp) \
                                    and isinstance(m.slice.op, ast.USub) and isinstance(m.slice.operand, ast.Constant) \
                                    and m.slice.operand.value == 1:
                                return True
                return False
        return False

    sel = [n for n in ast.walk(rw) if isinstance(n, ast.For) and breaking_if(n) is not None]
    if len(sel) != 2:
        raise ExtractError("random_walk: expected two selection loops, found %d" % len(sel))
    falls = [bool(n.orelse) or sentinel_fallback(n) for n in sel]
    if falls == [False, False]:
        return False
    if falls == [True, True]:
        return True
    raise ExtractError("random_walk: selection loops disagree about the fall-back")
