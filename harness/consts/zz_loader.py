"""Translator tie of the rule-file loaders to the source: on every run the Python text of
_load_from_file, _load_base_structures, load_omen_keyspace (lib_guesser/grammar_io.py) and
_load_from_file (lib_scorer/grammar_io.py) is translated to Gallina
(harness/translate_loader.py, ast only, fail closed) into coq/gen/Loader_gen.v;
coq/theories/LoaderGenProofs.v proves the generated definitions equal to the hand-written
readers of TextFile.v and Loader.v (properties C07, C14, C04).

The file is rewritten only when its text changes (nothing is rebuilt on an unchanged
tree).  When the translation fails the file is replaced by one that does not compile - no
stale definition survives - and the error is raised, which the extractor driver records
for this plugin.  No data constants are returned."""
import translate_loader


def extract():
    translate_loader.write()
    return {}
