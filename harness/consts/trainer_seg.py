"""Data constants of the trainer's detectors, taken from the current /repo
sources (by ast for function-local lists, by calling the zero-argument table
functions for keyboard layouts and TLDs), and the Unicode facts of the
character pool taken from the running interpreter (coq/gen/Unicode_gen.v).
Fails closed: anything of an unexpected shape raises."""
import ast
import os

import common
import extract_consts as X
import seg_gen

ROWS = ["row1", "s_row1", "row2", "s_row2", "row3", "s_row3", "row4", "s_row4"]


def _local_list(fn, name):
    """the single `name = [str, ...]` assignment inside function node fn"""
    hits = []
    for n in ast.walk(fn):
        if isinstance(n, ast.Assign) and len(n.targets) == 1 and isinstance(n.targets[0], ast.Name) \
                and n.targets[0].id == name:
            hits.append(n.value)
    if len(hits) != 1:
        raise X.ExtractError("%s: expected exactly one assignment, found %d" % (name, len(hits)))
    v = ast.literal_eval(hits[0])
    if not isinstance(v, list) or not all(isinstance(x, str) for x in v):
        raise X.ExtractError("%s: not a list of strings" % name)
    return v


def _load(rel, modname):
    """load a detection_rules module from the working tree by path"""
    import importlib
    common.repo_on_path()
    m = importlib.import_module(modname)
    want = os.path.realpath(os.path.join(common.REPO, rel))
    if os.path.realpath(m.__file__) != want:
        raise X.ExtractError("%s imported from %s, not from the working tree" % (modname, m.__file__))
    return m


def keyboards():
    t = X.parse("lib_trainer/detection_rules/keyboard_walk.py")
    fn = X.find_func(t, "detect_keyboard_walk")
    # order of `keyboards.append(_get_xxx_keyboard())`: in detect_keyboard_walk itself, or (since the loop over the
    # walks replaced the recursion) in its helper _detect_first_keyboard_walk
    order = []
    helpers = [n for n in t.body if isinstance(n, ast.FunctionDef) and n.name == "_detect_first_keyboard_walk"]
    for n in [m for f in [fn] + helpers for m in ast.walk(f)]:
        if isinstance(n, ast.Call) and isinstance(n.func, ast.Attribute) and n.func.attr == "append" \
                and isinstance(n.func.value, ast.Name) and n.func.value.id == "keyboards":
            a = n.args[0]
            if not (isinstance(a, ast.Call) and isinstance(a.func, ast.Name) and not a.args):
                raise X.ExtractError("keyboards.append: unexpected argument")
            order.append((n.lineno, a.func.id))
    order = [f for _, f in sorted(order)]
    if not order:
        raise X.ExtractError("no keyboard layouts")
    m = _load("lib_trainer/detection_rules/keyboard_walk.py", "lib_trainer.detection_rules.keyboard_walk")
    rows, names = [], []
    del _keyboard_dicts[:]
    for f in order:
        kb = getattr(m, f)()
        _keyboard_dicts.append(kb)
        if sorted(kb.keys()) != sorted(ROWS + ["name"]):
            raise X.ExtractError("layout %s: unexpected keys %r" % (f, sorted(kb.keys())))
        names.append(kb["name"])
        for r in ROWS:
            if not all(isinstance(k, str) and len(k) == 1 for k in kb[r]):
                raise X.ExtractError("layout %s row %s: keys must be single characters" % (f, r))
            rows.append("".join(kb[r]))
    if len(set(names)) != len(names):
        raise X.ExtractError("layout names collide: %r" % names)
    # default of min_keyboard_run
    args = fn.args
    d = dict(zip([a.arg for a in args.args][-len(args.defaults):], args.defaults)) if args.defaults else {}
    if "min_keyboard_run" not in d:
        raise X.ExtractError("min_keyboard_run default not found")
    mk = ast.literal_eval(d["min_keyboard_run"])
    fp = _local_list(X.find_func(t, "interesting_keyboard"), "false_positive_words")
    return rows, len(order), mk, fp


_keyboard_dicts = []


def keyboard_dicts():
    """the layout dicts of the source in search order, as the table functions return them (checked by keyboards())"""
    keyboards()
    return [dict(kb) for kb in _keyboard_dicts]


def multiword_args():
    t = X.parse("lib_trainer/run_trainer.py")
    calls = [n for n in ast.walk(t) if isinstance(n, ast.Call) and isinstance(n.func, ast.Name)
             and n.func.id == "MultiWordDetector"]
    if len(calls) != 1:
        raise X.ExtractError("run_trainer: expected one MultiWordDetector(...) call")
    # positional or keyword arguments, defaults of the `def` for the ones left out (T18: the translated call of
    # gen/TrainerRun_gen.v is normalised the same way)
    init = X.find_func(X.parse("lib_trainer/detection_rules/multiword_detector.py"), "__init__", "MultiWordDetector")
    names = [a.arg for a in init.args.args][1:]
    if names != ["threshold", "min_len", "max_len"] or init.args.vararg or init.args.kwarg or init.args.kwonlyargs:
        raise X.ExtractError("MultiWordDetector.__init__: unexpected parameters %r" % names)
    kw = {n: ast.literal_eval(d) for n, d in zip(names[len(names) - len(init.args.defaults):], init.args.defaults)}
    if len(calls[0].args) > len(names) or any(isinstance(a, ast.Starred) for a in calls[0].args):
        raise X.ExtractError("MultiWordDetector call: unexpected positional arguments")
    seen = set()
    for n, a in zip(names, calls[0].args):
        kw[n] = ast.literal_eval(a)
        seen.add(n)
    for k in calls[0].keywords:
        if k.arg not in names or k.arg in seen:
            raise X.ExtractError("MultiWordDetector call: unexpected keyword %r" % k.arg)
        kw[k.arg] = ast.literal_eval(k.value)
        seen.add(k.arg)
    if sorted(kw) != ["max_len", "min_len", "threshold"] or not all(isinstance(v, int) and not isinstance(v, bool) for v in kw.values()):
        raise X.ExtractError("MultiWordDetector call: unexpected arguments %r" % kw)
    return kw


def lower_aligned():
    """do detect_alpha / detect_email / detect_website replace working_string by a
    length-preserving lower-casing when str.lower() changed the length?
    (`if len(working_string) != len(section[0]):` assigning working_string)"""
    found = []
    for rel, fname in (("lib_trainer/detection_rules/alpha_detection.py", "detect_alpha"),
                       ("lib_trainer/detection_rules/email_detection.py", "detect_email"),
                       ("lib_trainer/detection_rules/website_detection.py", "detect_website")):
        fn = X.find_func(X.parse(rel), fname)
        # every assignment to working_string, in source order
        assigns = [n for n in ast.walk(fn) if isinstance(n, ast.Assign) and len(n.targets) == 1
                   and isinstance(n.targets[0], ast.Name) and n.targets[0].id == "working_string"]
        ifs = []
        for n in ast.walk(fn):
            if isinstance(n, ast.If) and isinstance(n.test, ast.Compare) and len(n.test.ops) == 1 \
                    and isinstance(n.test.ops[0], ast.NotEq) \
                    and ast.unparse(n.test.left) == "len(working_string)" \
                    and ast.unparse(n.test.comparators[0]) == "len(section[0])":
                if len(n.body) != 1 or n.orelse or n.body[0] not in assigns:
                    raise X.ExtractError("%s: unexpected body of the length test" % fname)
                ifs.append(n)
        plain = [a for a in assigns if ast.unparse(a.value) == "section[0].lower()"]
        if len(ifs) > 1 or not plain or len(assigns) != len(plain) + len(ifs):
            raise X.ExtractError("%s: unexpected assignments to working_string" % fname)
        found.append(len(ifs) == 1)
    if all(found):
        return True
    if not any(found):
        return False
    raise X.ExtractError("length-preserving lower-casing present in some detectors only: %r" % found)


def scorer_multiword():
    """PCFGPasswordScorer.create_multiword_detector: MultiWordDetector(threshold = 1, min_len = min_len)
    with the local min_len, the class default of max_len, and the number of skipped probability classes"""
    fn = X.find_func(X.parse("lib_scorer/pcfg_password_scorer.py"), "create_multiword_detector", "PCFGPasswordScorer")
    calls = [n for n in ast.walk(fn) if isinstance(n, ast.Call) and isinstance(n.func, ast.Name) and n.func.id == "MultiWordDetector"]
    if len(calls) != 1 or calls[0].args:
        raise X.ExtractError("scorer: expected one MultiWordDetector(...) call with keywords")
    local = {}
    for n in ast.walk(fn):
        if isinstance(n, ast.Assign) and len(n.targets) == 1 and isinstance(n.targets[0], ast.Name) \
                and isinstance(n.value, ast.Constant):
            local[n.targets[0].id] = n.value.value
    kw = {}
    for k in calls[0].keywords:
        v = k.value
        kw[k.arg] = v.value if isinstance(v, ast.Constant) else local[v.id]
    if sorted(kw) != ["min_len", "threshold"]:
        raise X.ExtractError("scorer MultiWordDetector call: unexpected keywords %r" % sorted(kw))
    init = X.find_func(X.parse("lib_trainer/detection_rules/multiword_detector.py"), "__init__", "MultiWordDetector")
    names = [a.arg for a in init.args.args]
    defaults = dict(zip(names[-len(init.args.defaults):], [ast.literal_eval(d) for d in init.args.defaults]))
    return kw["threshold"], kw["min_len"], defaults["max_len"], _scorer_skip(fn)


def _scorer_skip(fn):
    """The number N of probability classes create_multiword_detector skips: the test `skipped < N` (the word is
    not trained while it holds), whatever the counter is called and however the test is written: `c < N`, `c >= N`
    with the branches exchanged, `c <= N-1`, `c > N-1`, the constant on the left.  The counter is the local that
    is set to 0 and incremented by `+= 1` / `= c + 1` in this function; the branch that holds the `.train(` call
    must be the one where the counter has reached N (anything else raises)."""
    zeroed = {n.targets[0].id for n in ast.walk(fn) if isinstance(n, ast.Assign) and len(n.targets) == 1
              and isinstance(n.targets[0], ast.Name) and isinstance(n.value, ast.Constant) and n.value.value == 0
              and type(n.value.value) is int}
    bumped = {n.target.id for n in ast.walk(fn) if isinstance(n, ast.AugAssign) and isinstance(n.target, ast.Name)
              and isinstance(n.op, ast.Add) and isinstance(n.value, ast.Constant) and n.value.value == 1}
    bumped |= {n.targets[0].id for n in ast.walk(fn) if isinstance(n, ast.Assign) and len(n.targets) == 1
               and isinstance(n.targets[0], ast.Name) and isinstance(n.value, ast.BinOp) and isinstance(n.value.op, ast.Add)
               and {type(n.value.left), type(n.value.right)} == {ast.Name, ast.Constant}
               and n.targets[0].id in {x.id for x in (n.value.left, n.value.right) if isinstance(x, ast.Name)}}
    counters = zeroed & bumped

    def has_train(stmts):
        return any(isinstance(c, ast.Call) and isinstance(c.func, ast.Attribute) and c.func.attr == "train"
                   for s in stmts for c in ast.walk(s))

    found = []
    for n in ast.walk(fn):
        if not (isinstance(n, ast.If) and isinstance(n.test, ast.Compare) and len(n.test.ops) == 1):
            continue
        a, op, b = n.test.left, type(n.test.ops[0]), n.test.comparators[0]
        if isinstance(a, ast.Constant) and isinstance(b, ast.Name):            # N op c  ->  c op' N
            a, b = b, a
            op = {ast.Lt: ast.Gt, ast.Gt: ast.Lt, ast.LtE: ast.GtE, ast.GtE: ast.LtE}.get(op, op)
        if not (isinstance(a, ast.Name) and a.id in counters and isinstance(b, ast.Constant) and type(b.value) is int):
            continue
        if op in (ast.Lt, ast.LtE):            # the test holds while skipping: the training is on the other side
            nskip = b.value + (1 if op is ast.LtE else 0)
            ok = has_train(n.orelse) and not has_train(n.body)
        elif op in (ast.GtE, ast.Gt):          # the test holds once N classes were skipped: the training is here
            nskip = b.value + (1 if op is ast.Gt else 0)
            ok = has_train(n.body) and not has_train(n.orelse)
        else:
            raise X.ExtractError("scorer: the skip counter is compared with %s" % op.__name__)
        if not ok:
            raise X.ExtractError("scorer: the branches of the skip test do not train on the side where the counter reached N")
        found.append(nskip)
    if len(found) != 1:
        raise X.ExtractError("scorer: the test `skipped < N` was not found exactly once (%d found)" % len(found))
    return found[0]


def scorer_rebuild_check():
    """does PCFGPasswordScorer.parse zero the probability when re-applying the mask to the
    lower-cased word does not give back the alpha section (`if rebuilt != text: cur_prob = 0` inside
    `for text, word, mask in zip(alpha_sections, found_alpha_strings, found_mask_list)`)?

    Only the presence of the check is decided here, by its shape and whatever the local variables are
    called: a loop over a zip of three lists whose body has a conditional with a comparison that assigns 0.
    What the loop computes is the business of the translator tie (harness/translate_scorer.py translates
    parse() on every run and ScorerGenProofs.v proves it equal to the model WITH the check)."""
    fn = X.find_func(X.parse("lib_scorer/pcfg_password_scorer.py"), "parse", "PCFGPasswordScorer")
    loops = [n for n in ast.walk(fn) if isinstance(n, ast.For) and isinstance(n.iter, ast.Call)
             and isinstance(n.iter.func, ast.Name) and n.iter.func.id == "zip" and len(n.iter.args) == 3
             and isinstance(n.target, ast.Tuple) and len(n.target.elts) == 3]
    hits = []
    for loop in loops:
        for n in ast.walk(loop):
            if isinstance(n, ast.If) and any(isinstance(c, ast.Compare) for c in ast.walk(n.test)) \
                    and any(isinstance(b, ast.Assign) and isinstance(b.value, ast.Constant) and b.value.value == 0
                            and type(b.value.value) in (int, float) for b in n.body):
                hits.append(loop)
                break
    if not hits:
        if loops:
            raise X.ExtractError("scorer: a loop over a zip of three lists without the rebuild test")
        return False
    if len(hits) != 1:
        raise X.ExtractError("scorer: more than one rebuild loop")
    return True


def extract_data():
    """the data constants only (what the direct oracles need); does not look at the shape of the code"""
    C = {}
    rows, nkb, mk, fp = keyboards()
    C["kb_rows_flat"] = rows              # 8 rows per layout, layouts in search order
    C["kb_layouts"] = nkb
    C["kb_min_run"] = mk
    C["kb_false_positive_words"] = fp
    tl = _load("lib_trainer/detection_rules/tld_list.py", "lib_trainer.detection_rules.tld_list").get_tld_list()
    if not isinstance(tl, list) or not all(isinstance(x, str) for x in tl):
        raise X.ExtractError("tld list: not a list of strings")
    C["tld_list"] = tl
    C["year_prefixes"] = _local_list(X.find_func(X.parse("lib_trainer/detection_rules/year_detection.py"), "detect_year"),
                                     "year_prefix")
    C["context_strings"] = _local_list(
        X.find_func(X.parse("lib_trainer/detection_rules/context_sensitive_detection.py"), "detect_context_sensitive"),
        "context_sensitive_replacements")
    kw = multiword_args()
    C["mw_threshold"] = kw["threshold"]
    C["mw_min_len"] = kw["min_len"]
    C["mw_max_len"] = kw["max_len"]
    return C


def extract():
    C = {}
    C["seg_lower_aligned"] = lower_aligned()
    C["scorer_rebuild_check"] = scorer_rebuild_check()
    C["scorer_mw_threshold"], C["scorer_mw_min_len"], C["scorer_mw_max_len"], C["scorer_mw_skip"] = scorer_multiword()
    C.update(extract_data())
    for k in ("kb_min_run", "mw_threshold", "mw_min_len", "mw_max_len", "scorer_mw_threshold", "scorer_mw_min_len",
              "scorer_mw_max_len", "scorer_mw_skip"):
        if not isinstance(C[k], int) or isinstance(C[k], bool) or C[k] < 0:
            raise X.ExtractError("%s: not a natural number" % k)
    write_unicode_gen()
    return C


def render_unicode():
    facts = seg_gen.unicode_facts(seg_gen.pool())
    lo, up = seg_gen.sweep_expanding()
    bad = seg_gen.sweep_alpha_case_mismatch()
    L = ["(* GENERATED by harness/consts/trainer_seg.py from the running interpreter. Do not edit.",
         "   Facts str.isalpha / isdigit / isupper / lower / upper of every character of the",
         "   generators' pool (harness/seg_gen.py); a character outside the table is treated as",
         "   caseless, neither letter nor digit (the harness never generates one). *)",
         "From Coq Require Import List NArith Bool.", "From Pcfg Require Import Str.", "Import ListNotations.",
         "Open Scope N_scope.", "",
         "Definition unicode_facts : list (N * cinfo) := ["]
    rows = []
    for cp, a, d, u, lw, upp in facts:
        rows.append("  (%d, Build_cinfo %s %s %s %s %s)" % (cp, common.cbool(a), common.cbool(d), common.cbool(u),
                                                         common.cstr(lw), common.cstr(upp)))
    L.append(";\n".join(rows))
    L.append("].")
    L.append("")
    L.append("Definition unicode_table : utable := Eval vm_compute in utable_of unicode_facts.")
    L.append("(* sweep of all code points of this interpreter: lower() / upper() of length <> 1 *)")
    L.append("Definition lower_expanding : list N := %s." % (("[" + "; ".join("%d" % x for x in lo) + "]") if lo else "[]"))
    L.append("Definition upper_expanding_count : N := %d." % len(up))
    L.append("(* code points c with a one-character lower() that disagrees with c on isalpha / isdigit *)")
    L.append("Definition lower_class_mismatch : list N := %s." % (("[" + "; ".join("%d" % x for x in bad) + "]") if bad else "[]"))
    return "\n".join(L) + "\n"


def write_unicode_gen():
    X.write(os.path.join(common.COQ, "gen", "Unicode_gen.v"), render_unicode())
