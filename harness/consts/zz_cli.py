"""Translator tie of the guesser's command line / save-file glue to the source: on every run the
Python text of pcfg_guesser.py (main, parse_command_line, create_save_config, load_save) is
translated to Gallina (harness/translate_cli.py, ast only, fail closed) into coq/gen/Cli_gen.v;
coq/theories/CliGenProofs.v proves the generated definitions equal to the hand-written model of
coq/theories/CliModel.v (properties C14, C08, C09).

The file is rewritten only when its text changes (nothing is rebuilt on an unchanged tree).  When
the translation fails the file is replaced by one that does not compile - no stale definition
survives - and the error is raised, which the extractor driver records for this plugin.  No data
constants are returned."""
import translate_cli


def extract():
    translate_cli.write()
    return {}
