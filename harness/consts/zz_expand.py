"""Second tie of the expansion kernel to the source: on every run the Python text of
omen_generate_guesses, _recursive_guesses and create_guesses
(lib_guesser/pcfg_grammar.py) is translated to Gallina (harness/translate_expand.py,
fail closed) into coq/gen/Expand_gen.v; coq/theories/ExpandGenProofs.v proves the
generated definitions equal to the hand-written model of coq/theories/Expand.v.

The file is rewritten only when its text changes (so nothing is rebuilt on an
unchanged tree).  When the translation fails the file is replaced by one that
does not compile - no stale definition survives - and the error is raised, which
the extractor driver records for this plugin.  No data constants are returned."""
import translate_expand


def extract():
    translate_expand.write()
    return {}
