"""Translator tie of the OMEN trainer (C11, C18): on every run the Python text of
smoothing.py (_calc_level, smooth_grammar, smooth_length), alphabet_lookup.py
(AlphabetLookup.__init__, is_in_alphabet, parse, apply_smoothing), omen_file_output.py
(_save_alphabet, save_omen_rules_to_disk) and alphabet_generator.py (AlphabetGenerator)
is translated to Gallina (harness/translate_omen_trainer.py, ast only, fail closed) into
coq/gen/OmenTrainer_gen.v, OmenTrainerOut_gen.v and OmenTrainerAlpha_gen.v;
coq/theories/OmenTrainerGenProofs*.v prove the generated definitions equal to the
hand-written models of coq/theories/OmenTrainer.v.

A file is rewritten only when its text changes.  When the translation of a group fails its
file is replaced by one that does not compile - no stale definition survives - and the
error is raised, which the extractor driver records for this plugin.  No data constants
are returned."""
import translate_omen_trainer


def extract():
    translate_omen_trainer.write()
    return {}
