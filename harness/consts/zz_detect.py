"""Second tie of the trainer's simple detectors to the source: on every run the Python
text of detect_digits / digit_detection, other_detection, detect_year / year_detection,
detect_context_sensitive / context_sensitive_detection, detect_alpha / alpha_detection
(lib_trainer/detection_rules/*.py) and of PCFGPasswordParser.parse
(lib_trainer/pcfg_password_parser.py) is translated to Gallina
(harness/translate_detect.py, ast only, fail closed) into coq/gen/Detect_gen.v;
coq/theories/DetectGenProofs.v proves the generated definitions equal to the
hand-written models of coq/theories/Detect.v / Segment.v.

The file is rewritten only when its text changes (so nothing is rebuilt on an
unchanged tree).  When the translation fails the file is replaced by one that
does not compile - no stale definition survives - and the error is raised, which
the extractor driver records for this plugin.  No data constants are returned."""
import translate_detect


def extract():
    translate_detect.write()
    return {}
