"""Translator tie of the priority-queue object (C01, C02, C08): on every run the Python text of
QueueItem (its __init__ and six comparison methods), PcfgQueue.__init__ / next / insert_queue /
restore_base_item / update_save_config (lib_guesser/priority_queue.py) and of
PcfgGrammar.restore_prob_order (lib_guesser/pcfg_grammar.py) is translated to Gallina
(harness/translate_queue.py, ast only, fail closed) into coq/gen/Queue_gen.v;
coq/theories/QueueGenProofs.v proves the generated definitions equal to the hand-written model of
coq/theories/QueueModel.v, which coq/theories/QueueProofs.v relates to Next.v.

The file is rewritten only when its text changes (nothing is rebuilt on an unchanged tree).  When
the translation fails the file is replaced by one that does not compile - no stale definition
survives - and the error is raised, which the extractor driver records for this plugin.  No data
constants are returned."""
import translate_queue


def extract():
    translate_queue.write()
    return {}
