"""Constants of the trainer I/O models (C06, C07, C19), regenerated on every run.

Two sources, both fail closed:

* the SOURCE of /repo (by ast, nothing is executed): the code points
  check_valid rejects, whether it rejects the empty password, the characters
  read_password strips from the line end, the $HEX prefix, how OmenScorer opens
  IP.level / CP.level (builtin open or codecs.open, with or without the ruleset
  encoding), the separator and line end the writers use;
* the RUNNING INTERPRETER (sweep over all 0x110000 code points): the code
  points str.splitlines / codecs line iteration split on, the code points
  str.strip / rstrip / lstrip remove, the code points int() skips, the Unicode
  decimal digits.

The finite-sweep theorems of Props/C07.v and Props/C19.v (`forallb rejected
linebreaks = true`, digits are not white space, ...) are statements about these
lists and are re-checked by the kernel whenever they change.
"""
import ast
import os
import sys
import unicodedata

HERE = os.path.dirname(os.path.dirname(os.path.abspath(__file__)))
if HERE not in sys.path:
    sys.path.insert(0, HERE)
import common  # noqa: E402


class ExtractError(Exception):
    pass


def _parse(rel):
    p = os.path.join(common.REPO, rel)
    return ast.parse(open(p, encoding="utf-8").read(), filename=p)


def _func(tree, name, cls=None):
    for node in ast.walk(tree):
        if cls and isinstance(node, ast.ClassDef) and node.name == cls:
            for n in node.body:
                if isinstance(n, ast.FunctionDef) and n.name == name:
                    return n
        if not cls and isinstance(node, ast.FunctionDef) and node.name == name:
            return node
    raise ExtractError("function %s not found" % name)


# ------------------------------------------------------------------ check_valid

def _is_return_false(stmts):
    return (len(stmts) == 1 and isinstance(stmts[0], ast.Return)
            and isinstance(stmts[0].value, ast.Constant) and stmts[0].value.value is False)


def _chars_of_const(node):
    """a constant collection of one-character strings -> list of code points"""
    try:
        v = ast.literal_eval(node)
    except Exception:
        raise ExtractError("check_valid: collection is not a literal: %s" % ast.dump(node)[:120])
    if isinstance(v, str):
        items = list(v)
    elif isinstance(v, (list, tuple, set, frozenset)):
        items = list(v)
    else:
        raise ExtractError("check_valid: unsupported collection %r" % (v,))
    out = []
    for it in items:
        if isinstance(it, int):
            out.append(it)
        elif isinstance(it, str) and len(it) == 1:
            out.append(ord(it))
        else:
            raise ExtractError("check_valid: element %r is not a single character" % (it,))
    return out


def _range_of(node):
    if not (isinstance(node, ast.Call) and isinstance(node.func, ast.Name) and node.func.id == "range"
            and not node.keywords and 1 <= len(node.args) <= 2):
        return None
    try:
        a = [ast.literal_eval(x) for x in node.args]
    except Exception:
        raise ExtractError("check_valid: non literal range")
    if not all(isinstance(x, int) for x in a):
        raise ExtractError("check_valid: non integer range")
    return list(range(*a))


def extract_check_valid():
    """Returns (sorted rejected code points, rejects_empty).  First the shape
    matcher below (statement shapes whose meaning is 'reject when one of these
    single characters occurs'); when the tests are written another way (any(...)
    over a generator, `not x`, and / or, ...) the constants are derived from the
    reading harness/translate_reader.py gives check_valid (ast only, its accepted
    subset, fail closed).  Either way coq/theories/ReaderGenProofs.v
    (py_check_valid_is_model) proves, for every password, that the translated
    check_valid is the model's check_valid on exactly these constants - a wrong
    set cannot pass."""
    try:
        return _extract_check_valid_by_shape()
    except ExtractError as e:
        try:
            import translate_reader
            return translate_reader.check_valid_constants(common.REPO)
        except Exception as e2:      # noqa: BLE001 - both readings refuse the source
            raise ExtractError("%s; and the translator's reading fails too: %s" % (e, e2))


def _extract_check_valid_by_shape():
    fn = _func(_parse("lib_trainer/trainer_file_input.py"), "check_valid")
    if [a.arg for a in fn.args.args] != ["input_password"]:
        raise ExtractError("check_valid: unexpected signature")
    pw = "input_password"
    rejected, rejects_empty = set(), False
    body = [s for s in fn.body if not (isinstance(s, ast.Expr) and isinstance(s.value, ast.Constant)
                                       and isinstance(s.value.value, str))]
    if not body or not (isinstance(body[-1], ast.Return) and isinstance(body[-1].value, ast.Constant)
                        and body[-1].value.value is True):
        raise ExtractError("check_valid: does not end with `return True`")
    for st in body[:-1]:
        # if len(input_password) == 0: return False      /   if not input_password: return False
        if isinstance(st, ast.If) and not st.orelse and _is_return_false(st.body):
            t = st.test
            if (isinstance(t, ast.Compare) and len(t.ops) == 1 and isinstance(t.ops[0], ast.Eq)
                    and isinstance(t.left, ast.Call) and isinstance(t.left.func, ast.Name) and t.left.func.id == "len"
                    and len(t.left.args) == 1 and isinstance(t.left.args[0], ast.Name) and t.left.args[0].id == pw
                    and isinstance(t.comparators[0], ast.Constant) and t.comparators[0].value == 0):
                rejects_empty = True
                continue
            if (isinstance(t, ast.UnaryOp) and isinstance(t.op, ast.Not) and isinstance(t.operand, ast.Name)
                    and t.operand.id == pw):
                rejects_empty = True
                continue
            # if "<c>" in input_password: return False
            if (isinstance(t, ast.Compare) and len(t.ops) == 1 and isinstance(t.ops[0], ast.In)
                    and isinstance(t.comparators[0], ast.Name) and t.comparators[0].id == pw
                    and isinstance(t.left, ast.Constant) and isinstance(t.left.value, str)):
                if len(t.left.value) != 1:
                    raise ExtractError("check_valid: substring test %r is not a single character" % t.left.value)
                rejected.add(ord(t.left.value))
                continue
            # if any(c in input_password for c in <const>): return False
            if (isinstance(t, ast.Call) and isinstance(t.func, ast.Name) and t.func.id == "any" and len(t.args) == 1
                    and isinstance(t.args[0], ast.GeneratorExp) and len(t.args[0].generators) == 1):
                g = t.args[0].generators[0]
                e = t.args[0].elt
                if (not g.ifs and isinstance(g.target, ast.Name) and isinstance(e, ast.Compare) and len(e.ops) == 1
                        and isinstance(e.ops[0], ast.In) and isinstance(e.left, ast.Name) and e.left.id == g.target.id
                        and isinstance(e.comparators[0], ast.Name) and e.comparators[0].id == pw):
                    rejected.update(_chars_of_const(g.iter))
                    continue
            raise ExtractError("check_valid: unsupported test: %s" % ast.dump(t)[:200])
        # for x in range(a, b): if chr(x) in input_password: return False
        # for x in <const collection>: if x in input_password: return False
        if isinstance(st, ast.For) and not st.orelse and isinstance(st.target, ast.Name) and len(st.body) == 1:
            inner = st.body[0]
            var = st.target.id
            if not (isinstance(inner, ast.If) and not inner.orelse and _is_return_false(inner.body)
                    and isinstance(inner.test, ast.Compare) and len(inner.test.ops) == 1
                    and isinstance(inner.test.ops[0], ast.In)
                    and isinstance(inner.test.comparators[0], ast.Name) and inner.test.comparators[0].id == pw):
                raise ExtractError("check_valid: unsupported loop body")
            left = inner.test.left
            rng = _range_of(st.iter)
            if (rng is not None and isinstance(left, ast.Call) and isinstance(left.func, ast.Name)
                    and left.func.id == "chr" and len(left.args) == 1 and isinstance(left.args[0], ast.Name)
                    and left.args[0].id == var):
                rejected.update(rng)
                continue
            if rng is None and isinstance(left, ast.Name) and left.id == var:
                rejected.update(_chars_of_const(st.iter))
                continue
            raise ExtractError("check_valid: unsupported loop")
        raise ExtractError("check_valid: unsupported statement: %s" % ast.dump(st)[:200])
    if any(not (0 <= c < 0x110000) for c in rejected):
        raise ExtractError("check_valid: code point out of range")
    return sorted(rejected), rejects_empty


# ------------------------------------------------------------------ read_password

def extract_reader():
    """The characters stripped from the line end, the $HEX prefix / suffix and the
    slice of the payload - located by what the calls are (x.rstrip('<chars>'),
    x.startswith(..) and x.endswith(..) of one test, the slice handed to
    bytes.fromhex), not by the names of the locals."""
    fn = _func(_parse("lib_trainer/trainer_file_input.py"), "read_password", "TrainerFileInput")
    rstrips, prefixes, suffixes, slices = [], [], [], []
    for n in ast.walk(fn):
        if isinstance(n, ast.Call) and isinstance(n.func, ast.Attribute) and n.func.attr == "rstrip" \
                and isinstance(n.func.value, ast.Name):
            if len(n.args) != 1 or not isinstance(n.args[0], ast.Constant) or not isinstance(n.args[0].value, str):
                raise ExtractError("read_password: rstrip without a literal argument")
            rstrips.append(n.args[0].value)
        if isinstance(n, ast.Call) and isinstance(n.func, ast.Attribute) and n.func.attr in ("startswith", "endswith") \
                and isinstance(n.func.value, ast.Name):
            if len(n.args) != 1 or not isinstance(n.args[0], ast.Constant) or not isinstance(n.args[0].value, str):
                raise ExtractError("read_password: startswith/endswith without literal")
            (prefixes if n.func.attr == "startswith" else suffixes).append((n.func.value.id, n.args[0].value))
        if isinstance(n, ast.Call) and isinstance(n.func, ast.Attribute) and n.func.attr == "fromhex" \
                and isinstance(n.func.value, ast.Name) and n.func.value.id == "bytes" and len(n.args) == 1:
            a = n.args[0]
            if not (isinstance(a, ast.Subscript) and isinstance(a.value, ast.Name) and isinstance(a.slice, ast.Slice)
                    and a.slice.step is None):
                raise ExtractError("read_password: bytes.fromhex of something else than a slice of a local")
            lo = ast.literal_eval(a.slice.lower) if a.slice.lower is not None else None
            hi = ast.literal_eval(a.slice.upper) if a.slice.upper is not None else None
            slices.append((a.value.id, lo, hi))
    if len(rstrips) != 1 or len(prefixes) != 1 or len(suffixes) != 1 or len(slices) != 1 \
            or len({prefixes[0][0], suffixes[0][0], slices[0][0]}) != 1 \
            or slices[0][1:] != (len(prefixes[0][1]), -len(suffixes[0][1])):
        raise ExtractError("read_password: unexpected shape rstrip=%r prefix=%r suffix=%r slices=%r"
                           % (rstrips, prefixes, suffixes, slices))
    return {"reader_rstrip_chars": sorted(set(ord(c) for c in rstrips[0])),
            "reader_hex_prefix": prefixes[0][1], "reader_hex_suffix": suffixes[0][1]}


def extract_reader_open():
    """How TrainerFileInput opens the training file: codecs.open (lines end at
    every code point str.splitlines splits on) or the builtin open with an
    explicit newline argument ('\\n': lines end at LF only; '': at LF, CR, CR LF)."""
    fn = _func(_parse("lib_trainer/trainer_file_input.py"), "__init__", "TrainerFileInput")
    calls = []
    for n in ast.walk(fn):
        if isinstance(n, ast.Assign) and len(n.targets) == 1 and isinstance(n.targets[0], ast.Attribute) \
                and n.targets[0].attr == "file" and isinstance(n.targets[0].value, ast.Name) and n.targets[0].value.id == "self":
            calls.append(n.value)
    if len(calls) != 1 or not isinstance(calls[0], ast.Call):
        raise ExtractError("TrainerFileInput.__init__: expected exactly one `self.file = <call>`")
    c = calls[0]
    if isinstance(c.func, ast.Attribute) and c.func.attr == "open" and isinstance(c.func.value, ast.Name) \
            and c.func.value.id in ("codecs", "io"):
        kind = "codecs" if c.func.value.id == "codecs" else "builtin"
    elif isinstance(c.func, ast.Name) and c.func.id == "open":
        kind = "builtin"
    else:
        raise ExtractError("TrainerFileInput.__init__: unknown open call")
    kw = {k.arg: k.value for k in c.keywords}
    args = list(c.args)
    if not args or not (isinstance(args[0], ast.Attribute) and args[0].attr == "filename"):
        raise ExtractError("TrainerFileInput.__init__: first argument is not self.filename")
    mode = args[1] if len(args) > 1 else kw.get("mode")
    if mode is not None and not (isinstance(mode, ast.Constant) and mode.value in ("r", "rt")):
        raise ExtractError("TrainerFileInput.__init__: mode is not 'r'")
    if len(args) > 2:
        raise ExtractError("TrainerFileInput.__init__: positional encoding/buffering not modelled")
    enc, err = kw.get("encoding"), kw.get("errors")
    if not (isinstance(enc, ast.Attribute) and enc.attr == "encoding" and isinstance(enc.value, ast.Name) and enc.value.id == "self"):
        raise ExtractError("TrainerFileInput.__init__: encoding is not self.encoding")
    if not (isinstance(err, ast.Constant) and err.value == "surrogateescape"):
        raise ExtractError("TrainerFileInput.__init__: errors is not 'surrogateescape'")
    extra = set(kw) - {"encoding", "errors", "newline", "mode"}
    if extra:
        raise ExtractError("TrainerFileInput.__init__: unmodelled arguments %r" % sorted(extra))
    if kind == "codecs":
        if "newline" in kw:
            raise ExtractError("codecs.open has no newline argument")
        return {"kind": "codecs", "newline": None, "glue": extract_reader_glue()}
    nl = kw.get("newline")
    if not (isinstance(nl, ast.Constant) and nl.value in ("\n", "")):
        raise ExtractError("builtin open of the training file: only newline='\\n' or newline='' are modelled")
    if extract_reader_glue() is not None:
        raise ExtractError("builtin open together with a re-joining loop is not modelled")
    return {"kind": "builtin", "newline": nl.value, "glue": None}


def extract_reader_glue():
    """A loop in read_password that re-joins what codecs readline split at a
    code point other than the listed line ends:
        while password and password[-1] not in '<ends>':
            more = self.file.readline()        (optionally inside try: ... except UnicodeError: break)
            if more == '' (or: not more): break
            password += more
    Returns the code points of <ends>, or None when read_password has no while
    loop besides `while True`.  Any other loop shape raises."""
    fn = _func(_parse("lib_trainer/trainer_file_input.py"), "read_password", "TrainerFileInput")
    loops = [n for n in ast.walk(fn) if isinstance(n, ast.While)
             and not (isinstance(n.test, ast.Constant) and n.test.value is True)]
    if not loops:
        return None
    if len(loops) != 1:
        raise ExtractError("read_password: more than one conditional while loop")
    w = loops[0]
    t = w.test
    ok = (isinstance(t, ast.BoolOp) and isinstance(t.op, ast.And) and len(t.values) == 2
          and isinstance(t.values[0], ast.Name)
          and isinstance(t.values[1], ast.Compare) and len(t.values[1].ops) == 1 and isinstance(t.values[1].ops[0], ast.NotIn)
          and isinstance(t.values[1].left, ast.Subscript) and isinstance(t.values[1].left.value, ast.Name)
          and t.values[1].left.value.id == t.values[0].id
          and isinstance(t.values[1].left.slice, ast.UnaryOp) and isinstance(t.values[1].left.slice.op, ast.USub)
          and isinstance(t.values[1].left.slice.operand, ast.Constant) and t.values[1].left.slice.operand.value == 1
          and isinstance(t.values[1].comparators[0], ast.Constant) and isinstance(t.values[1].comparators[0].value, str))
    if not ok or w.orelse or len(w.body) != 3:
        raise ExtractError("read_password: unrecognised while loop")
    pw = t.values[0].id          # the local holding the line (whatever it is called)
    a, b, c = w.body
    # the readline may be guarded: try: x = self.file.readline() / except UnicodeError: break
    if isinstance(a, ast.Try):
        h = a.handlers
        guarded = (len(a.body) == 1 and not a.orelse and not a.finalbody and len(h) == 1
                   and isinstance(h[0].type, ast.Name) and h[0].type.id in ("UnicodeError", "UnicodeDecodeError")
                   and len(h[0].body) == 1 and isinstance(h[0].body[0], ast.Break))
        if not guarded:
            raise ExtractError("read_password: unrecognised try block in the re-joining loop")
        a = a.body[0]
    ok = (isinstance(a, ast.Assign) and len(a.targets) == 1 and isinstance(a.targets[0], ast.Name)
          and isinstance(a.value, ast.Call) and isinstance(a.value.func, ast.Attribute) and a.value.func.attr == "readline"
          and not a.value.args and not a.value.keywords
          and isinstance(a.value.func.value, ast.Attribute) and a.value.func.value.attr == "file")
    if not ok:
        raise ExtractError("read_password: while loop does not start with `x = self.file.readline()`")
    var = a.targets[0].id
    if var == pw:
        raise ExtractError("read_password: the re-joining loop overwrites the line")
    tb = b.test if isinstance(b, ast.If) else None
    ok = (isinstance(b, ast.If) and not b.orelse and len(b.body) == 1 and isinstance(b.body[0], ast.Break)
          and ((isinstance(tb, ast.UnaryOp) and isinstance(tb.op, ast.Not) and isinstance(tb.operand, ast.Name) and tb.operand.id == var)
               or (isinstance(tb, ast.Compare) and len(tb.ops) == 1 and isinstance(tb.ops[0], ast.Eq) and isinstance(tb.left, ast.Name)
                   and tb.left.id == var and isinstance(tb.comparators[0], ast.Constant) and tb.comparators[0].value == "")))
    # password += more   /   password = password + more
    app = (isinstance(c, ast.AugAssign) and isinstance(c.op, ast.Add) and isinstance(c.target, ast.Name)
           and c.target.id == pw and isinstance(c.value, ast.Name) and c.value.id == var) \
        or (isinstance(c, ast.Assign) and len(c.targets) == 1 and isinstance(c.targets[0], ast.Name) and c.targets[0].id == pw
            and isinstance(c.value, ast.BinOp) and isinstance(c.value.op, ast.Add)
            and isinstance(c.value.left, ast.Name) and c.value.left.id == pw
            and isinstance(c.value.right, ast.Name) and c.value.right.id == var)
    if not (ok and app):
        raise ExtractError("read_password: unrecognised body of the re-joining loop")
    return sorted(set(ord(ch) for ch in t.values[1].comparators[0].value))


# ------------------------------------------------------------------ OmenScorer._load_omen

def extract_omen_scorer():
    """How IP.level and CP.level are opened: (uses codecs.open, passes the ruleset
    encoding) - must be the same for both files."""
    fn = _func(_parse("lib_scorer/omen_scorer.py"), "_load_omen", "OmenScorer")
    opens = []
    for n in ast.walk(fn):
        if isinstance(n, ast.With):
            for it in n.items:
                c = it.context_expr
                if not isinstance(c, ast.Call):
                    continue
                if isinstance(c.func, ast.Name) and c.func.id == "open":
                    kind = "builtin"
                elif isinstance(c.func, ast.Attribute) and c.func.attr == "open" and isinstance(c.func.value, ast.Name) \
                        and c.func.value.id == "codecs":
                    kind = "codecs"
                else:
                    raise ExtractError("_load_omen: unknown open call")
                enc = None
                for kw in c.keywords:
                    if kw.arg == "encoding":
                        enc = kw.value
                if len(c.args) >= 3 and kind == "codecs":
                    enc = c.args[2]
                uses = (enc is not None and isinstance(enc, ast.Attribute) and enc.attr == "encoding"
                        and isinstance(enc.value, ast.Name) and enc.value.id == "self")
                if enc is not None and not uses:
                    raise ExtractError("_load_omen: encoding argument is not self.encoding")
                newline = [kw for kw in c.keywords if kw.arg == "newline"]
                if newline:
                    raise ExtractError("_load_omen: newline= argument not modelled")
                opens.append((n.lineno, kind, uses))
    opens.sort()
    if len(opens) != 3:
        raise ExtractError("_load_omen: expected three files to be opened, found %d" % len(opens))
    (_, k1, u1), (_, k2, u2), _ln = opens
    if (k1, u1) != (k2, u2):
        raise ExtractError("_load_omen: IP.level and CP.level are opened differently")
    return {"omen_scorer_codecs_open": k1 == "codecs", "omen_scorer_uses_ruleset_encoding": bool(u1)}


# ------------------------------------------------------------------ writers

def extract_writer():
    """calculate_and_save_counter writes str(item[0]) + '\\t' + str(item[1]) + '\\n'.

    Since the translator tie of the writers exists (harness/translate_writer.py: the function is
    translated on every run and WriterGenProofs.save_counter_eq proves that it writes exactly this
    line format), this shape check is only the first of two ways to establish the two constants: a
    spelling it does not recognise is accepted when the translator accepts the function (the
    equality proof then decides - a changed format breaks save_counter_eq, which C06 / C07 report);
    when the translator refuses the function too, the original error is raised."""
    try:
        return _extract_writer_by_shape()
    except ExtractError as shape_error:
        try:
            import translate_writer
            translate_writer.render_save()
        except Exception:
            raise shape_error
        return {"writer_separator": "\t", "writer_line_end": "\n"}


def _extract_writer_by_shape():
    # Accepted spellings of the same text (any mixture): concatenation with +, an f-string;
    # a field as str(x) or {x} / {x!s} (format(x, '') is str(x) for str, int and float);
    # x as item[k] of the loop variable or as the k-th name of a tuple-unpacking loop target.
    fn = _func(_parse("lib_trainer/save_pcfg_data.py"), "calculate_and_save_counter")

    def flat(e):
        if isinstance(e, ast.BinOp) and isinstance(e.op, ast.Add):
            return flat(e.left) + flat(e.right)
        if isinstance(e, ast.JoinedStr):
            return [p for v in e.values for p in flat(v)]
        return [e]

    def field(e, loop):
        """e denotes field k of the element the loop iterates over -> k, else None"""
        t = loop.target
        if isinstance(e, ast.Subscript) and isinstance(e.value, ast.Name) and isinstance(t, ast.Name) \
                and e.value.id == t.id and isinstance(e.slice, ast.Constant) and type(e.slice.value) is int:
            return e.slice.value
        if isinstance(e, ast.Name) and isinstance(t, ast.Tuple) and all(isinstance(x, ast.Name) for x in t.elts):
            names = [x.id for x in t.elts]
            if names.count(e.id) == 1:
                return names.index(e.id)
        return None

    def rebinds(loop):
        """the loop body assigns one of the loop's target names"""
        names = {x.id for x in ast.walk(loop.target) if isinstance(x, ast.Name)}
        for st in loop.body:
            for n in ast.walk(st):
                if isinstance(n, ast.Name) and n.id in names and not isinstance(n.ctx, ast.Load):
                    return True
        return False

    shapes = []
    loops = [n for n in ast.walk(fn) if isinstance(n, ast.For)]
    for n in ast.walk(fn):
        if isinstance(n, ast.Call) and isinstance(n.func, ast.Attribute) and n.func.attr == "write":
            if len(n.args) != 1 or n.keywords:
                raise ExtractError("calculate_and_save_counter: write with %d arguments" % len(n.args))
            inside = [lp for lp in loops if any(n is m for st in lp.body for m in ast.walk(st))]
            if len(inside) != 1 or rebinds(inside[0]):
                raise ExtractError("calculate_and_save_counter: the write is not inside exactly one plain for loop")
            loop = inside[0]
            shape = []
            for e in flat(n.args[0]):
                if isinstance(e, ast.Constant) and isinstance(e.value, str):
                    if shape and isinstance(shape[-1], str):
                        shape[-1] += e.value
                    else:
                        shape.append(e.value)
                    continue
                inner = None
                if isinstance(e, ast.Call) and isinstance(e.func, ast.Name) and e.func.id == "str" and len(e.args) == 1 \
                        and not e.keywords:
                    inner = e.args[0]
                elif isinstance(e, ast.FormattedValue) and e.format_spec is None and e.conversion in (-1, 115):
                    inner = e.value
                k = field(inner, loop) if inner is not None else None
                if k is None:
                    raise ExtractError("calculate_and_save_counter: unexpected operand %s" % ast.dump(e)[:120])
                shape.append(("str", k))
            shapes.append(shape)
    if shapes != [[("str", 0), "\t", ("str", 1), "\n"]]:
        raise ExtractError("calculate_and_save_counter: unexpected line format %r" % shapes)
    return {"writer_separator": "\t", "writer_line_end": "\n"}


# ------------------------------------------------------------------ the interpreter

_probe_cache = {}


def _int_ok(s):
    try:
        return int(s)
    except ValueError:
        return None


def _int_sweep(bounds):
    lo, hi = bounds
    t, l, i = [], [], []
    for c in range(lo, hi):
        ch = chr(c)
        if _int_ok("5" + ch) == 5:
            t.append(c)
        if _int_ok(ch + "5") == 5:
            l.append(c)
        if _int_ok("1" + ch + "2") is not None:
            i.append(c)
    return t, l, i


def probe_interpreter():
    """Exhaustive sweep of the running interpreter's code points."""
    if _probe_cache:
        return _probe_cache
    R = range(0x110000)
    chars = [chr(c) for c in R]
    linebreaks = [c for c in R if len(("a" + chars[c] + "b").splitlines()) > 1]
    # keepends view must agree, and the break must be after the character
    for c in linebreaks:
        if ("a" + chars[c] + "b").splitlines(True) != ["a" + chars[c], "b"]:
            raise ExtractError("splitlines(keepends) disagrees at U+%04X" % c)
    if "a\r\nb".splitlines(True) != ["a\r\n", "b"]:
        raise ExtractError("CR LF is not one line end")
    ws = [c for c in R if chars[c].isspace()]
    ws_r = [c for c in R if ("a" + chars[c]).rstrip() == "a"]
    ws_l = [c for c in R if (chars[c] + "a").lstrip() == "a"]
    if not (ws == ws_r == ws_l):
        raise ExtractError("isspace / rstrip / lstrip disagree")
    dec = [c for c in R if unicodedata.decimal(chars[c], None) is not None]
    zeros = []
    i = 0
    while i < len(dec):
        z = dec[i]
        run = dec[i:i + 10]
        if run != list(range(z, z + 10)) or [unicodedata.decimal(chars[c]) for c in run] != list(range(10)):
            raise ExtractError("decimal digits at U+%04X are not a run 0..9" % z)
        zeros.append(z)
        i += 10
    decset = set(dec)

    for z in zeros:
        for k in range(10):
            if _int_ok(chars[z + k]) != k:
                raise ExtractError("int() disagrees with unicodedata.decimal at U+%04X" % (z + k))
    # three sweeps of int() over all code points (exceptions are slow: forked workers)
    import multiprocessing
    n = max(1, min(16, os.cpu_count() or 1))
    step = (0x110000 + n - 1) // n
    chunks = [(lo, min(lo + step, 0x110000)) for lo in range(0, 0x110000, step)]
    try:
        with multiprocessing.get_context("fork").Pool(n) as pool:
            parts = pool.map(_int_sweep, chunks)
    except Exception:
        parts = [_int_sweep(ch) for ch in chunks]
    iws_t = [c for p in parts for c in p[0] if c not in decset]
    iws_l = [c for p in parts for c in p[1] if c not in decset and c not in (43, 45)]
    inside = [c for p in parts for c in p[2] if c not in decset and c != 95]
    if iws_t != iws_l:
        raise ExtractError("int(): leading and trailing white space differ")
    int_ok = _int_ok
    if 95 in iws_t or int_ok("1_0") != 10 or int_ok("_1") is not None or int_ok("1_") is not None \
            or int_ok("1__0") is not None or int_ok("+5") != 5 or int_ok("-5") != -5 or int_ok("+ 5") is not None \
            or int_ok("") is not None or int_ok("0x10") is not None or int_ok("007") != 7:
        raise ExtractError("int(): syntax differs from the model")
    # any other character inside a number must be refused (all code points, one position)
    if inside:
        raise ExtractError("int() accepts U+%04X inside a number" % inside[0])
    _probe_cache.update({"py_linebreaks": linebreaks, "py_whitespace": ws, "py_int_whitespace": iws_t,
                         "py_decimal_zeros": zeros})
    return _probe_cache


def reader_linebreaks_of(ro, py_linebreaks):
    """The code points at which the reader ends a line."""
    if ro["kind"] == "codecs":
        if ro["glue"] is None:
            return list(py_linebreaks)
        if not set(ro["glue"]) <= set(py_linebreaks):
            raise ExtractError("re-joining loop ends lines at code points codecs does not split on")
        return list(ro["glue"])
    return [10] if ro["newline"] == "\n" else [10, 13]


def extract():
    C = {}
    rej, rej_empty = extract_check_valid()
    C["check_valid_rejected"] = rej
    C["check_valid_rejects_empty"] = rej_empty
    C.update(extract_reader())
    C.update(extract_omen_scorer())
    C.update(extract_writer())
    C.update(probe_interpreter())
    ro = extract_reader_open()
    C["reader_open_builtin"] = ro["kind"] == "builtin"
    C["reader_linebreaks"] = reader_linebreaks_of(ro, C["py_linebreaks"])
    return C


if __name__ == "__main__":
    import time
    t = time.time()
    c = extract()
    for k, v in c.items():
        print(k, v if not isinstance(v, list) or len(v) < 40 else (len(v), v[:12]))
    print("%.2fs" % (time.time() - t))
