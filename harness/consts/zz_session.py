"""Translator tie of the session loops to the source: on every run the Python text of
create_prince_wordlist (lib_princeling/wordlist_generation.py), HoneywordSession.run
(lib_guesser/honeyword_session.py) and CrackingSession.run / _save_session / keypress
(lib_guesser/cracking_session.py) is translated to Gallina (harness/translate_session.py,
ast only, fail closed) into coq/gen/SessionPrince_gen.v, SessionHoney_gen.v and
Session_gen.v; coq/theories/Session*GenProofs.v prove the generated definitions equal to
the hand-written models of Session.v / Honey.v / Omen.v (properties C17, C16, C09 C12 C15).

A file is rewritten only when its text changes (nothing is rebuilt on an unchanged
tree).  When a translation fails its file is replaced by one that does not compile - no
stale definition survives - and the error is raised after all files have been written,
which the extractor driver records for this plugin.  No data constants are returned."""
import translate_session


def extract():
    translate_session.write_all()
    return {}
