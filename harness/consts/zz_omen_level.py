"""Translator tie of the OMEN level / keyspace kernels (C11, C18): on every run the
Python text of find_omen_level, _rec_calc_keyspace, calc_omen_keyspace
(lib_trainer/omen/evaluate_password.py) and OmenScorer.parse
(lib_scorer/omen_scorer.py) is translated to Gallina
(harness/translate_omen_level.py, ast only, fail closed) into
coq/gen/OmenLevel_gen.v (find_omen_level, parse: C11) and coq/gen/OmenKeyspace_gen.v
(the keyspace functions: C18); coq/theories/OmenLevelGenProofs.v and
OmenKeyspaceGenProofs.v prove the generated definitions equal to the hand-written
models of coq/theories/OmenLevel.v and OmenKeyspace.v.

A file is rewritten only when its text changes (so nothing is rebuilt on an
unchanged tree).  When the translation of a group fails its file is replaced by one that
does not compile - no stale definition survives - and the error is raised, which
the extractor driver records for this plugin.  No data constants are returned."""
import translate_omen_level


def extract():
    translate_omen_level.write()
    return {}
