"""Constants of the OMEN generator taken from the current /repo sources (ast):
max_level set by the guesser's loader, the range _find_first_object scans, and
the Optimizer max_length PcfgGrammar constructs.  Fails closed."""
import ast
import os

import common


class OmenExtractError(Exception):
    pass


def _parse(rel):
    p = os.path.join(common.REPO, rel)
    return ast.parse(open(p, encoding="utf-8").read(), filename=p)


def _func(tree, name, cls=None):
    for node in ast.walk(tree):
        if cls and isinstance(node, ast.ClassDef) and node.name == cls:
            for n in node.body:
                if isinstance(n, ast.FunctionDef) and n.name == name:
                    return n
        if not cls and isinstance(node, ast.FunctionDef) and node.name == name:
            return node
    raise OmenExtractError("function %s not found" % name)


def extract():
    C = {}
    # grammar['max_level'] = 10 in _load_config
    f = _func(_parse("lib_guesser/omen/input_file_io.py"), "_load_config")
    vals = []
    for n in ast.walk(f):
        if isinstance(n, ast.Assign) and len(n.targets) == 1 and isinstance(n.targets[0], ast.Subscript):
            t = n.targets[0]
            if isinstance(t.value, ast.Name) and t.value.id == "grammar" and isinstance(t.slice, ast.Constant) \
                    and t.slice.value == "max_level":
                vals.append(ast.literal_eval(n.value))
    if len(vals) != 1 or not isinstance(vals[0], int) or not (1 <= vals[0] <= 50):
        raise OmenExtractError("max_level assignment not as expected: %r" % vals)
    C["omen_max_level"] = vals[0]
    # for level in range(0, self.max_level [+ 1]) in _find_first_object
    f = _func(_parse("lib_guesser/omen/markov_cracker.py"), "_find_first_object", "MarkovCracker")
    loops = [n for n in ast.walk(f) if isinstance(n, ast.For)]
    if len(loops) != 1:
        raise OmenExtractError("_find_first_object: expected one for loop")
    it = loops[0].iter
    if not (isinstance(it, ast.Call) and isinstance(it.func, ast.Name) and it.func.id == "range" and len(it.args) == 2
            and isinstance(it.args[0], ast.Constant) and it.args[0].value == 0):
        raise OmenExtractError("_find_first_object: loop is not range(0, ...)")
    hi = it.args[1]

    def is_maxl(e):
        return isinstance(e, ast.Attribute) and e.attr == "max_level" and isinstance(e.value, ast.Name) and e.value.id == "self"
    if is_maxl(hi):
        C["omen_first_object_extra"] = 0
    elif isinstance(hi, ast.BinOp) and isinstance(hi.op, ast.Add) and is_maxl(hi.left) \
            and isinstance(hi.right, ast.Constant) and hi.right.value == 1:
        C["omen_first_object_extra"] = 1
    else:
        raise OmenExtractError("_find_first_object: unexpected range bound")
    # Optimizer(max_length = 4) in PcfgGrammar.__init__
    f = _func(_parse("lib_guesser/pcfg_grammar.py"), "__init__", "PcfgGrammar")
    opt = []
    for n in ast.walk(f):
        if isinstance(n, ast.Call) and isinstance(n.func, ast.Name) and n.func.id == "Optimizer":
            kw = {k.arg: k.value for k in n.keywords}
            v = kw.get("max_length") if kw else (n.args[0] if n.args else None)
            opt.append(ast.literal_eval(v))
    if len(opt) != 1 or not isinstance(opt[0], int) or opt[0] < 0:
        raise OmenExtractError("Optimizer construction not as expected: %r" % opt)
    C["omen_optimizer_max_length"] = opt[0]
    # guessing_info/omen_guess_number: never removed (as first coded), or removed in
    # CrackingSession.run right after restore_omen under EXACTLY `if not self.pcfg.omen_exit:`
    # (the model's sess_restore); anything else fails closed
    removes = []
    for rel in ("lib_guesser/cracking_session.py", "pcfg_guesser.py", "lib_guesser/pcfg_grammar.py"):
        tree = _parse(rel)
        for n in ast.walk(tree):
            if isinstance(n, ast.Call) and isinstance(n.func, ast.Attribute) and n.func.attr == "remove_option":
                vals = [a.value for a in n.args if isinstance(a, ast.Constant)]
                if "omen_guess_number" in vals:
                    removes.append((rel, n))
    cleared = False
    if removes:
        if len(removes) != 1 or removes[0][0] != "lib_guesser/cracking_session.py":
            raise OmenExtractError("omen_guess_number is removed at an unexpected place: %r" % [r for r, _ in removes])
        # WHERE in CrackingSession.run and UNDER WHICH CONDITION the option is removed (right after restore_omen, under
        # `if not self.pcfg.omen_exit:`) is decided by the translator tie of run itself (harness/translate_session.py ->
        # gen/Session_gen.v; SessionGenProofs.cracking_run_eq against SessionModel.m_prologue, C15_source_resume_is_
        # sess_restore): a removal at another place or under another condition breaks that equality.  The shape check
        # that used to be here raised on harmless rewrites of the statement (`if omen_exit: pass / else: remove`, a
        # local for the flag, ...) and took every OMEN constant of this plugin with it.
        run = _func(_parse("lib_guesser/cracking_session.py"), "run", "CrackingSession")
        call = removes[0][1]
        inside = any((getattr(n, "lineno", None), getattr(n, "col_offset", None)) == (call.lineno, call.col_offset)
                     for n in ast.walk(run) if isinstance(n, ast.Call))
        if not inside:
            raise OmenExtractError("remove_option(omen_guess_number) is not inside CrackingSession.run")
        cleared = True
    sets = 0
    for n in ast.walk(_parse("lib_guesser/cracking_session.py")):
        if isinstance(n, ast.Call) and isinstance(n.func, ast.Attribute) and n.func.attr == "set":
            vals = [a.value for a in n.args if isinstance(a, ast.Constant)]
            if "omen_guess_number" in vals:
                sets += 1
    if sets != 1:
        raise OmenExtractError("expected exactly one save_config.set(..., 'omen_guess_number', ...) in cracking_session.py")
    C["omen_number_cleared"] = cleared
    return C
