"""Translator tie of the trainer's pass orchestration to the source (C19, C06, C05, C03): on every run the
Python text of lib_trainer/run_trainer.py (the whole of run_trainer), lib_trainer/print_statistics.py,
PCFGPasswordParser.__init__ and trainer.py (parse_command_line, main) is translated to Gallina
(harness/translate_trainer_run.py, ast only, fail closed) into coq/gen/TrainerRun_gen.v;
coq/theories/TrainerRunGenProofs.v proves the generated definitions equal to the hand-written model of
TrainerRunModel.v for every instantiation of the collaborators, TrainerRunProofs.v / TrainerRunInst.v
derive the statements of C19 / C06 / C05 about the passes from that model.

The file is rewritten only when its text changes (nothing is rebuilt on an unchanged tree).  When the
translation fails the file is replaced by one that does not compile - no stale definition survives - and
the error is raised, which the extractor driver records for this plugin.  No data constants are returned."""
import translate_trainer_run


def extract():
    translate_trainer_run.write()
    return {}
