"""Status of the translator tie of the OMEN generator core (harness/translate_omen_gen.py), as
correspondence-style obligations of C10 / C15: for each of the three translated classes the
generated file must compile and the files with the equality proofs (generated definition =
hand-written model of Omen.v) must have been built by `make` from the current generated text.
When one was not, it is compiled once more on its own to name the lemma that no longer checks
(the broken theorem a `no-failing-input-found` verdict names), or the construct the translator
refused.  On an unchanged tree this only stats the compiled files."""
import omen_gen_tie

# (what, generated file, proof files in dependency order)
TIES = [
    ("Optimizer.__init__/custom_copy/lookup/update = Omen.cempty/clookup/cupdate",
     "gen/OmenGen_opt_gen.v", ["theories/OmenGenOptProofs.v"]),
    ("GuessStructure._find_cp/_fill_out_parse_tree/_format_guess/next_guess = Omen.find_cp/fill/format_guess/gs_next",
     "gen/OmenGen_gs_gen.v", ["theories/OmenGenGsProofs.v", "theories/OmenGenGsNextProofs.v"]),
    ("MarkovCracker.__init__/_find_first_object/_increase_*_for_target/next_guess = Omen.mc_starts/increase/mc_next",
     "gen/OmenGen_mc_gen.v", ["theories/OmenGenMcProofs.v", "theories/OmenGenGenProofs.v"]),
]


def obligations():
    """-> [(name, ok, detail)] for the `corr` list of C10 / C15; after the first broken file of a
    class the later ones (which import it) are not compiled again"""
    out = []
    broken = False
    for what, gen, proofs in TIES:
        for rel in proofs:
            name = "omen-gen:translator-tie:%s (%s)" % (what, rel.split("/")[-1])
            if broken:
                out.append((name, False, "not checked: an earlier file of the translator tie does not build"))
                continue
            st = omen_gen_tie.status(name, gen, rel)
            out.append(st)
            if not st[1]:
                broken = True
    return out
