#!/venv/bin/python
"""Run the REAL pcfg_guesser.main() of a scratch copy of the code tree in this
process, with the quit request delivered at a chosen point instead of through
the keyboard thread (no change to the repository: module / class attributes are
replaced from outside, as harness/sched.py does).

    python main_driver.py <code_dir> '<json spec>'

spec = {"argv": ["-r", name, "-s", sess, ...],      command line of pcfg_guesser.py
        "quit_after_guesses": n | null,              should_exit is set right after the n-th guess was written
        "quit_after_pops": k | null,                 should_exit is set while the k-th pre-terminal is being generated
        "cap": max guesses (the run is abandoned beyond it)}

Prints one line  @@RESULT@@<json>  with {"out": [guesses handed to print_guess, in order], "pops": [[pt, prob], ...],
"error": str|null, "stray_stdout": text on stdout that is not one of those guesses, "lost_stdout": guesses handed to print_guess
that never reached stdout by the time main() had returned and the exit handlers had run (print_guess itself is NOT replaced:
the original runs and writes to the captured sys.stdout, so a buffer the program forgets to flush shows)}. "pop_at": [number of guesses handed out before the i-th pop].
The save file is written where main() puts it (beside the copy's pcfg_guesser.py), rulesets are read from
<code_dir>/Rules - which is why this runs on a copy of the tree and never on /repo itself."""
import io
import json
import os
import sys
import threading
import warnings


def main():
    code, spec = sys.argv[1], json.loads(sys.argv[2])
    sys.path.insert(0, code)
    os.chdir(code)
    with warnings.catch_warnings():
        warnings.simplefilter("ignore")
        import pcfg_guesser
        import lib_guesser.cracking_session as cs
        from lib_guesser.pcfg_grammar import PcfgGrammar
        from lib_guesser.priority_queue import PcfgQueue
    res = {"out": [], "pops": [], "pop_at": [], "error": None}
    qg, qp, cap = spec.get("quit_after_guesses"), spec.get("quit_after_pops"), spec.get("cap", 200000)
    grammars = []

    class Overflow(Exception):
        pass

    orig_print_guess = PcfgGrammar.print_guess

    def print_guess(self, g):
        if self not in grammars:
            grammars.append(self)
        res["out"].append(g)
        orig_print_guess(self, g)
        if qg is not None and len(res["out"]) == qg:
            self.should_exit = True
        if len(res["out"]) > cap:
            raise Overflow()

    class RecQueue(PcfgQueue):
        def next(self):
            it = PcfgQueue.next(self)
            if it is not None:
                res["pops"].append([[list(x) for x in it["pt"]], it["prob"]])
                res["pop_at"].append(len(res["out"]))
                if qp is not None and len(res["pops"]) == qp:
                    self.pcfg.should_exit = True
            return it

    class FakeThread:
        """the keyboard thread is never started; it counts as alive until a quit was requested"""

        def __init__(self, group=None, target=None, name=None, args=(), kwargs=None, *, daemon=None):
            self.daemon = True
            self._pcfg = args[1] if len(args) > 1 else None

        def start(self):
            pass

        def is_alive(self):
            return not (self._pcfg is not None and self._pcfg.should_exit)

    class FakeThreading:
        Thread = FakeThread
        main_thread = staticmethod(threading.main_thread)

    PcfgGrammar.print_guess = print_guess
    cs.threading, cs.PcfgQueue = FakeThreading, RecQueue
    old_argv, old_out, old_err = sys.argv, sys.stdout, sys.stderr
    sys.argv = ["pcfg_guesser.py"] + list(spec["argv"])
    sys.stdout, sys.stderr = io.StringIO(), io.StringIO()
    stray = ""
    try:
        try:
            pcfg_guesser.main()
        except Overflow:
            res["error"] = "overflow"
        except SystemExit as e:
            res["error"] = "SystemExit(%r)" % (e.code,)
        except Exception as e:      # noqa: BLE001 - the implementation raised
            res["error"] = "%s: %s" % (type(e).__name__, e)
        try:
            import atexit
            atexit._run_exitfuncs()          # what a normal interpreter exit would still run (the driver leaves through os._exit)
        except Exception:                    # noqa: BLE001
            pass
        written = sys.stdout.getvalue().split("\n")
        if written and written[-1] == "":
            written.pop()
        # the guesses in order are a subsequence of the stdout lines; what is left over is stray output, what is missing was lost
        strays, lost, j = [], [], 0
        for g in res["out"]:
            k = j
            while k < len(written) and written[k] != g:
                k += 1
            if k == len(written):
                lost.append(g)
            else:
                strays += written[j:k]
                j = k + 1
        strays += written[j:]
        stray = "\n".join(strays) + ("\n" if strays else "")
        res["lost_stdout"] = lost[:50]
        res["lost_stdout_count"] = len(lost)
        res["stderr_tail"] = sys.stderr.getvalue()[-600:]
    finally:
        sys.argv, sys.stdout, sys.stderr = old_argv, old_out, old_err
    res["stray_stdout"] = stray
    print("@@RESULT@@" + json.dumps(res))
    sys.stdout.flush()
    os._exit(0)


if __name__ == "__main__":
    main()
