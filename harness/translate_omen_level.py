#!/venv/bin/python
"""Fail-closed translator of the OMEN level / keyspace kernels from Python to Gallina.

    /venv/bin/python harness/translate_omen_level.py            print the generated text
    /venv/bin/python harness/translate_omen_level.py --write    write coq/gen/OmenLevel_gen.v and
                                                                coq/gen/OmenKeyspace_gen.v

Sources (only parsed with `ast`, never imported or executed):
  lib_trainer/omen/evaluate_password.py   find_omen_level, _rec_calc_keyspace, calc_omen_keyspace
  lib_scorer/omen_scorer.py               OmenScorer.parse  (and the one line of OmenScorer.__init__
                                          that defines self.max_len)
The output targets the runtime coq/theories/OmenRt.v: coq/gen/OmenLevel_gen.v holds
find_omen_level and OmenScorer.parse (C11), coq/gen/OmenKeyspace_gen.v holds
_rec_calc_keyspace and calc_omen_keyspace (C18), so that a change of one group only
touches the property it belongs to.  coq/theories/OmenLevelGenProofs.v and
OmenKeyspaceGenProofs.v prove each generated definition equal to the hand-written
model of coq/theories/OmenLevel.v / OmenKeyspace.v that the theorems of C11 / C18 are
about.  A change of one of these functions changes the generated
text and the equality proofs are re-checked against it on every run.

How Python values are represented (the representation is the trusted part):

  int                      Z   (every int; they do become negative here)
  str                      ostr = list N (code points);  a one-character str that is a key of a
                           'next_letter' dict or the value of `s[i]` is a code point N ("char")
  omen_trainer             the model's record ttab (OmenLevel.v), immutable:
     .ngram .min_length .max_length    Z.of_nat of tt_ngram / tt_min_len / tt_max_len
     .ln_lookup            tt_ln : list of levels; an element is the (level, count) tuple of which
                           only [0] is modelled
     .grammar              tt_grammar : list tentry in dict order;  grammar[s] is find_entry
                           (None = KeyError);  .items() yields (te_key e, e)
     grammar[s]['ip_level'] / ['ep_level'] / ['next_letter']      te_ip / te_ep / te_next
     next_letter[c] is find_letter (None = KeyError), .items() yields (char, (level, count))
     grammar[s]['keyspace_cache'][length][level]   the only thing the functions mutate: the nested
                           dicts are the explicit state kc : kcache (OmenRt.v), threaded through
                           the functions that touch it and returned beside their value
  self (OmenScorer)        the model's record scorer:  .ngram is sc_ngramZ (-1 = None),
                           .ip[s] / .cp[s] are first_level s (sc_ip / sc_cp) (None = KeyError),
                           .ln[i] is pyindex on sc_ln (the first element, the str '10' in Python, is
                           the number 10 in the model), .max_len is replaced by the translation
                           of the right-hand side of the single `self.max_len = ...` that must be
                           the last statement of __init__; no method other than __init__ /
                           _load_omen may store into these attributes (checked)
  collections.Counter      association list Z -> Z in insertion order, 0 on a missing key

Accepted subset (anything else raises TranslateError with file:line):

  statements  x = e (scalars, and read-only containers: a grammar entry, a next_letter dict, the
              grammar, ln_lookup, the scorer's tables);  x = P for a container P of the keyspace
              cache, once per name: an alias of the PATH (keys captured at the binding; the dict
              objects of the cache are created where missing and never replaced, so reads and
              writes through the alias are reads and writes through the path);
              x += e / x -= e on ints;  c = Counter();  c[k] = e, c[k] += e on such a
              counter;  P[k] = {} on a cache path, only directly under `if k not in P:` (so a
              container is created where missing and never replaced);  P[len][lvl] = e and
              P[len][lvl] += e on the cache (`+=` reads the old value BEFORE the right-hand
              side is evaluated, as Python does);  if / elif / else (a conditional followed
              by more statements either leaves on one side or contains no return / continue of
              the enclosing block);  for ... in range(a, b) / range(b) / enumerate(ln_lookup) /
              D.items() (no else; fresh loop targets);  while with a test that cannot raise (no
              else);  continue;  return e;  try: ... except KeyError: ... as the LAST statement
              of its block, both parts leaving the function on every path;  print(...) of
              strings, str(...) and counter reads (dropped: stdout is not modelled);
              docstrings;  pass.
  expressions names;  int constants, -e, a + b, a - b on ints;  s + t, s + c on strings;
              len(s);  s[a:b] with optional int bounds;  s[i];  the attribute / subscript
              forms listed above;  a < b, <=, >, >=, ==, != on ints, also chained (a <= b <= c, operands that cannot raise);  k in P / k not in P on the
              cache;  not e;  `and` / `or` of expressions that cannot raise;  True / False;
              calls of an already translated function of SPECS with the trainer variable as
              first argument (positional or keyword arguments, defaults filled in).
              Sub-expressions that can raise are bound in Python's evaluation order.

What the translation does NOT model: exceptions other than KeyError / IndexError (a
TypeError from the str '10' in OmenScorer.ln[0] cannot arise once ngram >= 1), object
identity (the counter and a cache container newly created by `= {}` are reachable through one
path only: aliasing the counter is refused, an alias of an existing cache container is a name
for its path, see above), termination (fuel: [mwhile] and the recursion raise the pseudo
exception OutOfFuel; the equalities are proved for all fuel above the password / table
length), stdout (print), and rebinding of the translated functions from another module.
"""
import ast
import hashlib
import os
import re
import sys

HERE = os.path.dirname(os.path.abspath(__file__))
if HERE not in sys.path:
    sys.path.insert(0, HERE)
import common  # noqa: E402
from translate_kernel import TranslateError, _paren, _comment, _close  # noqa: E402

OUT_LEVEL = os.path.join("gen", "OmenLevel_gen.v")
OUT_KEYSPACE = os.path.join("gen", "OmenKeyspace_gen.v")
OUTS = (OUT_LEVEL, OUT_KEYSPACE)
SRC_EVAL = "lib_trainer/omen/evaluate_password.py"
SRC_SCORER = "lib_scorer/omen_scorer.py"

# ------------------------------------------------------------------ types


class Ty:
    def __init__(self, kind, **kw):
        self.kind = kind
        self.__dict__.update(kw)

    def __repr__(self):
        return self.kind


INT, BOOL, STR, CHAR = Ty("int"), Ty("bool"), Ty("str"), Ty("char")
TRAINER, SCORER, COUNTER, KC = Ty("trainer"), Ty("scorer"), Ty("counter"), Ty("kc")
LINFO = Ty("linfo")            # a (level, count) tuple, only [0] modelled: nat
# what a local may hold: scalars, and the containers the translated functions only READ (the tables of the
# trainer / scorer record are immutable here: no store into them is in the accepted subset, so a local
# alias of one of them is just a name for that value).  The one mutable structure, the keyspace cache, is
# different: see FunctionTranslator.alias
VALUE_KINDS = ("int", "bool", "str", "char", "entry", "linfo", "next", "grammar", "lnlist", "sdict", "sln")
COQ_TYPE = {"int": "Z", "str": "ostr", "trainer": "ttab", "scorer": "scorer", "counter": "counter"}

SPECS = [
    dict(out=OUT_LEVEL, src=SRC_EVAL, cls=None, py="find_omen_level", coq="py_find_omen_level",
         params=[("omen_trainer", TRAINER), ("password", STR)], ret=INT, state=False),
    dict(out=OUT_KEYSPACE, src=SRC_EVAL, cls=None, py="_rec_calc_keyspace", coq="py_rec_calc_keyspace",
         params=[("omen_trainer", TRAINER), ("level", INT), ("length", INT), ("ip", STR)], ret=INT,
         state=True, recursive=True),
    dict(out=OUT_KEYSPACE, src=SRC_EVAL, cls=None, py="calc_omen_keyspace", coq="py_calc_omen_keyspace",
         params=[("omen_trainer", TRAINER), ("max_level", INT), ("max_keyspace", INT)], ret=COUNTER,
         state=True, defaults={"max_level": 18, "max_keyspace": 10000000000}),
    dict(out=OUT_LEVEL, src=SRC_SCORER, cls="OmenScorer", py="parse", coq="py_scorer_parse",
         params=[("self", SCORER), ("password", STR)], ret=INT, state=False),
]

RESERVED = set("""fuel fuel' kc tt true false nil Some None Z N Ok Raise catch KeyError dict_get zlen pyslice pyindex
zrange zenumerate mfor mwhile Continue Return cnt_get cnt_set kc_get1 kc_get2 kc_get3 kc_mem1 kc_mem2 kc_mem3 kc_set1 kc_set2
kc_set3 sc_ngramZ find_entry find_letter first_level te_key te_ip te_ep te_next tt_ngram tt_min_len tt_max_len
tt_grammar tt_ln sc_ip sc_cp sc_ln negb
fun let in if then else match with end forall exists Type Prop Set SProp as at return fix cofix struct where using
for mod""".split()) | {s["coq"] for s in SPECS}


# Python names the translation gives a fixed meaning to: they may not be rebound, neither as a
# local variable nor at module level (Counter must be collections.Counter)
BUILTINS_USED = {"len", "range", "enumerate", "print", "str", "Counter", "KeyError"}


class Env:
    def __init__(self):
        self.types = {}        # name -> Ty

    def copy(self):
        e = Env()
        e.types = dict(self.types)
        return e


class K:
    """the context of a block: what falling off its end and `continue` become (terms of type
    res A, A the answer type of the block) and what the value of `return e` becomes (a term of type A)"""

    def __init__(self, fall, cont, retv):
        self.fall, self.cont, self.retv = fall, cont, retv


class FunctionTranslator:
    def __init__(self, path, fn, spec, done, cls_node=None):
        self.path, self.fn, self.spec, self.done, self.cls_node = path, fn, spec, done, cls_node
        self.uid = 0
        self.pre = []          # binds of the statement being translated, in evaluation order
        self.guards = []       # (dump of key, dump of container) of the enclosing `if k not in P:`
        self.state = bool(spec.get("state"))
        self.fuel = "fuel'" if spec.get("recursive") else "fuel"

    # -------------------------------------------------------------- errors / names
    def fail(self, node, msg):
        where = (self.spec["cls"] + "." if self.spec["cls"] else "") + self.fn.name
        raise TranslateError("%s:%d: %s: %s  [%s]" % (
            self.path, getattr(node, "lineno", self.fn.lineno), where, msg,
            _comment(ast.unparse(node)).split("\n")[0][:100]))

    def tmp(self):
        self.uid += 1
        return "tmp%d" % self.uid

    def check_name(self, node, name):
        if name in RESERVED or name in BUILTINS_USED or name.startswith("py_") or re.fullmatch(r"tmp\d+", name) \
                or not name.isidentifier() or not name.isascii():
            self.fail(node, "the variable name %r collides with the generated code" % name)

    def check_signature(self):
        fn, spec = self.fn, self.spec
        a = fn.args
        if fn.decorator_list or a.vararg or a.kwarg or a.kwonlyargs or a.posonlyargs or a.kw_defaults:
            self.fail(fn, "unsupported signature")
        names = [x.arg for x in a.args]
        want = [n for n, _ in spec["params"]]
        if names != want:
            self.fail(fn, "parameters are %r, the translator knows %r" % (names, want))
        if any(x.annotation is not None for x in a.args) or fn.returns is not None:
            self.fail(fn, "annotations are not supported")
        defaults = {}
        for x, d in zip(a.args[len(a.args) - len(a.defaults):], a.defaults):
            if not (isinstance(d, ast.Constant) and type(d.value) is int):
                self.fail(fn, "unsupported default value")
            defaults[x.arg] = d.value
        if defaults != spec.get("defaults", {}):
            self.fail(fn, "defaults are %r, the translator knows %r" % (defaults, spec.get("defaults", {})))
        for n, _ in spec["params"]:
            self.check_name(fn, n)

    # -------------------------------------------------------------- expressions
    @staticmethod
    def zconst(v):
        return "%d%%Z" % v if v >= 0 else "(%d)%%Z" % v

    def emit(self, text):
        self.pre.append(text)

    def pure(self, e, env, what):
        """translate e, which must not raise (no bind may be needed)"""
        n = len(self.pre)
        t, ty = self.expr(e, env)
        if len(self.pre) != n:
            self.fail(e, "%s must not contain a sub-expression that can raise" % what)
        return t, ty

    def value(self, e, env):
        """an expression used as a value (not as an intermediate container)"""
        t, ty = self.expr(e, env)
        if ty.kind not in VALUE_KINDS:
            self.fail(e, "a value of type %s cannot be used here (containers are reachable through one path only)" % ty.kind)
        return t, ty

    def as_int(self, e, env):
        t, ty = self.value(e, env)
        if ty.kind != "int":
            self.fail(e, "expected an int, got %s" % ty.kind)
        return t

    def expr(self, e, env):
        """-> (Gallina text, Ty); sub-expressions that can raise are appended to self.pre"""
        if isinstance(e, ast.Name):
            if e.id not in env.types:
                self.fail(e, "unknown variable %r (not assigned on every path to here?)" % e.id)
            return e.id, env.types[e.id]
        if isinstance(e, ast.Constant):
            if e.value is True:
                return "true", BOOL
            if e.value is False:
                return "false", BOOL
            if type(e.value) is int:
                return self.zconst(e.value), INT
            self.fail(e, "unsupported constant")
        if isinstance(e, ast.UnaryOp):
            if isinstance(e.op, ast.Not):
                a, ta = self.value(e.operand, env)
                if ta.kind != "bool":
                    self.fail(e, "`not` of a non-boolean (truthiness of other values is not supported)")
                return "negb %s" % _paren(a), BOOL
            if isinstance(e.op, ast.USub):
                if isinstance(e.operand, ast.Constant) and type(e.operand.value) is int:
                    return self.zconst(-e.operand.value), INT
                return "(- %s)%%Z" % _paren(self.as_int(e.operand, env)), INT
            self.fail(e, "unsupported unary operator")
        if isinstance(e, ast.BinOp):
            a, ta = self.value(e.left, env)
            b, tb = self.value(e.right, env)
            kinds = (ta.kind, tb.kind)
            if isinstance(e.op, ast.Add) and kinds == ("int", "int"):
                return "(%s + %s)%%Z" % (_paren(a), _paren(b)), INT
            if isinstance(e.op, ast.Sub) and kinds == ("int", "int"):
                return "(%s - %s)%%Z" % (_paren(a), _paren(b)), INT
            if isinstance(e.op, ast.Add) and kinds == ("str", "str"):
                return "(%s ++ %s)" % (_paren(a), _paren(b)), STR
            if isinstance(e.op, ast.Add) and kinds == ("str", "char"):
                return "(%s ++ [%s])" % (_paren(a), b), STR
            self.fail(e, "unsupported arithmetic (%s %s %s)" % (ta.kind, type(e.op).__name__, tb.kind))
        if isinstance(e, ast.BoolOp):
            parts = []
            for v in e.values:
                t, ty = self.pure(v, env, "an operand of and / or")
                if ty.kind != "bool":
                    self.fail(v, "and / or of a non-boolean")
                parts.append(_paren(t))
            op = " && " if isinstance(e.op, ast.And) else " || "
            return "(" + op.join(parts) + ")", BOOL
        if isinstance(e, ast.Compare):
            return self.compare(e, env)
        if isinstance(e, ast.Attribute):
            return self.attribute(e, env)
        if isinstance(e, ast.Subscript):
            if not isinstance(e.ctx, ast.Load):
                self.fail(e, "unsupported use of a subscript")
            return self.subscript(e, env)
        if isinstance(e, ast.Call):
            return self.call(e, env)
        self.fail(e, "unsupported expression (%s)" % type(e).__name__)

    def compare(self, e, env):
        if len(e.ops) != 1 or len(e.comparators) != 1:
            # a OP b OP c is (a OP b) and (b OP c) with b evaluated once: accepted for int operands that cannot
            # raise (nothing in the subset has an effect), so evaluating b twice and not short-circuiting is the same
            operands = [e.left] + list(e.comparators)
            parts = []
            n = len(self.pre)
            for l, op, r in zip(operands, e.ops, operands[1:]):
                if isinstance(op, (ast.In, ast.NotIn)):
                    self.fail(e, "chained comparison with `in`")
                t, ty = self.compare(ast.copy_location(ast.Compare(l, [op], [r]), e), env)
                parts.append(_paren(t))
            if len(self.pre) != n:
                self.fail(e, "a chained comparison must not contain a sub-expression that can raise")
            return "(" + " && ".join(parts) + ")", BOOL
        op, right = e.ops[0], e.comparators[0]
        if isinstance(op, (ast.In, ast.NotIn)):
            t = self.member(e, e.left, right, env)
            return (t if isinstance(op, ast.In) else "negb %s" % t), BOOL
        a, ta = self.value(e.left, env)
        b, tb = self.value(right, env)
        if (ta.kind, tb.kind) != ("int", "int"):
            self.fail(e, "comparison of %s with %s" % (ta.kind, tb.kind))
        a, b = _paren(a), _paren(b)
        table = {ast.Lt: "(%s <? %s)%%Z" % (a, b), ast.LtE: "(%s <=? %s)%%Z" % (a, b),
                 ast.Gt: "(%s <? %s)%%Z" % (b, a), ast.GtE: "(%s <=? %s)%%Z" % (b, a),
                 ast.Eq: "(%s =? %s)%%Z" % (a, b), ast.NotEq: "negb (%s =? %s)%%Z" % (a, b)}
        if type(op) not in table:
            self.fail(e, "unsupported comparison operator")
        return table[type(op)], BOOL

    def member(self, node, key, container, env):
        """k in P on the cache -> the name of a bound boolean"""
        if not self.state:
            self.fail(node, "the cache is not available in this function")
        # 'keyspace_cache' in grammar[ip]
        if isinstance(key, ast.Constant) and key.value == "keyspace_cache":
            c, tc = self.expr(container, env)
            if tc.kind != "entry":
                self.fail(node, "'keyspace_cache' in a value of type %s" % tc.kind)
            x = self.tmp()
            self.emit("%s <- kc_mem1 kc (te_key %s) ;;" % (x, _paren(c)))
            return x
        k = self.as_int(key, env)          # Python evaluates the left operand first
        c, tc = self.expr(container, env)
        if tc.kind != "kcpath" or len(tc.keys) not in (1, 2):
            self.fail(node, "`in` is supported on the keyspace cache only")
        x = self.tmp()
        self.emit("%s <- kc_mem%d kc %s %s ;;" % (x, len(tc.keys) + 1, " ".join(_paren(t) for t in tc.keys), _paren(k)))
        return x

    def attribute(self, e, env):
        v, tv = self.expr(e.value, env)
        if tv.kind == "trainer":
            if e.attr in ("ngram", "min_length", "max_length"):
                field = {"ngram": "tt_ngram", "min_length": "tt_min_len", "max_length": "tt_max_len"}[e.attr]
                return "Z.of_nat (%s %s)" % (field, v), INT
            if e.attr == "ln_lookup":
                return "tt_ln %s" % v, Ty("lnlist")
            if e.attr == "grammar":
                return "tt_grammar %s" % v, Ty("grammar")
            self.fail(e, "unsupported attribute of the trainer")
        if tv.kind == "scorer":
            if e.attr == "ngram":
                return "sc_ngramZ %s" % v, INT
            if e.attr == "ip":
                return "sc_ip %s" % v, Ty("sdict")
            if e.attr == "cp":
                return "sc_cp %s" % v, Ty("sdict")
            if e.attr == "ln":
                return "sc_ln %s" % v, Ty("sln")
            if e.attr == "max_len":
                return self.scorer_max_len(e, v)
            self.fail(e, "unsupported attribute of the scorer")
        self.fail(e, "attribute of a value of type %s" % tv.kind)

    def scorer_max_len(self, node, selftext):
        """self.max_len -> the translation of the right-hand side of the single assignment
        `self.max_len = ...`, which must be the last statement of __init__"""
        cls = self.cls_node
        stores = [n for n in ast.walk(cls) if isinstance(n, ast.Attribute) and n.attr == "max_len"
                  and isinstance(n.ctx, (ast.Store, ast.Del))]
        init = [n for n in cls.body if isinstance(n, ast.FunctionDef) and n.name == "__init__"]
        if len(init) != 1 or len(stores) != 1:
            self.fail(node, "self.max_len must be assigned exactly once, in __init__")
        last = init[0].body[-1]
        if not (isinstance(last, ast.Assign) and len(last.targets) == 1 and last.targets[0] is stores[0]
                and isinstance(stores[0].value, ast.Name) and stores[0].value.id == "self"):
            self.fail(node, "`self.max_len = ...` must be the last statement of __init__")
        if init[0].args.args[0].arg != "self":
            self.fail(node, "__init__ without self")
        env = Env()
        env.types["self"] = SCORER
        saved, self.pre = self.pre, []
        try:
            t, ty = self.expr(last.value, env)
            if self.pre or ty.kind != "int":
                self.fail(last, "unsupported definition of self.max_len")
        finally:
            self.pre = saved
        if selftext != "self":
            self.fail(node, "self.max_len of another object")
        return t, INT

    def slice_bound(self, b, env):
        if b is None:
            return "None"
        return "(Some %s)" % _paren(self.as_int(b, env))

    def subscript(self, e, env):
        v, tv = self.expr(e.value, env)
        sl = e.slice
        if isinstance(sl, ast.Slice):
            if tv.kind != "str":
                self.fail(e, "slice of a value of type %s" % tv.kind)
            if sl.step is not None:
                self.fail(e, "slice with a step")
            return "pyslice %s %s %s" % (_paren(v), self.slice_bound(sl.lower, env), self.slice_bound(sl.upper, env)), STR
        skey = sl.value if isinstance(sl, ast.Constant) and type(sl.value) is str else None
        if tv.kind == "str":
            i = self.as_int(sl, env)
            x = self.tmp()
            self.emit("%s <- pyindex %s %s ;;" % (x, _paren(v), _paren(i)))
            return x, CHAR
        if tv.kind == "grammar":
            k, tk = self.value(sl, env)
            if tk.kind != "str":
                self.fail(e, "the grammar is indexed by strings")
            x = self.tmp()
            self.emit("%s <- dict_get (find_entry %s (%s)) ;;" % (x, _paren(k), v))
            return x, Ty("entry")
        if tv.kind == "entry":
            if skey == "ip_level":
                return "Z.of_nat (te_ip %s)" % _paren(v), INT
            if skey == "ep_level":
                return "Z.of_nat (te_ep %s)" % _paren(v), INT
            if skey == "next_letter":
                return "te_next %s" % _paren(v), Ty("next")
            if skey == "keyspace_cache":
                if not self.state:
                    self.fail(e, "the cache is not available in this function")
                return "", Ty("kcpath", keys=["te_key %s" % _paren(v)])
            self.fail(e, "unsupported key of a grammar entry")
        if tv.kind == "kcpath":
            k = self.as_int(sl, env)
            keys = tv.keys + [k]
            if len(keys) == 3:
                x = self.tmp()
                self.emit("%s <- kc_get3 kc %s ;;" % (x, " ".join(_paren(t) for t in keys)))
                return x, INT
            return "", Ty("kcpath", keys=keys)
        if tv.kind == "next":
            k, tk = self.value(sl, env)
            if tk.kind != "char":
                self.fail(e, "next_letter is indexed by single characters")
            x = self.tmp()
            self.emit("%s <- dict_get (find_letter %s (%s)) ;;" % (x, _paren(k), v))
            return x, LINFO
        if tv.kind == "linfo":
            if isinstance(sl, ast.Constant) and type(sl.value) is int and sl.value == 0:
                return "Z.of_nat %s" % _paren(v), INT
            self.fail(e, "of a (level, count) tuple only [0] is modelled")
        if tv.kind == "lnlist":
            i = self.as_int(sl, env)
            x = self.tmp()
            self.emit("%s <- pyindex (%s) %s ;;" % (x, v, _paren(i)))
            return x, LINFO
        if tv.kind == "sln":
            i = self.as_int(sl, env)
            x = self.tmp()
            self.emit("%s <- pyindex (%s) %s ;;" % (x, v, _paren(i)))
            return "Z.of_nat %s" % x, INT
        if tv.kind == "sdict":
            k, tk = self.value(sl, env)
            if tk.kind != "str":
                self.fail(e, "the scorer's tables are indexed by strings")
            x = self.tmp()
            self.emit("%s <- dict_get (first_level %s (%s)) ;;" % (x, _paren(k), v))
            return "Z.of_nat %s" % x, INT
        if tv.kind == "counter":
            k = self.as_int(sl, env)
            return "cnt_get %s %s" % (v, _paren(k)), INT
        self.fail(e, "subscript of a value of type %s" % tv.kind)

    def call(self, e, env):
        f = e.func
        if isinstance(f, ast.Name) and f.id == "len" and len(e.args) == 1 and not e.keywords:
            v, tv = self.expr(e.args[0], env)
            if tv.kind == "str":
                return "zlen %s" % _paren(v), INT
            if tv.kind in ("sln", "lnlist"):
                return "zlen (%s)" % v, INT
            self.fail(e, "len of a value of type %s" % tv.kind)
        if isinstance(f, ast.Name) and f.id in self.done or (isinstance(f, ast.Name) and f.id == self.spec["py"]):
            spec = self.spec if f.id == self.spec["py"] else self.done[f.id]
            if f.id == self.spec["py"] and not spec.get("recursive"):
                self.fail(e, "recursion in a function the translator does not know as recursive")
            if spec["cls"] != self.spec["cls"] or spec["src"] != self.spec["src"]:
                self.fail(e, "call across modules")
            args = self.bind_args(e, spec, env)
            x = self.tmp()
            if spec.get("state"):
                if not self.state:
                    self.fail(e, "call of a function that touches the cache from one that does not")
                self.emit("'(%s, kc) <- %s %s %s kc %s ;;" % (x, spec["coq"], self.fuel, args[0], " ".join(_paren(a) for a in args[1:])))
            else:
                self.emit("%s <- %s %s %s ;;" % (x, spec["coq"], self.fuel, " ".join(_paren(a) for a in args)))
            if spec["ret"].kind not in VALUE_KINDS:
                self.fail(e, "call of a function returning a %s" % spec["ret"].kind)
            return x, spec["ret"]
        self.fail(e, "unsupported call")

    def bind_args(self, e, spec, env):
        params = spec["params"]
        given = {}
        if len(e.args) > len(params):
            self.fail(e, "too many arguments")
        for (n, _), a in zip(params, e.args):
            if isinstance(a, ast.Starred):
                self.fail(e, "unsupported argument")
            given[n] = a
        for kw in e.keywords:
            if kw.arg is None or kw.arg in given or kw.arg not in dict(params):
                self.fail(e, "unsupported keyword argument")
            given[kw.arg] = kw.value
        out = []
        # Python evaluates positional arguments, then keyword arguments, left to right; the binds are
        # emitted in that order, the texts are put in parameter order
        order = list(e.args) + [kw.value for kw in e.keywords]
        texts = {}
        for a in order:
            n = [k for k, v in given.items() if v is a][0]
            ty = dict(params)[n]
            t, ta = self.expr(a, env)
            if ta.kind != ty.kind:
                self.fail(a, "argument %r has type %s, expected %s" % (n, ta.kind, ty.kind))
            if ty.kind in ("trainer", "scorer") and not isinstance(a, ast.Name):
                self.fail(a, "the object must be passed on by name")
            texts[n] = t
        for n, ty in params:
            if n not in texts:
                if n in spec.get("defaults", {}):
                    out.append(self.zconst(spec["defaults"][n]))
                    continue
                self.fail(e, "missing argument %r" % n)
            out.append(texts[n])
        return out

    # -------------------------------------------------------------- statements
    @staticmethod
    def terminates(stmts):
        if not stmts:
            return False
        s = stmts[-1]
        if isinstance(s, (ast.Return, ast.Continue)):
            return True
        if isinstance(s, ast.If):
            return FunctionTranslator.terminates(s.body) and FunctionTranslator.terminates(s.orelse)
        if isinstance(s, ast.Try):
            return (not s.orelse and not s.finalbody and FunctionTranslator.terminates(s.body)
                    and all(FunctionTranslator.terminates(h.body) for h in s.handlers))
        return False

    def root(self, t):
        """the state variable a store through target t changes"""
        while isinstance(t, (ast.Subscript, ast.Attribute)):
            t = t.value
        if not isinstance(t, ast.Name):
            self.fail(t, "unsupported assignment target")
        return t.id

    def assigned(self, stmts, env):
        """names (re)bound or mutated somewhere in stmts, in order of first occurrence; 'kc' stands
        for the cache (a store through the trainer object, or a call of a function that touches it)"""
        out = []

        def add(n):
            if n not in out:
                out.append(n)

        def target(t):
            if isinstance(t, ast.Name):
                add(t.id)
            elif isinstance(t, ast.Subscript):
                # a store into a counter changes that counter; every other store (through the trainer
                # object, or through a local that holds one of its grammar entries) changes the cache
                r = self.root(t)
                ty = env.types.get(r)
                add(r if ty is not None and ty.kind == "counter" else "kc")
            elif isinstance(t, ast.Tuple):
                for x in t.elts:
                    target(x)
            else:
                self.fail(t, "unsupported assignment target")

        for s in stmts:
            for n in ast.walk(s):
                if isinstance(n, ast.Assign):
                    for t in n.targets:
                        target(t)
                elif isinstance(n, (ast.AugAssign, ast.AnnAssign)):
                    target(n.target)
                elif isinstance(n, ast.For):
                    target(n.target)
                elif isinstance(n, (ast.NamedExpr, ast.Delete, ast.Global, ast.Nonlocal, ast.With, ast.Import,
                                    ast.ImportFrom, ast.FunctionDef, ast.AsyncFunctionDef, ast.ClassDef, ast.Lambda,
                                    ast.ListComp, ast.SetComp, ast.DictComp, ast.GeneratorExp, ast.Yield,
                                    ast.YieldFrom, ast.Await, ast.Break, ast.Raise, ast.Assert, ast.Match)):
                    self.fail(n, "unsupported construct")
                elif isinstance(n, ast.Call) and isinstance(n.func, ast.Name):
                    spec = self.done.get(n.func.id) or (self.spec if n.func.id == self.spec["py"] else None)
                    if spec is not None and spec.get("state"):
                        add("kc")
        return out

    def state_text(self, names):
        if not names:
            return "tt", "(_ : unit)"
        if len(names) == 1:
            return names[0], names[0]
        t = "(" + ", ".join(names) + ")"
        return t, "'" + t

    def note(self, s):
        return "(* %d: %s *)" % (s.lineno, _comment(ast.unparse(s).split("\n")[0]))

    def line(self, ind, text, s=None):
        pad = "  " * ind
        if s is None:
            return pad + text + "\n"
        first = pad + text
        return first + " " * max(2, 72 - len(first)) + self.note(s) + "\n"

    def flush(self, ind, s, text):
        """the binds of the statement, then its own line; the source comment goes on the first of them"""
        lines = self.pre + ([text] if text is not None else [])
        self.pre = []
        out = ""
        for n, l in enumerate(lines):
            out += self.line(ind, l, s if n == 0 else None)
        return out

    def block(self, stmts, env, k, ind):
        if not stmts:
            return self.line(ind, k.fall(None))
        s, rest = stmts[0], list(stmts[1:])
        if self.pre:
            raise TranslateError("internal: pending binds")
        if isinstance(s, ast.Expr) and isinstance(s.value, ast.Constant) and type(s.value.value) is str:
            return self.block(rest, env, k, ind)          # docstring
        if isinstance(s, ast.Pass):
            return self.block(rest, env, k, ind)
        if isinstance(s, ast.Return):
            if rest:
                self.fail(rest[0], "statement after return")
            if s.value is None:
                self.fail(s, "return without a value")
            t, ty = self.expr(s.value, env)
            return self.flush(ind, s, "Ok %s" % _paren(k.retv(s, t, ty)))
        if isinstance(s, ast.Continue):
            if rest:
                self.fail(rest[0], "statement after continue")
            return self.line(ind, k.cont(s), s)
        if isinstance(s, ast.Assign):
            return self.assign(s, env, ind) + self.block(rest, env, k, ind)
        if isinstance(s, ast.AugAssign):
            return self.augassign(s, env, ind) + self.block(rest, env, k, ind)
        if isinstance(s, ast.Expr):
            return self.effect(s, env, ind) + self.block(rest, env, k, ind)
        if isinstance(s, ast.If):
            return self.if_(s, rest, env, k, ind)
        if isinstance(s, ast.For):
            return self.for_(s, rest, env, k, ind)
        if isinstance(s, ast.While):
            return self.while_(s, rest, env, k, ind)
        if isinstance(s, ast.Try):
            return self.try_(s, rest, env, k, ind)
        self.fail(s, "unsupported statement (%s)" % type(s).__name__)

    def bind(self, node, name, ty, env):
        self.check_name(node, name)
        old = env.types.get(name)
        if old is not None and old.kind != ty.kind:
            self.fail(node, "%r changes its type from %s to %s" % (name, old.kind, ty.kind))
        if old is not None and old.kind in ("trainer", "scorer", "counter", "kc", "kcpath", "aliaskey"):
            self.fail(node, "%r is rebound" % name)
        env.types[name] = ty

    def store_target(self, s, t, env):
        """a subscript store target -> ("counter", name, key) | ("kc", keys)"""
        c, tc = self.expr(t.value, env)
        if tc.kind == "counter":
            if not isinstance(t.value, ast.Name):
                self.fail(s, "unsupported store")
            return ("counter", t.value.id, self.as_int(t.slice, env))
        if tc.kind == "entry" and isinstance(t.slice, ast.Constant) and t.slice.value == "keyspace_cache":
            if not self.state:
                self.fail(s, "the cache is not available in this function")
            return ("kc", ["te_key %s" % _paren(c)])
        if tc.kind == "kcpath":
            return ("kc", tc.keys + [self.as_int(t.slice, env)])
        self.fail(s, "unsupported store (into a value of type %s)" % tc.kind)

    def assign(self, s, env, ind):
        if len(s.targets) != 1:
            self.fail(s, "multiple assignment targets")
        t, v = s.targets[0], s.value
        if isinstance(t, ast.Name):
            # c = Counter()
            if isinstance(v, ast.Call) and isinstance(v.func, ast.Name) and v.func.id == "Counter" \
                    and not v.args and not v.keywords:
                if t.id in env.types:
                    self.fail(s, "%r is rebound to a counter" % t.id)
                self.bind(s, t.id, COUNTER, env)
                return self.line(ind, "let %s := @nil (Z * Z) in" % t.id, s)
            if isinstance(v, ast.Call) and isinstance(v.func, ast.Attribute) and v.func.attr == "setdefault" \
                    and len(v.args) == 2 and not v.keywords and isinstance(v.args[1], ast.Dict) and not v.args[1].keys:
                # x = P.setdefault(k, {})  is  `if k not in P: P[k] = {}` followed by `x = P[k]`
                c, tc = self.expr(v.func.value, env)
                if tc.kind != "kcpath" or len(tc.keys) != 1 or not self.state:
                    self.fail(s, "setdefault(k, {}) is supported on grammar[ip]['keyspace_cache'] only")
                key = self.as_int(v.args[0], env)
                keys = " ".join(_paren(x) for x in tc.keys + [key])
                x = self.tmp()
                self.emit("%s <- kc_mem2 kc %s ;;" % (x, keys))
                self.emit("kc <- (if negb %s then kc <- kc_set2 kc %s [] ;; Ok kc else Ok kc) ;;" % (x, keys))
                return self.alias(s, t.id, Ty("kcpath", keys=tc.keys + [key]), env, ind)
            text, ty = self.expr(v, env)
            if ty.kind == "kcpath":
                return self.alias(s, t.id, ty, env, ind)
            if ty.kind not in VALUE_KINDS:
                self.fail(v, "a value of type %s cannot be bound to a variable" % ty.kind)
            self.bind(s, t.id, ty, env)
            return self.flush(ind, s, "let %s := %s in" % (t.id, text))
        if isinstance(t, ast.Subscript):
            # Python evaluates the right-hand side first, then the target's container and key
            empty = isinstance(v, ast.Dict) and not v.keys
            if not empty:
                val = self.as_int(v, env)
            tgt = self.store_target(s, t, env)
            if tgt[0] == "counter":
                if empty:
                    self.fail(s, "unsupported store")
                return self.flush(ind, s, "let %s := cnt_set %s %s %s in" % (tgt[1], tgt[1], _paren(tgt[2]), _paren(val)))
            keys = tgt[1]
            if empty:
                if len(keys) not in (1, 2):
                    self.fail(s, "an empty dict is stored where the cache holds a count")
                if (ast.dump(t.slice), ast.dump(t.value)) not in self.guards:
                    self.fail(s, "a cache container may only be created directly under `if k not in P:` for the same k and P")
                return self.flush(ind, s, "kc <- kc_set%d kc %s [] ;;" % (len(keys), " ".join(_paren(x) for x in keys)))
            if len(keys) != 3:
                self.fail(s, "a count is stored where the cache holds a dict")
            return self.flush(ind, s, "kc <- kc_set3 kc %s %s ;;" % (" ".join(_paren(x) for x in keys), _paren(val)))
        self.fail(s, "unsupported assignment target")

    def alias(self, s, name, ty, env, ind):
        """x = P for a cache container P (grammar[ip]['keyspace_cache'] or ...[length]).  The dict object
        at a path of the cache is created once (`if k not in P: P[k] = {}`, enforced) and never replaced,
        so a name bound to it is a name for the PATH: the key values are captured at the binding
        (later rebinding of the variables they came from does not matter), reads and writes through the
        name are reads and writes through the path.  The binding itself evaluates the path, which raises
        KeyError when a container on the way is missing.  The name may be bound only once."""
        if name in env.types:
            self.fail(s, "%r is rebound to a cache container (an alias may be bound once)" % name)
        self.check_name(s, name)
        keys = ["%s_key%d" % (name, i) for i in range(len(ty.keys))]
        for k in keys:
            self.check_name(s, k)
            if k in env.types:
                self.fail(s, "the variable name %r collides with the generated code" % k)
        self.emit("%s <- kc_get%d kc %s ;;" % (self.tmp(), len(ty.keys), " ".join(_paren(x) for x in ty.keys)))
        for k, text in zip(keys, ty.keys):
            self.emit("let %s := %s in" % (k, text))
            env.types[k] = Ty("aliaskey")
        env.types[name] = Ty("kcpath", keys=keys)
        return self.flush(ind, s, None)

    def augassign(self, s, env, ind):
        if not isinstance(s.op, (ast.Add, ast.Sub)):
            self.fail(s, "only += and -= are supported")
        op = "+" if isinstance(s.op, ast.Add) else "-"
        t = s.target
        if isinstance(t, ast.Name):
            if t.id not in env.types or env.types[t.id].kind != "int":
                self.fail(s, "`%s=` on something that is not an int variable" % op)
            v = self.as_int(s.value, env)
            return self.flush(ind, s, "let %s := (%s %s %s)%%Z in" % (t.id, t.id, op, _paren(v)))
        if isinstance(t, ast.Subscript):
            # Python: container, key, old value, THEN the right-hand side, then the store
            tgt = self.store_target(s, t, env)
            old = self.tmp()
            if tgt[0] == "counter":
                self.emit("let %s := cnt_get %s %s in" % (old, tgt[1], _paren(tgt[2])))
                v = self.as_int(s.value, env)
                return self.flush(ind, s, "let %s := cnt_set %s %s (%s %s %s)%%Z in" % (tgt[1], tgt[1], _paren(tgt[2]), old, op, _paren(v)))
            keys = tgt[1]
            if len(keys) != 3:
                self.fail(s, "`%s=` on a cache container" % op)
            ks = " ".join(_paren(x) for x in keys)
            self.emit("%s <- kc_get3 kc %s ;;" % (old, ks))
            v = self.as_int(s.value, env)
            return self.flush(ind, s, "kc <- kc_set3 kc %s (%s %s %s)%%Z ;;" % (ks, old, op, _paren(v)))
        self.fail(s, "unsupported assignment target")

    def effect(self, s, env, ind):
        c = s.value
        if isinstance(c, ast.Call) and isinstance(c.func, ast.Name) and c.func.id == "print" and "print" not in env.types:
            for a in list(c.args) + [kw.value for kw in c.keywords]:
                for n in ast.walk(a):
                    ok = isinstance(n, (ast.Constant, ast.Name, ast.BinOp, ast.Add, ast.Load, ast.JoinedStr,
                                        ast.FormattedValue, ast.Subscript)) \
                        or (isinstance(n, ast.Call) and isinstance(n.func, ast.Name) and n.func.id == "str"
                            and len(n.args) == 1 and not n.keywords)
                    if isinstance(n, ast.Name) and n.id != "str" and n.id not in env.types:
                        ok = False
                    if isinstance(n, ast.Subscript):
                        ok = isinstance(n.value, ast.Name) and n.value.id in env.types \
                            and env.types[n.value.id].kind == "counter" and isinstance(n.slice, ast.Name)
                    if not ok:
                        self.fail(s, "print of something that could raise or have an effect")
            return self.line(ind, "(* stdout is not modelled *)", s)
        self.fail(s, "unsupported expression statement")

    def if_(self, s, rest, env, k, ind):
        c, tc = self.value(s.test, env)
        if tc.kind != "bool":
            self.fail(s, "condition of type %s (truthiness of other values is not supported)" % tc.kind)
        body, orelse = list(s.body), list(s.orelse)
        bt, et = self.terminates(body), self.terminates(orelse)
        guard = None
        if isinstance(s.test, ast.Compare) and len(s.test.ops) == 1 and isinstance(s.test.ops[0], ast.NotIn):
            guard = (ast.dump(s.test.left), ast.dump(s.test.comparators[0]))
        env_t, env_f = env.copy(), env.copy()

        def then_block(stmts, kk, i):
            if guard:
                self.guards.append(guard)
            try:
                return self.block(stmts, env_t, kk, i)
            finally:
                if guard:
                    self.guards.pop()

        if not rest or bt or et:
            if rest and bt and et:
                self.fail(rest[0], "unreachable statement")
            head = self.flush(ind, s, "if %s then" % c)
            then_stmts = body if (not rest or bt) else body + rest
            else_stmts = orelse if (not rest or et) else orelse + rest
            return (head + then_block(then_stmts, k, ind + 1)
                    + self.line(ind, "else") + self.block(else_stmts, env_f, k, ind + (0 if bt else 1)))
        # both branches fall through to `rest`: no return / continue of the enclosing block inside
        for n in body + orelse:
            self.no_escape(n)
        names = [n for n in self.assigned(body + orelse, env) if n in env.types]
        if not names:
            self.fail(s, "conditional without effect")
        for n in names:
            if env.types[n].kind in ("trainer", "scorer", "kcpath", "aliaskey"):
                self.fail(s, "%r is rebound in the conditional" % n)
        tup, pat = self.state_text(names)
        join = K(lambda _n: "Ok %s" % tup, lambda n: self.fail(n, "continue"), lambda n, t, ty: self.fail(n, "return"))
        out = self.flush(ind, s, "%s <- (if %s then" % (pat, c))
        out += then_block(body, join, ind + 2)
        out += self.line(ind + 1, "else")
        out += _close(self.block(orelse, env_f, join, ind + 2), ") ;;")
        return out + self.block(rest, env, k, ind)

    def no_escape(self, n, in_loop=False):
        """no return anywhere, no continue outside a nested loop"""
        if isinstance(n, ast.Return) or (isinstance(n, ast.Continue) and not in_loop):
            self.fail(n, "control flow leaving a conditional that is followed by more statements")
        for c in ast.iter_child_nodes(n):
            self.no_escape(c, in_loop or isinstance(n, (ast.For, ast.While)))

    def loop_state(self, s, env):
        names = [n for n in self.assigned(s.body, env) if n in env.types]
        for n in names:
            if env.types[n].kind in ("trainer", "scorer", "kcpath", "aliaskey"):
                self.fail(s, "%r is rebound in the loop" % n)
        return names

    def loop_k(self, names, k):
        tup, pat = self.state_text(names)
        cont = "Ok (Continue %s)" % tup
        return tup, pat, K(lambda _n: cont, lambda _n: cont,
                           lambda n, t, ty: "Return %s" % _paren(k.retv(n, t, ty)))

    def for_(self, s, rest, env, k, ind):
        if s.orelse:
            self.fail(s, "for ... else")
        it = s.iter
        inner = env.copy()
        names = self.loop_state(s, env)
        lets = []

        def targets(n):
            if not (isinstance(s.target, ast.Tuple) and len(s.target.elts) == n
                    and all(isinstance(x, ast.Name) for x in s.target.elts)):
                self.fail(s, "the loop needs %d plain targets" % n)
            return [x.id for x in s.target.elts]

        if isinstance(it, ast.Call) and isinstance(it.func, ast.Name) and it.func.id == "range" \
                and len(it.args) in (1, 2) and not it.keywords and "range" not in env.types:
            if not isinstance(s.target, ast.Name):
                self.fail(s, "range needs a single target")
            bounds = [self.as_int(a, env) for a in it.args]
            if len(bounds) == 1:
                bounds = ["0%Z"] + bounds
            binders = [(s.target.id, INT)]
            lst, pattern = "zrange %s %s" % (_paren(bounds[0]), _paren(bounds[1])), s.target.id
        elif isinstance(it, ast.Call) and isinstance(it.func, ast.Name) and it.func.id == "enumerate" \
                and len(it.args) in (1, 2) and not it.keywords and "enumerate" not in env.types:
            l, tl = self.expr(it.args[0], env)
            if tl.kind != "lnlist":
                self.fail(s, "enumerate of a value of type %s" % tl.kind)
            a, b = targets(2)
            binders = [(a, INT), (b, LINFO)]
            lst, pattern = "zenumerate (%s)" % l, "'(%s, %s)" % (a, b)
            if len(it.args) == 2:
                # enumerate(l, c) counts from the int constant c: the index of enumerate(l) plus c
                c = it.args[1]
                if not (isinstance(c, ast.Constant) and type(c.value) is int):
                    self.fail(s, "enumerate with a start that is not an int constant")
                lets = ["let %s := (%s + %s)%%Z in" % (a, a, _paren(self.zconst(c.value)))]
        elif isinstance(it, ast.Call) and isinstance(it.func, ast.Attribute) and it.func.attr == "items" \
                and not it.args and not it.keywords:
            l, tl = self.expr(it.func.value, env)
            a, b = targets(2)
            if tl.kind == "next":
                binders = [(a, CHAR), (b, LINFO)]
                lst, pattern = l, "'(%s, %s)" % (a, b)
            elif tl.kind == "grammar":
                binders = [(a, STR), (b, Ty("entry"))]
                lst, pattern = l, b
                lets = ["let %s := te_key %s in" % (a, b)]
            else:
                self.fail(s, ".items() of a value of type %s" % tl.kind)
        elif isinstance(it, ast.Call) and isinstance(it.func, ast.Attribute) and it.func.attr == "values" \
                and not it.args and not it.keywords:
            l, tl = self.expr(it.func.value, env)
            if tl.kind != "next" or not isinstance(s.target, ast.Name):
                self.fail(s, ".values() is supported on a next_letter dict with one plain target")
            binders = [(s.target.id, LINFO)]
            lst, pattern = l, "'(_, %s)" % s.target.id
        else:
            self.fail(s, "unsupported loop")
        for n, ty in binders:
            if n in env.types:
                self.fail(s, "the loop variable %r is already bound" % n)
            self.check_name(s, n)
            inner.types[n] = ty
        if len({n for n, _ in binders}) != len(binders):
            self.fail(s, "loop variables collide")
        tup, pat, body_k = self.loop_k(names, k)
        out = self.flush(ind, s, "mfor (%s) (fun %s %s =>" % (lst, pattern, pat))
        for l in lets:
            out += self.line(ind + 2, l)
        out += _close(self.block(list(s.body), inner, body_k, ind + 2), ")")
        out += self.line(ind, "%s (fun %s =>" % (tup, pat))
        out += _close(self.block(rest, env, k, ind), ")")
        return out

    def while_(self, s, rest, env, k, ind):
        if s.orelse:
            self.fail(s, "while ... else")
        names = self.loop_state(s, env)
        tup, pat, body_k = self.loop_k(names, k)
        inner = env.copy()
        c, tc = self.pure(s.test, env, "the test of a while loop")
        if tc.kind != "bool":
            self.fail(s, "condition of type %s (truthiness of other values is not supported)" % tc.kind)
        out = self.line(ind, "mwhile fuel (fun %s => %s)" % (pat, c), s)
        out += self.line(ind + 1, "(fun %s =>" % pat)
        out += _close(self.block(list(s.body), inner, body_k, ind + 2), ")")
        out += self.line(ind, "%s (fun %s =>" % (tup, pat))
        out += _close(self.block(rest, env, k, ind), ")")
        return out

    def try_(self, s, rest, env, k, ind):
        if rest or s.orelse or s.finalbody or len(s.handlers) != 1:
            self.fail(s, "try is supported as the last statement of its block, with one handler, no else / finally")
        h = s.handlers[0]
        if not (isinstance(h.type, ast.Name) and h.type.id == "KeyError" and h.name is None and "KeyError" not in env.types):
            self.fail(s, "only `except KeyError:` is supported")
        if not (self.terminates(list(s.body)) and self.terminates(list(h.body))):
            self.fail(s, "both the try body and the handler must leave the function on every path")
        # a `continue` inside the try body / handler would leave the try: refuse
        for n in list(s.body) + list(h.body):
            self.no_continue(n)
        out = self.line(ind, "catch KeyError (", s)
        out += _close(self.block(list(s.body), env.copy(), k, ind + 1), ") (")
        out += _close(self.block(list(h.body), env.copy(), k, ind + 1), ")")
        return out

    def no_continue(self, n, in_loop=False):
        if isinstance(n, ast.Continue) and not in_loop:
            self.fail(n, "continue inside try")
        for c in ast.iter_child_nodes(n):
            self.no_continue(c, in_loop or isinstance(n, (ast.For, ast.While)))

    # -------------------------------------------------------------- function
    def translate(self):
        self.check_signature()
        fn, spec = self.fn, self.spec
        env = Env()
        for n, ty in spec["params"]:
            env.types[n] = ty
        if self.state:
            env.types["kc"] = KC
        ret_ty = spec["ret"]
        first = spec["params"][0][0]

        def retv(node, text, ty):
            if ty.kind != ret_ty.kind:
                self.fail(node, "returns a value of type %s, the translator expects %s" % (ty.kind, ret_ty.kind))
            return "(%s, kc)" % text if self.state else text

        k = K(lambda _n: self.fail(fn, "the function can end without a return statement"),
              lambda n: self.fail(n, "continue outside a loop"), retv)
        params = " ".join("(%s : %s)" % (n, COQ_TYPE[ty.kind]) for n, ty in spec["params"])
        if self.state:
            params = params.replace("(%s : ttab)" % first, "(%s : ttab) (kc : kcache)" % first, 1)
        result = "res (%s * kcache)" % COQ_TYPE[ret_ty.kind] if self.state else "res %s" % COQ_TYPE[ret_ty.kind]
        dump = ast.dump(fn, include_attributes=False)
        sha = hashlib.sha256(dump.encode("utf-8")).hexdigest()
        out = "(* %s  %sdef %s  lines %d-%d\n   sha256 of ast.dump: %s%s *)\n" % (
            spec["src"], "class %s  " % spec["cls"] if spec["cls"] else "", fn.name, fn.lineno, fn.end_lineno, sha,
            "\n   defaults: %s" % ", ".join("%s = %d" % kv for kv in sorted(spec["defaults"].items()))
            if spec.get("defaults") else "")
        body = self.block(list(fn.body), env, k, 1)
        if spec.get("recursive"):
            out += "Fixpoint %s (fuel : nat) %s {struct fuel} : %s :=\n" % (spec["coq"], params, result)
            out += "  match fuel with\n  | O => Raise OutOfFuel\n  | S fuel' =>\n"
            out += _close(body, "\n  end.")
        else:
            out += "Definition %s (fuel : nat) %s : %s :=\n" % (spec["coq"], params, result)
            out += _close(body, ".")
        return out, sha


def _parse(repo, rel):
    path = os.path.join(repo, rel)
    with open(path, encoding="utf-8", newline="") as f:
        src = f.read()
    return path, ast.parse(src, filename=path)


def _check_module(path, tree, names):
    """a rebinding of one of the translated names inside its module would make the translated def
    not the one that runs"""
    for n in ast.walk(tree):
        if isinstance(n, (ast.Assign, ast.AugAssign, ast.AnnAssign, ast.Delete)):
            targets = n.targets if isinstance(n, (ast.Assign, ast.Delete)) else [n.target]
            for t in targets:
                for m in ast.walk(t):
                    if (isinstance(m, ast.Name) and m.id in names) or \
                            (isinstance(m, ast.Attribute) and m.attr in names):
                        raise TranslateError("%s:%d: %s is rebound" % (path, n.lineno, ast.unparse(t)))
        if isinstance(n, ast.Name) and n.id in ("setattr", "delattr", "__dict__", "globals", "exec", "eval"):
            raise TranslateError("%s:%d: %s is used in the module" % (path, n.lineno, n.id))
        if isinstance(n, (ast.Global, ast.Nonlocal)) and set(n.names) & (names | BUILTINS_USED):
            raise TranslateError("%s:%d: global / nonlocal of a translated name" % (path, n.lineno))
        # the builtins the translation interprets must be the builtins
        bound = []
        if isinstance(n, (ast.FunctionDef, ast.AsyncFunctionDef, ast.ClassDef)):
            bound = [n.name] + ([a.arg for a in n.args.args + n.args.kwonlyargs + n.args.posonlyargs
                                 + [x for x in (n.args.vararg, n.args.kwarg) if x]]
                                if not isinstance(n, ast.ClassDef) else [])
        elif isinstance(n, ast.Name) and isinstance(n.ctx, (ast.Store, ast.Del)):
            bound = [n.id]
        elif isinstance(n, ast.ExceptHandler) and n.name:
            bound = [n.name]
        elif isinstance(n, (ast.Import, ast.ImportFrom)):
            for a in n.names:
                b = a.asname or a.name.split(".")[0]
                if b == "Counter" and isinstance(n, ast.ImportFrom) and n.module == "collections" and n.level == 0 \
                        and a.name == "Counter":
                    continue
                if a.name == "*":
                    raise TranslateError("%s:%d: `import *` may rebind a builtin the translation interprets" % (path, n.lineno))
                bound.append(b)
        for b in bound:
            if b in BUILTINS_USED:
                raise TranslateError("%s:%d: %s is rebound in the module" % (path, n.lineno, b))


SCORER_STATE = ("ln", "ip", "cp", "ngram", "max_len")
SCORER_BUILDERS = ("__init__", "_load_omen")


def _check_scorer_class(path, cls):
    """the scorer record of the model is what __init__ / _load_omen leave behind: no other method of
    the class may change self.ln / self.ip / self.cp / self.ngram / self.max_len"""
    def is_state(n):
        return isinstance(n, ast.Attribute) and isinstance(n.value, ast.Name) and n.value.id == "self" \
            and n.attr in SCORER_STATE

    for fn in cls.body:
        if not isinstance(fn, (ast.FunctionDef, ast.AsyncFunctionDef)) or fn.name in SCORER_BUILDERS:
            continue
        for n in ast.walk(fn):
            bad = None
            if is_state(n) and not isinstance(n.ctx, ast.Load):
                bad = n
            elif isinstance(n, ast.Subscript) and is_state(n.value) and not isinstance(n.ctx, ast.Load):
                bad = n
            elif isinstance(n, ast.Call) and isinstance(n.func, ast.Attribute) and is_state(n.func.value):
                bad = n          # self.ln.append(...), self.ip.update(...), ...
            elif isinstance(n, ast.Call) and any(isinstance(a, ast.Name) and a.id == "self" for a in n.args):
                bad = n          # self handed to another function
            if bad is not None:
                raise TranslateError("%s:%d: %s.%s changes (or may change) the loaded tables: %s"
                                     % (path, bad.lineno, cls.name, fn.name, _comment(ast.unparse(bad))[:80]))


def render(out, repo=None):
    """-> text of the generated file `out` (one of OUTS) for the sources of the current working tree"""
    repo = repo or common.REPO
    specs = [s for s in SPECS if s["out"] == out]
    trees = {}
    for rel in sorted({s["src"] for s in specs}):
        trees[rel] = _parse(repo, rel)
        _check_module(trees[rel][0], trees[rel][1], {s["py"] for s in SPECS if s["src"] == rel})
    parts, done = [], {}
    for spec in specs:
        path, tree = trees[spec["src"]]
        scope, cls_node = tree.body, None
        if spec["cls"]:
            classes = [n for n in tree.body if isinstance(n, ast.ClassDef) and n.name == spec["cls"]]
            if len(classes) != 1:
                raise TranslateError("%s: class %s not found exactly once" % (path, spec["cls"]))
            cls_node = classes[0]
            scope = cls_node.body
            _check_scorer_class(path, cls_node)
        # the name must be defined exactly once in the whole module (no shadowing def elsewhere)
        alld = [n for n in ast.walk(tree) if isinstance(n, (ast.FunctionDef, ast.AsyncFunctionDef, ast.ClassDef))
                and n.name == spec["py"]]
        defs = [n for n in scope if isinstance(n, ast.FunctionDef) and n.name == spec["py"]]
        if len(defs) != 1 or len(alld) != 1:
            raise TranslateError("%s: %s not defined exactly once" % (path, spec["py"]))
        visible = {k: v for k, v in done.items() if v["src"] == spec["src"] and v["cls"] == spec["cls"]}
        text, _sha = FunctionTranslator(path, defs[0], spec, visible, cls_node).translate()
        parts.append(text)
        done[spec["py"]] = spec
    proofs = "OmenLevelGenProofs.v" if out == OUT_LEVEL else "OmenKeyspaceGenProofs.v"
    head = (
        "(* GENERATED by harness/translate_omen_level.py from the Python source of the current\n"
        "   working tree (%s) on every run of a check.  Do not edit.\n"
        "   Each definition is the line-by-line image of one Python function in the subset\n"
        "   documented in the translator; the numbers in the comments are source lines.\n"
        "   theories/%s proves these definitions equal to the hand-written\n"
        "   models of theories/OmenLevel.v / OmenKeyspace.v. *)\n"
        "From Coq Require Import List Arith Bool NArith ZArith.\n"
        "From Pcfg Require Import KernelRt OmenSpec OmenLevel OmenRt.\n"
        "Import ListNotations.\n\n" % (", ".join("%s: %s" % (s["src"], s["py"]) for s in specs), proofs))
    return head + "\n".join(parts)


def failure_text(err):
    """text written instead of the definitions when the translation fails: it must not
    compile, so that no stale generated definition survives"""
    return ("(* GENERATED by harness/translate_omen_level.py.  The translation of the current sources FAILED:\n"
            "   %s\n   The line below does not type-check on purpose. *)\n"
            "Definition omen_level_translation_failed : False := I.\n" % _comment(str(err)))


def write(repo=None):
    """write every generated file; a group that cannot be translated gets the failure text, the
    others are still written; the first error is raised at the end"""
    import extract_consts as X
    changed, first = False, None
    for out in OUTS:
        path = os.path.join(common.COQ, out)
        try:
            text = render(out, repo)
        except Exception as e:
            changed |= bool(X.write(path, failure_text("%s: %s" % (type(e).__name__, e))))
            first = first or e
            continue
        changed |= bool(X.write(path, text))
    if first is not None:
        raise first
    return changed


if __name__ == "__main__":
    if "--write" in sys.argv[1:]:
        print("written" if write() else "unchanged", [os.path.join(common.COQ, o) for o in OUTS])
    else:
        for o in OUTS:
            sys.stdout.write(render(o) + "\n")
