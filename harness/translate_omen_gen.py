#!/venv/bin/python
"""Fail-closed translator of the OMEN generator core from Python to Gallina.

    /venv/bin/python harness/translate_omen_gen.py            print the generated text
    /venv/bin/python harness/translate_omen_gen.py --write    write coq/gen/OmenGen_{opt,gs,mc}_gen.v

Sources (only parsed with `ast`, never imported or executed):
  lib_guesser/omen/optimizer.py        class Optimizer       __init__ custom_copy lookup update
  lib_guesser/omen/guess_structure.py  class GuessStructure  __init__ _find_cp _fill_out_parse_tree
                                                             _format_guess next_guess
  lib_guesser/omen/markov_cracker.py   class MarkovCracker   __init__ _find_first_object
                                                             _increase_ip_for_target _increase_len_for_target
                                                             next_guess
One generated file per class (a refused construct only breaks the file of its class and what
depends on it).  The output targets the runtime coq/theories/OmenGenRt.v; the files
coq/theories/OmenGen*Proofs.v prove the generated definitions equal to the hand-written model of
coq/theories/Omen.v that the theorems of C10 / C15 are about.

What a generated function is.  `def m(self, a, b)` of class C becomes
    py_<c>_m (fuel : nat) (self : <record of C>) [(opt : pyopt)] (a : ..) (b : ..) : res (value [* self'] [* opt'])
`Ok (v, self', opt')` = the Python return value and the objects the method may have changed,
`Raise e` = an exception propagates.  Which objects a method may change is fixed by SPECS (a
store the spec does not allow is refused).  `fuel` bounds `while` loops and the recursion.

How Python values are represented (the representation is the trusted part):

  int                      Z
  str                      ostr = list N (code points); an element of a grammar['cp'][p][l] list (a
                           one-character str) is a code point N ("char"); str + char appends it
  None-or-X                option X (None-or-list has Python's truth value: None and [] are false)
  row [ip, level, index]   pyrow = ostr * Z * Z;  r[0] r[1] r[2] with literal indices only
  parse tree               list pyrow
  Optimizer                record pyopt: max_length, tmto_lookup (list indexed by the length of
                           dicts ip -> dict level -> None-or-tree, association lists in insertion order)
  GuessStructure           record pygs (every attribute __init__ stores), .optimizer excepted
  MarkovCracker            record pymc, .optimizer excepted; cur_len / cur_ip are None or (level, index);
                           cur_guess is None or a pygs
  grammar                  record pygrammar: ['ngram'] ['max_level'] ints, ['ip'] ['ln'] dicts whose
                           keys are exactly 0..max_level read as (max, level |-> list), ['cp'] the
                           nested dict prefix -> level -> chars as association lists (Omen.cp_index)
  self.optimizer           the ONE Optimizer shared by the cracker and all its guess structures: the
                           state variable `opt`, threaded through every function that uses it.  The
                           translator checks that a GuessStructure is only ever constructed with
                           `optimizer = self.optimizer` and that the parameter is only stored.

Aliasing.  Lists are mutable objects in Python; the translation gives them value semantics, which
is sound because the translator enforces:
  * rows are reachable through self.parse_tree only.  A local name bound to `self.parse_tree[-1]`
    ("alias") is resolved to that path at every use: reads re-read the last row, stores replace
    it.  An alias dies when self.parse_tree is popped, extended or assigned; using a dead alias,
    or a loop iteration ending with an alias that was alive at loop entry dead, is refused.
    `x = self.parse_tree.pop()` gives a row nobody else refers to.
  * what is stored into Optimizer.tmto_lookup is the result of self.custom_copy(..) and what is
    read from it is only ever handed to self.custom_copy(..), whose body must build a new list of
    new rows (`[x[:] for x in l]`).
  * tree-valued locals are never stored through (only self.parse_tree and its last row are).
  * tables of the grammar are never stored into by any method of the three classes.

Accepted subset (anything else raises TranslateError with file:line):

  statements  x = e;  a, b = self._find_cp(..) directly followed by `if a is None:` (or `is not
              None`) on one of the two names;  a, b = self.optimizer.lookup(..);  x += e / x -= e on
              ints and str += char;  self.attr = e;  stores / += / -= into fields 1, 2 of
              self.parse_tree[-1] or of an alias;  self.parse_tree += e;  x = self.parse_tree.pop();
              self.tmto_lookup[a][b] = {} only directly under `if b not in self.tmto_lookup[a]:`;
              self.tmto_lookup[a][b][c] = self.custom_copy(e);  self.tmto_lookup = [] and
              self.tmto_lookup.append({});  if / elif / else (tests: bools, truth value of
              None-or-list, `x is None` / `x is not None`);  while (the test may raise; `while
              True`);  for .. in range(..) / self.parse_tree / enumerate(<list of characters>);
              break;  continue;  return e;  `return a, b`;  raise Exception;
              try: .. except KeyError: .. as the last statement of its block, both parts
              leaving the function, or `try: x = e  except KeyError: <leaves>` followed by more
              statements (only e is guarded: mtry);  x = self.tmto_lookup[a].setdefault(b, {})
              and stores x[c] = self.custom_copy(e) through that name;  x = self.cp[p] (a name
              for an immutable level dict);  print(.., file=sys.stderr) (dropped);  calls of
              translated methods as statements;  docstrings;  pass.
              A private method without a spec of the form `def h(self): [docstring]
              x = e | a, b = e1, e2 ... return e` (straight-line assignments to fresh locals) is
              inlined at its call sites self.h() (the assignments become lets with fresh names,
              e is translated in place, on the caller's self); any other unknown method of the
              three classes is refused.  `if A and B:` without else whose operands call methods
              is read as `if A: if B:` (short circuit).
  expressions names;  int constants, True, False, None;  -e, a + b, a - b on ints;  s + t, s + c on
              strings;  len(..);  s[a:b];  l[i];  the attribute / subscript forms of the objects
              above;  < <= > >= == != on ints;  k in D / k not in D on self.cp, self.cp[p],
              self.tmto_lookup[l];  not e;  `and` / `or` of expressions that cannot raise;
              [[a, b, c]] (a one-row tree), [a, b] (a cursor), t + u on trees;
              [x[:] for x in l];  calls self.m(..), self.optimizer.m(..),
              self.cur_guess.next_guess(), GuessStructure(..) with positional or keyword
              arguments, defaults filled in.  Sub-expressions that can raise are bound in
              Python's evaluation order.

What the translation does NOT model: exceptions other than KeyError / IndexError / TypeError-on-
None / `raise Exception` (AttributeError and friends are excluded by the type discipline), stderr,
object identity beyond the rules above, termination (fuel: loops and the recursion raise the
pseudo exception OutOfFuel; the equalities are proved for all fuel above a bound computed from the
tables), MarkovCracker.save_session / load_session (pickle: their order of fields is compared
separately), rebinding of the translated methods from another module.
"""
import ast
import hashlib
import os
import re
import sys

HERE = os.path.dirname(os.path.abspath(__file__))
if HERE not in sys.path:
    sys.path.insert(0, HERE)
import common  # noqa: E402
from translate_kernel import TranslateError, _paren, _comment, _close  # noqa: E402
from translate_omen_level import _check_module  # noqa: E402

OUT_OPT = os.path.join("gen", "OmenGen_opt_gen.v")
OUT_GS = os.path.join("gen", "OmenGen_gs_gen.v")
OUT_MC = os.path.join("gen", "OmenGen_mc_gen.v")
OUTS = (OUT_OPT, OUT_GS, OUT_MC)
SRC_OPT = "lib_guesser/omen/optimizer.py"
SRC_GS = "lib_guesser/omen/guess_structure.py"
SRC_MC = "lib_guesser/omen/markov_cracker.py"


# ------------------------------------------------------------------ types
class Ty:
    def __init__(self, kind, **kw):
        self.kind = kind
        self.__dict__.update(kw)

    def __repr__(self):
        return self.kind


INT, BOOL, STR, CHAR, UNIT, NONE = Ty("int"), Ty("bool"), Ty("str"), Ty("char"), Ty("unit"), Ty("none")
ROW, TREE, OTREE, CHARS = Ty("row"), Ty("tree"), Ty("otree"), Ty("chars")
OSTR, OBOOL, FOUND, OFCP = Ty("ostr"), Ty("obool"), Ty("found"), Ty("ofcp")
OPT, GS, MC, OGS, OPTREF = Ty("opt"), Ty("gs"), Ty("mc"), Ty("ogs"), Ty("optref")
CURSOR, CP, GRAMMAR = Ty("cursor"), Ty("cp"), Ty("grammar")
TBL_STR, TBL_INT, TBL_ANY = Ty("tbl", elem=STR), Ty("tbl", elem=INT), Ty("tbl", elem=None)
STRS, INTS, ANYS = Ty("list", elem=STR), Ty("list", elem=INT), Ty("list", elem=None)
CTREE = Ty("ctree")       # a value inside the Optimizer's table: may only be handed to custom_copy
FRESH = Ty("fresh")       # the result of custom_copy: None or a new tree
SELFOBJ = Ty("self")      # the return type of __init__

# what a local variable may hold
VALUE_KINDS = ("int", "bool", "str", "char", "row", "tree", "otree", "chars", "ostr", "obool", "tbl", "list", "fresh",
               "cplvl", "ctree")
# None-able kinds and what a non-None value of them is
OPTION_OF = {"otree": "tree", "ostr": "str", "obool": "bool", "ogs": "gs", "fresh": "tree"}

COQ_TYPE = {"int": "Z", "bool": "bool", "str": "ostr", "char": "N", "unit": "unit", "row": "pyrow", "tree": "pytree",
            "otree": "option pytree", "fresh": "option pytree", "chars": "list N", "ostr": "option ostr",
            "obool": "option bool", "found": "bool * option pytree", "ofcp": "option (list N * Z)",
            "opt": "pyopt", "gs": "pygs", "mc": "pymc", "grammar": "pygrammar", "cp": "pycp", "self": None}

CLASSES = {
    "Optimizer": dict(src=SRC_OPT, out=OUT_OPT, kind="opt", tag="opt", rec="pyopt", prefix="o_", blank="pyopt_blank",
                      attrs={"max_length": INT, "tmto_lookup": Ty("tmpath", keys=[])},
                      untranslated=()),
    "GuessStructure": dict(src=SRC_GS, out=OUT_GS, kind="gs", tag="gs", rec="pygs", prefix="gs_", blank="pygs_blank",
                           attrs={"first_guess": BOOL, "cp": CP, "max_level": INT, "ip": STR, "ip_length": INT,
                                  "cp_length": INT, "target_level": INT, "parse_tree": Ty("ptpath"),
                                  "optimizer": OPTREF},
                           untranslated=()),
    "MarkovCracker": dict(src=SRC_MC, out=OUT_MC, kind="mc", tag="mc", rec="pymc", prefix="m_", blank="pymc_blank",
                          attrs={"grammar": GRAMMAR, "optimizer": OPTREF, "max_level": INT, "length_ip": INT,
                                 "start_ip": INT, "start_length": INT, "target_level": INT, "cur_len": CURSOR,
                                 "cur_ip": CURSOR, "cur_guess": OGS},
                          # pickle I/O: not translated; they may only touch what Omen.mc_save / mc_load model
                          untranslated=("save_session", "load_session")),
}

# state_in: the objects the function takes beside its parameters ("opt" = the shared Optimizer; self is
# always taken); state_out: the objects it may change, returned beside its value, in this order
SPECS = [
    dict(cls="Optimizer", py="__init__", params=[("max_length", INT)], ret=SELFOBJ, state_in=[], state_out=[],
         init=True),
    dict(cls="Optimizer", py="custom_copy", params=[("input_list", OTREE)], ret=FRESH, state_in=[], state_out=[]),
    dict(cls="Optimizer", py="lookup", params=[("ip_ngram", STR), ("length", INT), ("target_level", INT)], ret=FOUND,
         state_in=[], state_out=[]),
    dict(cls="Optimizer", py="update", params=[("ip_ngram", STR), ("length", INT), ("target_level", INT),
                                               ("parse_tree", OTREE)], ret=UNIT, state_in=[], state_out=["self"]),
    dict(cls="GuessStructure", py="__init__",
         params=[("cp", CP), ("max_level", INT), ("ip", STR), ("cp_length", INT), ("target_level", INT),
                 ("optimizer", OPTREF)], ret=SELFOBJ, state_in=[], state_out=[], init=True),
    dict(cls="GuessStructure", py="_find_cp", params=[("ip", STR), ("top_level", INT), ("bottom_level", INT)],
         ret=OFCP, state_in=[], state_out=[]),
    dict(cls="GuessStructure", py="_fill_out_parse_tree", params=[("ip", STR), ("length", INT), ("target_level", INT)],
         ret=OTREE, state_in=["opt"], state_out=["opt"], recursive=True),
    dict(cls="GuessStructure", py="_format_guess", params=[], ret=STR, state_in=[], state_out=[]),
    dict(cls="GuessStructure", py="next_guess", params=[], ret=OSTR, state_in=["opt"], state_out=["self", "opt"]),
    dict(cls="MarkovCracker", py="_find_first_object", params=[("lookup_table", TBL_ANY)], ret=INT, state_in=[],
         state_out=[]),
    dict(cls="MarkovCracker", py="_increase_len_for_target", params=[], ret=OBOOL, state_in=[], state_out=["self"]),
    dict(cls="MarkovCracker", py="_increase_ip_for_target", params=[("working_target", INT)], ret=OBOOL,
         defaults={"working_target": 0}, state_in=[], state_out=["self"]),
    dict(cls="MarkovCracker", py="next_guess", params=[], ret=OSTR, state_in=["opt"], state_out=["self", "opt"]),
    dict(cls="MarkovCracker", py="__init__", params=[("grammar", GRAMMAR), ("target_level", INT), ("optimizer", OPTREF)],
         defaults={"target_level": 1, "optimizer": None}, ret=SELFOBJ, state_in=[], state_out=[], init=True),
]
for _s in SPECS:
    _s["coq"] = "py_%s_%s" % (CLASSES[_s["cls"]]["tag"], _s["py"].strip("_"))
    _s["src"] = CLASSES[_s["cls"]]["src"]
    _s["out"] = CLASSES[_s["cls"]]["out"]

RESERVED = set("""fuel fuel' opt tt true false nil Some None Z N Ok Raise catch KeyError IndexError TypeError PyException
OutOfFuel dict_get not_none is_none zlen pyslice pyindex pysetindex zrange mfor mwhile mblock Continue Break Return
Fall Leave dfind dmem dset truthy btruthy negb lvl_find copy_rows self mtry zenumerate
fun let in if then else match with end forall exists Type Prop Set SProp as at return fix cofix struct where using
for mod""".split()) | {s["coq"] for s in SPECS}

BUILTINS_USED = {"len", "range", "enumerate", "print", "Exception", "KeyError", "GuessStructure"}


class Env:
    def __init__(self):
        self.types = {}        # name -> Ty
        self.alive = set()     # alias names that still denote self.parse_tree[-1]
        self.init_attrs = None  # inside __init__: the attributes stored so far
        self.rename = {}       # Python name -> Gallina name (locals of an inlined helper get fresh names)

    def copy(self):
        e = Env()
        e.types = dict(self.types)
        e.alive = set(self.alive)
        e.init_attrs = self.init_attrs       # shared on purpose: first stores are top-level statements
        e.rename = dict(self.rename)
        return e


class K:
    """the context of a block.  fall(env): what falling off its end becomes (a term of type res A, A
    the answer type of the block); cont_v / brk_v (node, env) and ret_v(node, text, ty): the VALUES
    of type A that `continue`, `break` and `return e` produce (emitted as Ok (..))"""

    def __init__(self, fall, cont_v, brk_v, ret_v):
        self.fall, self.cont_v, self.brk_v, self.ret_v = fall, cont_v, brk_v, ret_v


def zconst(v):
    return "%d%%Z" % v if v >= 0 else "(%d)%%Z" % v


class FunctionTranslator:
    def __init__(self, path, fn, spec, specs_by_cls, cls_node):
        self.path, self.fn, self.spec, self.cls_node = path, fn, spec, cls_node
        self.specs_by_cls = specs_by_cls     # class -> {py name -> spec} of what is translated BEFORE this one
        self.cls = CLASSES[spec["cls"]]
        self.uid = 0
        self.pre = []
        self.guards = []
        self.fuel = "fuel'" if spec.get("recursive") else "fuel"
        self.init = bool(spec.get("init"))
        self.has_opt = "opt" in spec["state_in"]
        self.may_set_self = self.init or "self" in spec["state_out"]
        self.may_set_opt = "opt" in spec["state_out"]

    # -------------------------------------------------------------- errors / names
    def fail(self, node, msg):
        raise TranslateError("%s:%d: %s.%s: %s  [%s]" % (
            self.path, getattr(node, "lineno", self.fn.lineno), self.spec["cls"], self.fn.name, msg,
            _comment(ast.unparse(node)).split("\n")[0][:100]))

    def tmp(self):
        self.uid += 1
        return "tmp%d" % self.uid

    def check_name(self, node, name):
        if name in RESERVED or name in BUILTINS_USED or name.startswith("py_") or re.fullmatch(r"tmp\d+", name) \
                or not name.isidentifier() or not name.isascii() or name in ("self",):
            self.fail(node, "the variable name %r collides with the generated code" % name)

    def emit(self, text):
        self.pre.append(text)

    # -------------------------------------------------------------- coercions
    def coerce(self, node, text, ty, want):
        """text : ty used where a value of kind `want` is needed"""
        w = want.kind
        if ty.kind == w and w not in ("tbl", "list"):
            return text
        if w in ("tbl", "list") and ty.kind == w:
            if want.elem is None or (ty.elem is not None and ty.elem.kind == want.elem.kind):
                return text
        if ty.kind == "none" and w in ("otree", "ostr", "obool", "ogs", "cursor", "fresh"):
            return "None"
        if w in OPTION_OF and ty.kind == OPTION_OF[w]:
            if w == "fresh" and not getattr(ty, "copied", False):
                self.fail(node, "a tree that is not a fresh copy is used where a copy is required")
            return "Some %s" % _paren(text)
        if w == "otree" and ty.kind in ("fresh",):
            return text
        if w == "optref" and ty.kind in ("optref", "none"):
            return ""
        self.fail(node, "a value of type %s is used where %s is expected" % (ty.kind, w))

    def as_int(self, e, env):
        t, ty = self.value(e, env)
        if ty.kind != "int":
            self.fail(e, "expected an int, got %s" % ty.kind)
        return t

    def value(self, e, env):
        t, ty = self.expr(e, env)
        if ty.kind not in VALUE_KINDS + ("none", "cursorval", "cursor", "ogs", "gs"):
            self.fail(e, "a value of type %s cannot be used here" % ty.kind)
        return t, ty

    def pure(self, e, env, what):
        n = len(self.pre)
        t, ty = self.expr(e, env)
        if len(self.pre) != n:
            self.fail(e, "%s must not contain a sub-expression that can raise" % what)
        return t, ty

    def truth(self, e, env):
        """the truth value of e as a bool text"""
        if isinstance(e, ast.UnaryOp) and isinstance(e.op, ast.Not):
            return "negb %s" % _paren(self.truth(e.operand, env))
        t, ty = self.expr(e, env)
        if ty.kind == "bool":
            return t
        if ty.kind in ("otree", "ptpath", "fresh"):
            return "truthy %s" % _paren(t)
        if ty.kind == "tree":
            return "truthy (Some %s)" % _paren(t)
        if ty.kind == "obool":
            return "btruthy %s" % _paren(t)
        self.fail(e, "truth value of a %s is not supported" % ty.kind)

    # -------------------------------------------------------------- expressions
    def expr(self, e, env):
        """-> (Gallina text, Ty); sub-expressions that can raise are appended to self.pre"""
        if isinstance(e, ast.Name):
            if e.id not in env.types:
                self.fail(e, "unknown variable %r (not assigned on every path to here?)" % e.id)
            ty = env.types[e.id]
            if ty.kind == "alias":
                self.fail(e, "the alias %r of self.parse_tree[-1] may only be subscripted" % e.id)
            if ty.kind == "tm2alias":
                self.fail(e, "%r may only be stored through" % e.id)
            if ty.kind in ("paircomp", "dead"):
                self.fail(e, "%r cannot be used here (%s)" % (e.id, getattr(ty, "why", "result of _find_cp before the None test")))
            return env.rename.get(e.id, e.id), ty
        if isinstance(e, ast.Constant):
            if e.value is True:
                return "true", BOOL
            if e.value is False:
                return "false", BOOL
            if e.value is None:
                return "None", NONE
            if type(e.value) is int:
                return zconst(e.value), INT
            self.fail(e, "unsupported constant")
        if isinstance(e, ast.UnaryOp):
            if isinstance(e.op, ast.Not):
                return self.truth(e, env), BOOL
            if isinstance(e.op, ast.USub):
                if isinstance(e.operand, ast.Constant) and type(e.operand.value) is int:
                    return zconst(-e.operand.value), INT
                return "(- %s)%%Z" % _paren(self.as_int(e.operand, env)), INT
            self.fail(e, "unsupported unary operator")
        if isinstance(e, ast.BinOp):
            a, ta = self.value(e.left, env)
            b, tb = self.value(e.right, env)
            kinds = (ta.kind, tb.kind)
            if isinstance(e.op, ast.Add) and kinds == ("int", "int"):
                return "(%s + %s)%%Z" % (_paren(a), _paren(b)), INT
            if isinstance(e.op, ast.Sub) and kinds == ("int", "int"):
                return "(%s - %s)%%Z" % (_paren(a), _paren(b)), INT
            if isinstance(e.op, ast.Add) and kinds == ("str", "str"):
                return "(%s ++ %s)" % (_paren(a), _paren(b)), STR
            if isinstance(e.op, ast.Add) and kinds == ("str", "char"):
                return "(%s ++ [%s])" % (_paren(a), b), STR
            if isinstance(e.op, ast.Add) and kinds == ("tree", "tree"):
                return "(%s ++ %s)" % (_paren(a), _paren(b)), TREE
            self.fail(e, "unsupported arithmetic (%s %s %s)" % (ta.kind, type(e.op).__name__, tb.kind))
        if isinstance(e, ast.BoolOp):
            parts = []
            for v in e.values:
                n = len(self.pre)
                t = self.truth(v, env)
                if len(self.pre) != n:
                    self.fail(v, "an operand of and / or must not contain a sub-expression that can raise")
                parts.append(_paren(t))
            op = " && " if isinstance(e.op, ast.And) else " || "
            return "(" + op.join(parts) + ")", BOOL
        if isinstance(e, ast.Compare):
            return self.compare(e, env)
        if isinstance(e, ast.Attribute):
            return self.attribute(e, env)
        if isinstance(e, ast.Subscript):
            if not isinstance(e.ctx, ast.Load):
                self.fail(e, "unsupported use of a subscript")
            return self.subscript(e, env)
        if isinstance(e, ast.Call):
            return self.call(e, env)
        if isinstance(e, ast.List):
            return self.display(e, env)
        if isinstance(e, ast.Dict) and not e.keys:
            return "", Ty("emptydict")
        if isinstance(e, ast.ListComp):
            return self.listcomp(e, env)
        self.fail(e, "unsupported expression (%s)" % type(e).__name__)

    def display(self, e, env):
        if not e.elts:
            return "", Ty("emptylist")
        if any(isinstance(x, ast.Starred) for x in e.elts):
            self.fail(e, "unsupported list display")
        # [[ip, level, index]] : a tree of one new row
        if len(e.elts) == 1 and isinstance(e.elts[0], ast.List) and len(e.elts[0].elts) == 3:
            r = e.elts[0].elts
            a, ta = self.value(r[0], env)
            if ta.kind != "str":
                self.fail(e, "the first field of a row is a str")
            b = self.as_int(r[1], env)
            c = self.as_int(r[2], env)
            return "[(%s, %s, %s)]" % (a, b, c), TREE
        # [level, index] : a cursor
        if len(e.elts) == 2:
            a = self.as_int(e.elts[0], env)
            b = self.as_int(e.elts[1], env)
            return "(%s, %s)" % (a, b), Ty("cursorval")
        self.fail(e, "unsupported list display")

    def listcomp(self, e, env):
        """[x[:] for x in l]  : a new list of new rows"""
        ok = (len(e.generators) == 1 and not e.generators[0].ifs and not e.generators[0].is_async
              and isinstance(e.generators[0].target, ast.Name) and isinstance(e.elt, ast.Subscript)
              and isinstance(e.elt.value, ast.Name) and e.elt.value.id == e.generators[0].target.id
              and isinstance(e.elt.slice, ast.Slice) and e.elt.slice.lower is None and e.elt.slice.upper is None
              and e.elt.slice.step is None)
        if not ok:
            self.fail(e, "the only comprehension supported is [x[:] for x in l]")
        l, tl = self.expr(e.generators[0].iter, env)
        if tl.kind == "tree":
            return l, Ty("tree", copied=True)
        if tl.kind in ("otree", "ctree", "fresh"):
            x = self.tmp()
            self.emit("%s <- copy_rows %s ;;" % (x, _paren(l)))
            return x, Ty("tree", copied=True)
        self.fail(e, "copy of a value of type %s" % tl.kind)

    def is_none_test(self, e):
        """e is `X is None` / `X is not None` -> (X, positive: True for `is None`)"""
        if isinstance(e, ast.Compare) and len(e.ops) == 1 and isinstance(e.ops[0], (ast.Is, ast.IsNot)) \
                and isinstance(e.comparators[0], ast.Constant) and e.comparators[0].value is None:
            return e.left, isinstance(e.ops[0], ast.Is)
        return None

    def compare(self, e, env):
        if len(e.ops) != 1 or len(e.comparators) != 1:
            self.fail(e, "chained comparison")
        op, right = e.ops[0], e.comparators[0]
        nt = self.is_none_test(e)
        if nt:
            t, ty = self.expr(nt[0], env)
            if ty.kind not in ("otree", "ostr", "obool", "ogs", "cursor", "fresh"):
                self.fail(e, "`is None` on a value of type %s" % ty.kind)
            return ("is_none %s" % _paren(t) if nt[1] else "negb (is_none %s)" % _paren(t)), BOOL
        if isinstance(op, (ast.In, ast.NotIn)):
            t = self.member(e, e.left, right, env)
            return (t if isinstance(op, ast.In) else "negb %s" % _paren(t)), BOOL
        a, ta = self.value(e.left, env)
        b, tb = self.value(right, env)
        if (ta.kind, tb.kind) != ("int", "int"):
            self.fail(e, "comparison of %s with %s" % (ta.kind, tb.kind))
        a, b = _paren(a), _paren(b)
        table = {ast.Lt: "(%s <? %s)%%Z" % (a, b), ast.LtE: "(%s <=? %s)%%Z" % (a, b),
                 ast.Gt: "(%s <? %s)%%Z" % (b, a), ast.GtE: "(%s <=? %s)%%Z" % (b, a),
                 ast.Eq: "(%s =? %s)%%Z" % (a, b), ast.NotEq: "negb (%s =? %s)%%Z" % (a, b)}
        if type(op) not in table:
            self.fail(e, "unsupported comparison operator")
        return table[type(op)], BOOL

    def member(self, node, key, container, env):
        """k in D  (Python evaluates k first, then D)"""
        k, tk = self.value(key, env)
        c, tc = self.expr(container, env)
        if tc.kind == "cp" and tk.kind == "str":
            return "dmem ostr_eqb %s %s" % (_paren(k), _paren(c))
        if tc.kind == "cplvl" and tk.kind == "int":
            return "negb (is_none (lvl_find %s %s))" % (_paren(c), _paren(k))
        if tc.kind == "tm1" and tk.kind == "str":
            return "dmem ostr_eqb %s %s" % (_paren(k), _paren(c))
        if tc.kind == "tm2" and tk.kind == "int":
            return "dmem Z.eqb %s %s" % (_paren(k), _paren(c))
        self.fail(node, "`in` on a value of type %s with a key of type %s" % (tc.kind, tk.kind))

    def self_text(self, node, env):
        if "self" not in env.types:
            self.fail(node, "self is not available")
        return "self"

    def attribute(self, e, env):
        # self.attr
        if isinstance(e.value, ast.Name) and e.value.id == "self":
            attrs = self.cls["attrs"]
            if e.attr not in attrs:
                self.fail(e, "unknown attribute self.%s" % e.attr)
            if env.init_attrs is not None and e.attr not in env.init_attrs:
                self.fail(e, "self.%s is read in __init__ before it is stored" % e.attr)
            ty = attrs[e.attr]
            if ty.kind == "optref":
                return "", OPTREF
            return "%s%s self" % (self.cls["prefix"], e.attr), ty
        v, tv = self.expr(e.value, env)
        if tv.kind == "optref" and e.attr == "max_length":
            if not self.has_opt:
                self.fail(e, "the Optimizer is not available in this function")
            return "o_max_length opt", INT
        self.fail(e, "attribute .%s of a value of type %s" % (e.attr, tv.kind))

    def const_index(self, sl):
        if isinstance(sl, ast.Constant) and type(sl.value) is int:
            return sl.value
        if isinstance(sl, ast.UnaryOp) and isinstance(sl.op, ast.USub) and isinstance(sl.operand, ast.Constant) \
                and type(sl.operand.value) is int:
            return -sl.operand.value
        return None

    def row_field(self, node, rowtext, sl):
        i = self.const_index(sl)
        if i not in (0, 1, 2):
            self.fail(node, "a row is subscripted with the literal 0, 1 or 2 only")
        return ("row_ip %s" % _paren(rowtext), STR) if i == 0 else \
            (("row_lvl %s" if i == 1 else "row_idx %s") % _paren(rowtext), INT)

    def slice_bound(self, b, env):
        if b is None:
            return "None"
        return "(Some %s)" % _paren(self.as_int(b, env))

    def last_row(self, node, env):
        """the row self.parse_tree[-1] as it is now"""
        x = self.tmp()
        self.emit("%s <- pt_last (gs_parse_tree self) ;;" % x)
        return x

    def subscript(self, e, env):
        sl = e.slice
        # alias[i]
        if isinstance(e.value, ast.Name) and e.value.id in env.types and env.types[e.value.id].kind == "alias":
            if e.value.id not in env.alive:
                self.fail(e, "%r no longer denotes self.parse_tree[-1] here (the list was popped, extended or replaced)" % e.value.id)
            return self.row_field(e, self.last_row(e, env), sl)
        v, tv = self.expr(e.value, env)
        if isinstance(sl, ast.Slice):
            if tv.kind != "str":
                self.fail(e, "slice of a value of type %s" % tv.kind)
            if sl.step is not None:
                self.fail(e, "slice with a step")
            return "pyslice %s %s %s" % (_paren(v), self.slice_bound(sl.lower, env), self.slice_bound(sl.upper, env)), STR
        skey = sl.value if isinstance(sl, ast.Constant) and type(sl.value) is str else None
        k = tv.kind
        if k == "grammar":
            table = {"ngram": ("g_ngram", INT), "max_level": ("g_max_level", INT), "ip": ("g_ip", TBL_STR),
                     "ln": ("g_ln", TBL_INT), "cp": ("g_cp", CP)}
            if skey not in table:
                self.fail(e, "unsupported key of the grammar")
            return "%s %s" % (table[skey][0], _paren(v)), table[skey][1]
        if k == "row":
            return self.row_field(e, v, sl)
        if k == "ptpath":
            if self.const_index(sl) != -1:
                self.fail(e, "self.parse_tree is subscripted with the literal -1 only")
            x = self.tmp()
            self.emit("%s <- pt_last %s ;;" % (x, _paren(v)))
            return x, ROW
        if k in ("str", "chars", "list"):
            i = self.as_int(sl, env)
            x = self.tmp()
            self.emit("%s <- pyindex %s %s ;;" % (x, _paren(v), _paren(i)))
            if k == "list" and tv.elem is None:
                self.fail(e, "element of a table of unknown element type")
            return x, (CHAR if k in ("str", "chars") else tv.elem)
        if k == "tbl":
            i = self.as_int(sl, env)
            x = self.tmp()
            self.emit("%s <- tbl_get %s %s ;;" % (x, _paren(v), _paren(i)))
            return x, Ty("list", elem=tv.elem)
        if k == "cursor":
            i = self.as_int(sl, env)
            x = self.tmp()
            self.emit("%s <- cur_get %s %s ;;" % (x, _paren(v), _paren(i)))
            return x, INT
        if k == "cp":
            p, tp = self.value(sl, env)
            if tp.kind != "str":
                self.fail(e, "self.cp is indexed by strings")
            x = self.tmp()
            self.emit("%s <- dict_get (dfind ostr_eqb %s %s) ;;" % (x, _paren(p), _paren(v)))
            return x, Ty("cplvl")
        if k == "cplvl":
            i = self.as_int(sl, env)
            x = self.tmp()
            self.emit("%s <- dict_get (lvl_find %s %s) ;;" % (x, _paren(v), _paren(i)))
            return x, CHARS
        if k == "tmpath":
            i = self.as_int(sl, env)
            x = self.tmp()
            self.emit("%s <- pyindex %s %s ;;" % (x, _paren(v), _paren(i)))
            return x, Ty("tm1")
        if k == "tm1":
            p, tp = self.value(sl, env)
            if tp.kind != "str":
                self.fail(e, "tmto_lookup[length] is indexed by strings")
            x = self.tmp()
            self.emit("%s <- dict_get (dfind ostr_eqb %s %s) ;;" % (x, _paren(p), _paren(v)))
            return x, Ty("tm2")
        if k == "tm2":
            i = self.as_int(sl, env)
            x = self.tmp()
            self.emit("%s <- dict_get (dfind Z.eqb %s %s) ;;" % (x, _paren(i), _paren(v)))
            return x, CTREE
        self.fail(e, "subscript of a value of type %s" % k)

    # -------------------------------------------------------------- calls
    def lookup_spec(self, clsname, py):
        return self.specs_by_cls.get(clsname, {}).get(py)

    def expr_helper(self, name):
        """a private method the translator has no spec for, of the form `def h(self): [docstring] return e`:
        -> e (it is inlined at its call sites), else None"""
        return expression_helper(self.cls_node, self.spec["cls"], name)

    def helper(self, name):
        """-> (assignments, e) of an inlinable private helper, else None"""
        return helper_body(self.cls_node, self.spec["cls"], name)

    def call(self, e, env):
        f = e.func
        if isinstance(f, ast.Name) and f.id == "len" and len(e.args) == 1 and not e.keywords:
            v, tv = self.expr(e.args[0], env)
            if tv.kind in ("str", "chars", "list", "tree"):
                return "zlen %s" % _paren(v), INT
            if tv.kind in ("otree", "ptpath"):
                x = self.tmp()
                self.emit("%s <- not_none %s ;;" % (x, _paren(v)))
                return "zlen %s" % x, INT
            self.fail(e, "len of a value of type %s" % tv.kind)
        if isinstance(f, ast.Name) and f.id == "GuessStructure":
            spec = self.lookup_spec("GuessStructure", "__init__")
            if spec is None or self.spec["cls"] != "MarkovCracker":
                self.fail(e, "GuessStructure(..) is supported in MarkovCracker only")
            return self.method_call(e, spec, None, env)
        if isinstance(f, ast.Attribute):
            # self.m(..)
            if isinstance(f.value, ast.Name) and f.value.id == "self":
                spec = self.lookup_spec(self.spec["cls"], f.attr)
                if f.attr == self.spec["py"] and self.spec.get("recursive"):
                    spec = self.spec
                if spec is None and not e.args and not e.keywords and self.helper(f.attr) is not None:
                    # a private helper `def h(self): x = ..; return e` is inlined: its assignments become lets
                    # (fresh names) and e is evaluated here, on this self
                    assigns, ret = self.helper(f.attr)
                    henv = Env()
                    henv.types["self"] = env.types["self"]
                    if "opt" in env.types:
                        henv.types["opt"] = env.types["opt"]
                    henv.init_attrs = env.init_attrs
                    self.inline_depth = getattr(self, "inline_depth", 0) + 1
                    if self.inline_depth > 3:
                        self.fail(e, "helpers nested too deeply")
                    try:
                        for names, exprs in assigns:
                            vals = [self.value(x, henv) for x in exprs]      # Python evaluates the right-hand sides first
                            for n, (text, ty) in zip(names, vals):
                                if ty.kind not in ("int", "bool", "str", "char"):
                                    self.fail(e, "the helper %s holds a value of type %s in a local" % (f.attr, ty.kind))
                                fresh = self.tmp()
                                self.emit("let %s := %s in" % (fresh, text))
                                henv.types[n] = ty
                                henv.rename[n] = fresh
                        r = self.expr(ret, henv)
                    finally:
                        self.inline_depth -= 1
                    return r
                if spec is None or spec.get("init"):
                    self.fail(e, "call of self.%s, which is not (yet) translated" % f.attr)
                return self.method_call(e, spec, "self", env)
            # self.parse_tree.pop()
            if isinstance(f.value, ast.Attribute) and isinstance(f.value.value, ast.Name) and f.value.value.id == "self" \
                    and f.value.attr == "parse_tree" and f.attr == "pop" and not e.args and not e.keywords \
                    and self.spec["cls"] == "GuessStructure":
                if not self.may_set_self:
                    self.fail(e, "this function may not change self")
                x, t = self.tmp(), self.tmp()
                self.emit("'(%s, %s) <- pt_pop (gs_parse_tree self) ;;" % (x, t))
                self.emit("let self := set_gs_parse_tree self %s in" % t)
                env.alive.clear()
                return x, ROW
            # self.optimizer.m(..)
            if isinstance(f.value, ast.Attribute) and isinstance(f.value.value, ast.Name) and f.value.value.id == "self" \
                    and f.value.attr == "optimizer" and self.cls["attrs"].get("optimizer") is OPTREF:
                spec = self.lookup_spec("Optimizer", f.attr)
                if spec is None or spec.get("init"):
                    self.fail(e, "call of an Optimizer method that is not translated")
                if not self.has_opt:
                    self.fail(e, "the Optimizer is not available in this function")
                self.attribute(f.value, env)      # the read-before-store check of __init__
                return self.method_call(e, spec, "opt", env)
            # self.cur_guess.m(..)
            if isinstance(f.value, ast.Attribute) and isinstance(f.value.value, ast.Name) and f.value.value.id == "self" \
                    and f.value.attr == "cur_guess" and self.spec["cls"] == "MarkovCracker":
                spec = self.lookup_spec("GuessStructure", f.attr)
                if spec is None or spec.get("init"):
                    self.fail(e, "call of a GuessStructure method that is not translated")
                g = self.tmp()
                self.emit("%s <- not_none (m_cur_guess self) ;;" % g)
                return self.method_call(e, spec, g, env, writeback="let self := set_m_cur_guess self (Some %s) in" % g)
        self.fail(e, "unsupported call")

    def attrs_read(self, name, seen=None):
        """the attributes of self a method of this class reads, transitively through self.m(..) calls"""
        seen = seen if seen is not None else set()
        if name in seen:
            return set()
        seen.add(name)
        fns = [n for n in self.cls_node.body if isinstance(n, ast.FunctionDef) and n.name == name]
        out = set()
        for fn in fns:
            for n in ast.walk(fn):
                if isinstance(n, ast.Attribute) and isinstance(n.value, ast.Name) and n.value.id == "self":
                    if any(isinstance(m, ast.FunctionDef) and m.name == n.attr for m in self.cls_node.body):
                        out |= self.attrs_read(n.attr, seen)
                    else:
                        out.add(n.attr)
        return out

    def method_call(self, e, spec, recv, env, writeback=None):
        """recv: "self", "opt" (the callee's self is the shared Optimizer), a bound pygs name, or None
        (constructor).  -> (name of the bound value, type)"""
        if env.init_attrs is not None and recv == "self":
            missing = self.attrs_read(spec["py"]) - env.init_attrs
            if missing:
                self.fail(e, "self.%s(..) is called in __init__ before %s is stored" % (spec["py"], sorted(missing)))
        args = self.bind_args(e, spec, env)
        outs = []
        for s in spec["state_out"]:
            if s == "self":
                if recv == "opt":
                    if not self.may_set_opt:
                        self.fail(e, "this function may not change the Optimizer")
                elif not self.may_set_self:
                    self.fail(e, "this function may not change self")
                outs.append(recv)
            else:
                if not self.may_set_opt:
                    self.fail(e, "this function may not change the Optimizer")
                outs.append("opt")
        if "opt" in spec["state_in"] and not self.has_opt:
            self.fail(e, "the Optimizer is not available in this function")
        if "self" in spec["state_out"] and recv == "self" and spec["cls"] == "GuessStructure":
            env.alive.clear()        # the callee may pop / extend / replace self.parse_tree
        x = self.tmp()
        pieces = [spec["coq"], self.fuel] + ([recv] if recv else []) + (["opt"] if "opt" in spec["state_in"] else []) \
            + [_paren(a) for a in args]
        pat = x if not outs else "'(%s)" % ", ".join([x] + outs)
        self.emit("%s <- %s ;;" % (pat, " ".join(pieces)))
        if writeback:
            if "self" in spec["state_out"]:
                if not self.may_set_self:
                    self.fail(e, "this function may not change self")
                self.emit(writeback)
        ret = spec["ret"]
        if ret.kind == "self":
            ret = Ty(CLASSES[spec["cls"]]["kind"])
        return x, ret

    def bind_args(self, e, spec, env):
        params = spec["params"]
        given = {}
        if len(e.args) > len(params):
            self.fail(e, "too many arguments")
        for (n, _), a in zip(params, e.args):
            if isinstance(a, ast.Starred):
                self.fail(e, "unsupported argument")
            given[n] = a
        for kw in e.keywords:
            if kw.arg is None or kw.arg in given or kw.arg not in dict(params):
                self.fail(e, "unsupported keyword argument")
            given[kw.arg] = kw.value
        # Python evaluates positional arguments, then keyword arguments, left to right; the binds are
        # emitted in that order, the texts are put in parameter order
        order = list(e.args) + [kw.value for kw in e.keywords]
        texts = {}
        for a in order:
            n = [k for k, v in given.items() if v is a][0]
            want = dict(params)[n]
            t, ta = self.expr(a, env)
            if want.kind == "optref":
                if not (isinstance(a, ast.Attribute) and isinstance(a.value, ast.Name) and a.value.id == "self"
                        and a.attr == "optimizer" and ta.kind == "optref"):
                    self.fail(a, "the optimizer handed on must be self.optimizer (the one shared Optimizer)")
                texts[n] = None
                continue
            if want.kind == "otree" and ta.kind == "ctree":
                if spec["py"] != "custom_copy":
                    self.fail(a, "a value of the Optimizer's table may only be handed to custom_copy")
                texts[n] = t
                continue
            texts[n] = self.coerce(a, t, ta, want)
        out = []
        for n, ty in params:
            if n not in texts:
                d = spec.get("defaults", {})
                if n in d and type(d[n]) is int:
                    out.append(zconst(d[n]))
                    continue
                self.fail(e, "missing argument %r" % n)
            if texts[n] is not None:
                out.append(texts[n])
        return out

    # -------------------------------------------------------------- statements
    @staticmethod
    def terminates(stmts):
        if not stmts:
            return False
        s = stmts[-1]
        if isinstance(s, (ast.Return, ast.Continue, ast.Break, ast.Raise)):
            return True
        if isinstance(s, ast.If):
            return FunctionTranslator.terminates(s.body) and FunctionTranslator.terminates(s.orelse)
        if isinstance(s, ast.Try):
            return (not s.orelse and not s.finalbody and FunctionTranslator.terminates(s.body)
                    and all(FunctionTranslator.terminates(h.body) for h in s.handlers))
        return False

    def call_effects(self, n):
        """the state variables a call expression may change"""
        f = n.func
        if not isinstance(f, ast.Attribute):
            return []
        v = f.value
        if isinstance(v, ast.Name) and v.id == "self":
            spec = self.lookup_spec(self.spec["cls"], f.attr) or (self.spec if f.attr == self.spec["py"] else None)
            if spec is None and self.helper(f.attr) is not None and f.attr not in getattr(self, "_eff_seen", ()):
                self._eff_seen = getattr(self, "_eff_seen", ()) + (f.attr,)
                try:
                    out = []
                    assigns, ret = self.helper(f.attr)
                    for x0 in [x for _n, xs in assigns for x in xs] + [ret]:
                        for m in ast.walk(x0):
                            if isinstance(m, ast.Call):
                                out += [x for x in self.call_effects(m) if x not in out]
                    return out
                finally:
                    self._eff_seen = self._eff_seen[:-1]
            return list(spec["state_out"]) if spec else []
        if isinstance(v, ast.Attribute) and isinstance(v.value, ast.Name) and v.value.id == "self":
            if v.attr == "optimizer":
                spec = self.lookup_spec("Optimizer", f.attr)
                return ["opt"] if spec and "self" in spec["state_out"] else []
            if v.attr == "cur_guess":
                spec = self.lookup_spec("GuessStructure", f.attr)
                return list(spec["state_out"]) if spec else []
            if f.attr in ("pop", "append", "extend", "insert", "remove", "clear", "sort", "reverse"):
                return ["self"]
        return []

    def assigned(self, stmts):
        """names (re)bound or changed somewhere in stmts, in order of first occurrence; "self" / "opt"
        stand for the objects"""
        out = []

        def add(n):
            if n not in out:
                out.append(n)

        def target(t):
            if isinstance(t, ast.Name):
                add(t.id)
            elif isinstance(t, (ast.Subscript, ast.Attribute)):
                add("self")          # a store through self or through an alias of self.parse_tree[-1]
            elif isinstance(t, ast.Tuple):
                for x in t.elts:
                    target(x)
            else:
                self.fail(t, "unsupported assignment target")

        for s in stmts:
            for n in ast.walk(s):
                if isinstance(n, ast.Assign):
                    for t in n.targets:
                        target(t)
                elif isinstance(n, (ast.AugAssign, ast.AnnAssign)):
                    target(n.target)
                elif isinstance(n, ast.For):
                    target(n.target)
                elif isinstance(n, (ast.NamedExpr, ast.Delete, ast.Global, ast.Nonlocal, ast.With, ast.Import,
                                    ast.ImportFrom, ast.FunctionDef, ast.AsyncFunctionDef, ast.ClassDef, ast.Lambda,
                                    ast.SetComp, ast.DictComp, ast.GeneratorExp, ast.Yield,
                                    ast.YieldFrom, ast.Await, ast.Assert, ast.Match)):
                    self.fail(n, "unsupported construct")
                elif isinstance(n, ast.Call):
                    for x in self.call_effects(n):
                        add(x)
        return out

    def state_text(self, names):
        if not names:
            return "tt", "(_ : unit)"
        if len(names) == 1:
            return names[0], names[0]
        t = "(" + ", ".join(names) + ")"
        return t, "'" + t

    def note(self, s):
        return "(* %d: %s *)" % (s.lineno, _comment(ast.unparse(s).split("\n")[0]))

    def line(self, ind, text, s=None):
        pad = "  " * ind
        if s is None:
            return pad + text + "\n"
        first = pad + text
        return first + " " * max(2, 72 - len(first)) + self.note(s) + "\n"

    def flush(self, ind, s, text):
        lines = self.pre + ([text] if text is not None else [])
        self.pre = []
        out = ""
        for n, l in enumerate(lines):
            out += self.line(ind, l, s if n == 0 else None)
        return out

    def block(self, stmts, env, k, ind):
        if not stmts:
            return self.line(ind, k.fall(env))
        s, rest = stmts[0], list(stmts[1:])
        if self.pre:
            raise TranslateError("internal: pending binds")
        if isinstance(s, ast.Expr) and isinstance(s.value, ast.Constant) and type(s.value.value) is str:
            return self.block(rest, env, k, ind)          # docstring
        if isinstance(s, ast.Pass):
            return self.block(rest, env, k, ind)
        if isinstance(s, ast.Return):
            if rest:
                self.fail(rest[0], "statement after return")
            return self.return_(s, env, k, ind)
        if isinstance(s, ast.Continue):
            if rest:
                self.fail(rest[0], "statement after continue")
            return self.line(ind, "Ok (%s)" % k.cont_v(s, env), s)
        if isinstance(s, ast.Break):
            if rest:
                self.fail(rest[0], "statement after break")
            return self.line(ind, "Ok (%s)" % k.brk_v(s, env), s)
        if isinstance(s, ast.Raise):
            if rest:
                self.fail(rest[0], "statement after raise")
            if not (isinstance(s.exc, ast.Name) and s.exc.id == "Exception" and s.cause is None
                    and "Exception" not in env.types):
                self.fail(s, "only `raise Exception` is supported")
            return self.line(ind, "Raise PyException", s)
        if isinstance(s, ast.Assign):
            if self.is_find_cp_unpack(s, env):
                return self.unpack_find_cp(s, rest, env, k, ind)
            return self.assign(s, env, ind) + self.block(rest, env, k, ind)
        if isinstance(s, ast.AugAssign):
            return self.augassign(s, env, ind) + self.block(rest, env, k, ind)
        if isinstance(s, ast.Expr):
            return self.effect(s, env, ind) + self.block(rest, env, k, ind)
        if isinstance(s, ast.If):
            return self.if_(s, rest, env, k, ind)
        if isinstance(s, ast.For):
            return self.for_(s, rest, env, k, ind)
        if isinstance(s, ast.While):
            return self.while_(s, rest, env, k, ind)
        if isinstance(s, ast.Try):
            return self.try_(s, rest, env, k, ind)
        self.fail(s, "unsupported statement (%s)" % type(s).__name__)

    def return_(self, s, env, k, ind):
        ret = self.spec["ret"]
        v = s.value
        if v is None:
            t, ty = "None", NONE
        elif isinstance(v, ast.Tuple) and len(v.elts) == 2:
            a, ta = self.expr(v.elts[0], env)
            b, tb = self.expr(v.elts[1], env)
            if ret.kind == "ofcp":
                if ta.kind == "none" and tb.kind == "none":
                    t, ty = "None", OFCP
                elif ta.kind == "chars" and tb.kind == "int":
                    t, ty = "Some (%s, %s)" % (a, b), OFCP
                else:
                    self.fail(s, "_find_cp returns (None, None) or (characters, level)")
            elif ret.kind == "found":
                if ta.kind != "bool":
                    self.fail(s, "the first component must be a bool")
                t, ty = "(%s, %s)" % (a, self.coerce(v.elts[1], b, tb, OTREE)), FOUND
            else:
                self.fail(s, "unexpected tuple return")
        else:
            t, ty = self.expr(v, env)
        return self.flush(ind, s, "Ok (%s)" % k.ret_v(s, t, ty))

    def bind(self, node, name, ty, env):
        self.check_name(node, name)
        if ty.kind not in VALUE_KINDS:
            self.fail(node, "a value of type %s cannot be held by a local variable" % ty.kind)
        env.types[name] = ty
        env.alive.discard(name)

    def set_self(self, node):
        if not self.may_set_self:
            self.fail(node, "this function may not change self")

    def is_last_row(self, t):
        """the expression self.parse_tree[-1]"""
        return (isinstance(t, ast.Subscript) and isinstance(t.value, ast.Attribute) and isinstance(t.value.value, ast.Name)
                and t.value.value.id == "self" and t.value.attr == "parse_tree" and self.const_index(t.slice) == -1
                and self.spec["cls"] == "GuessStructure")

    def is_tm_setdefault(self, v):
        """the expression self.tmto_lookup[a].setdefault(b, {})"""
        return (self.spec["cls"] == "Optimizer" and isinstance(v, ast.Call) and isinstance(v.func, ast.Attribute)
                and v.func.attr == "setdefault" and len(v.args) == 2 and not v.keywords
                and isinstance(v.args[1], ast.Dict) and not v.args[1].keys
                and isinstance(v.func.value, ast.Subscript) and isinstance(v.func.value.value, ast.Attribute)
                and isinstance(v.func.value.value.value, ast.Name) and v.func.value.value.value.id == "self"
                and v.func.value.value.attr == "tmto_lookup")

    def row_store_target(self, s, t, env):
        """t = alias[i] or self.parse_tree[-1][i] with i in 1, 2 -> the field, or None"""
        if not isinstance(t, ast.Subscript):
            return None
        base = t.value
        ok = self.is_last_row(base)
        if isinstance(base, ast.Name) and base.id in env.types and env.types[base.id].kind == "alias":
            if base.id not in env.alive:
                self.fail(s, "%r no longer denotes self.parse_tree[-1] here" % base.id)
            ok = True
        if not ok:
            return None
        i = self.const_index(t.slice)
        if i not in (1, 2):
            self.fail(s, "only the fields 1 and 2 of a row may be stored")
        self.set_self(s)
        return "lvl" if i == 1 else "idx"

    def tm_store_target(self, s, t, env):
        """t = self.tmto_lookup[a][b] or self.tmto_lookup[a][b][c] -> list of key texts (evaluated in order), or None"""
        keys, cur = [], t
        while isinstance(cur, ast.Subscript):
            keys.append(cur.slice)
            cur = cur.value
        if not (isinstance(cur, ast.Attribute) and isinstance(cur.value, ast.Name) and cur.value.id == "self"
                and cur.attr == "tmto_lookup" and self.spec["cls"] == "Optimizer"):
            return None
        keys.reverse()
        if len(keys) not in (2, 3):
            self.fail(s, "unsupported store into tmto_lookup")
        self.set_self(s)
        for n, ty in env.types.items():
            if ty.kind == "tm2alias":
                env.alive.discard(n)
        out = [self.as_int(keys[0], env)]
        p, tp = self.value(keys[1], env)
        if tp.kind != "str":
            self.fail(s, "tmto_lookup[length] is indexed by strings")
        out.append(p)
        if len(keys) == 3:
            out.append(self.as_int(keys[2], env))
        return out

    def assign(self, s, env, ind):
        if len(s.targets) != 1:
            self.fail(s, "multiple assignment targets")
        t, v = s.targets[0], s.value
        if isinstance(t, ast.Name) and self.is_tm_setdefault(v):
            # x = self.tmto_lookup[a].setdefault(b, {}) : the container is created where missing; x is a name
            # for the path self.tmto_lookup[a][b] (stores through x go to that path)
            self.set_self(s)
            self.check_name(s, t.id)
            base = v.func.value
            a = self.as_int(base.slice, env)
            b, tb = self.value(v.args[0], env)
            if tb.kind != "str":
                self.fail(s, "tmto_lookup[length] is indexed by strings")
            x = self.tmp()
            self.emit("%s <- tm_setdefault2 (o_tmto_lookup self) %s %s ;;" % (x, _paren(a), _paren(b)))
            env.types[t.id] = Ty("tm2alias", keys=[a, b])
            env.alive.add(t.id)
            return self.flush(ind, s, "let self := set_o_tmto_lookup self %s in" % x)
        if isinstance(t, ast.Name):
            if self.is_last_row(v):
                # an alias of the last row: nothing is copied; the subscript itself may raise
                self.check_name(s, t.id)
                x = self.last_row(s, env)
                env.types[t.id] = Ty("alias")
                env.alive.add(t.id)
                return self.flush(ind, s, None)
            text, ty = self.value(v, env)
            if ty.kind in ("none", "cursorval", "cursor", "ogs", "gs"):
                self.fail(s, "a value of type %s cannot be held by a local variable" % ty.kind)
            self.bind(s, t.id, ty, env)
            return self.flush(ind, s, "let %s := %s in" % (t.id, text))
        if isinstance(t, ast.Tuple):
            if not (len(t.elts) == 2 and all(isinstance(x, ast.Name) for x in t.elts) and isinstance(v, ast.Call)):
                self.fail(s, "unsupported unpacking")
            text, ty = self.expr(v, env)
            a, b = t.elts[0].id, t.elts[1].id
            if ty.kind != "found" or a == b:
                self.fail(s, "unsupported unpacking of a %s" % ty.kind)
            self.bind(s, a, BOOL, env)
            self.bind(s, b, OTREE, env)
            return self.flush(ind, s, "let '(%s, %s) := %s in" % (a, b, text))
        if isinstance(t, ast.Attribute):
            return self.attr_store(s, t, v, env, ind)
        if isinstance(t, ast.Subscript):
            # Python evaluates the right-hand side first, then the target's container and key
            field = None
            if isinstance(v, ast.Dict) and not v.keys:
                keys = self.tm_store_target(s, t, env)
                if keys is None or len(keys) != 2:
                    self.fail(s, "an empty dict may only be stored as tmto_lookup[length][ip]")
                if (ast.dump(t.slice), ast.dump(t.value)) not in self.guards:
                    self.fail(s, "a container may only be created directly under `if k not in P:` for the same k and P")
                x = self.tmp()
                self.emit("%s <- tm_set2 (o_tmto_lookup self) %s [] ;;" % (x, " ".join(_paren(a) for a in keys)))
                return self.flush(ind, s, "let self := set_o_tmto_lookup self %s in" % x)
            val, tv = self.expr(v, env)
            if isinstance(t.value, ast.Name) and t.value.id in env.types and env.types[t.value.id].kind == "tm2alias":
                if t.value.id not in env.alive:
                    self.fail(s, "%r no longer denotes its tmto_lookup entry here" % t.value.id)
                self.set_self(s)
                if tv.kind != "fresh":
                    self.fail(s, "what is stored into tmto_lookup must be the result of self.custom_copy(..)")
                keys = env.types[t.value.id].keys + [self.as_int(t.slice, env)]
                x = self.tmp()
                self.emit("%s <- tm_set3 (o_tmto_lookup self) %s %s ;;" % (x, " ".join(_paren(a) for a in keys), _paren(val)))
                return self.flush(ind, s, "let self := set_o_tmto_lookup self %s in" % x)
            field = self.row_store_target(s, t, env)
            if field:
                if tv.kind != "int":
                    self.fail(s, "a row field holds an int")
                r, x = self.last_row(s, env), self.tmp()
                self.emit("%s <- pt_set_last (gs_parse_tree self) (row_set_%s %s %s) ;;" % (x, field, r, _paren(val)))
                return self.flush(ind, s, "let self := set_gs_parse_tree self %s in" % x)
            keys = self.tm_store_target(s, t, env)
            if keys is not None:
                if len(keys) != 3:
                    self.fail(s, "a value is stored where tmto_lookup holds a dict")
                if tv.kind != "fresh":
                    self.fail(s, "what is stored into tmto_lookup must be the result of self.custom_copy(..)")
                x = self.tmp()
                self.emit("%s <- tm_set3 (o_tmto_lookup self) %s %s ;;" % (x, " ".join(_paren(a) for a in keys), _paren(val)))
                return self.flush(ind, s, "let self := set_o_tmto_lookup self %s in" % x)
            self.fail(s, "unsupported store")
        self.fail(s, "unsupported assignment target")

    def attr_store(self, s, t, v, env, ind):
        if not (isinstance(t.value, ast.Name) and t.value.id == "self"):
            self.fail(s, "unsupported store")
        attrs = self.cls["attrs"]
        if t.attr not in attrs:
            self.fail(s, "store into the unknown attribute self.%s" % t.attr)
        self.set_self(s)
        want = attrs[t.attr]
        text, ty = self.expr(v, env)
        setter = "set_%s%s" % (self.cls["prefix"], t.attr)
        if env.init_attrs is not None:
            env.init_attrs.add(t.attr)
        if want.kind == "optref":
            if not (self.init and isinstance(v, ast.Name) and ty.kind == "optref"):
                self.fail(s, "self.optimizer may only be stored in __init__, from the parameter")
            return self.flush(ind, s, "(* the shared Optimizer is threaded as `opt` *)")
        if want.kind == "ptpath":
            env.alive.clear()
            val = "Some []" if ty.kind == "emptylist" else self.coerce(s, text, ty, OTREE)
        elif want.kind == "tmpath":
            if ty.kind != "emptylist":
                self.fail(s, "self.tmto_lookup may only be set to []")
            val = "[]"
        elif want.kind == "cursor":
            val = "Some %s" % text if ty.kind == "cursorval" else self.coerce(s, text, ty, CURSOR)
        else:
            val = self.coerce(s, text, ty, want)
        return self.flush(ind, s, "let self := %s self %s in" % (setter, _paren(val)))

    def augassign(self, s, env, ind):
        if not isinstance(s.op, (ast.Add, ast.Sub)):
            self.fail(s, "only += and -= are supported")
        op = "+" if isinstance(s.op, ast.Add) else "-"
        t = s.target
        if isinstance(t, ast.Name):
            if t.id not in env.types:
                self.fail(s, "`%s=` on an unknown variable" % op)
            k = env.types[t.id].kind
            v, tv = self.value(s.value, env)
            if k == "int" and tv.kind == "int":
                return self.flush(ind, s, "let %s := (%s %s %s)%%Z in" % (t.id, t.id, op, _paren(v)))
            if k == "str" and op == "+" and tv.kind == "char":
                return self.flush(ind, s, "let %s := %s ++ [%s] in" % (t.id, t.id, v))
            if k == "str" and op == "+" and tv.kind == "str":
                return self.flush(ind, s, "let %s := %s ++ %s in" % (t.id, t.id, _paren(v)))
            self.fail(s, "`%s=` of a %s on a %s" % (op, tv.kind, k))
        if isinstance(t, ast.Attribute):
            # self.parse_tree += new
            if isinstance(t.value, ast.Name) and t.value.id == "self" and t.attr == "parse_tree" and op == "+" \
                    and self.spec["cls"] == "GuessStructure":
                self.set_self(s)
                v, tv = self.value(s.value, env)
                if tv.kind != "tree":
                    self.fail(s, "self.parse_tree += a value of type %s" % tv.kind)
                x = self.tmp()
                self.emit("%s <- pt_extend (gs_parse_tree self) %s ;;" % (x, _paren(v)))
                env.alive.clear()
                return self.flush(ind, s, "let self := set_gs_parse_tree self %s in" % x)
            self.fail(s, "unsupported augmented assignment")
        if isinstance(t, ast.Subscript):
            # Python: container, key, old value, THEN the right-hand side, then the store
            field = self.row_store_target(s, t, env)
            if not field:
                self.fail(s, "unsupported augmented assignment")
            r = self.last_row(s, env)
            v = self.as_int(s.value, env)
            x = self.tmp()
            self.emit("%s <- pt_set_last (gs_parse_tree self) (row_set_%s %s (row_%s %s %s %s)%%Z) ;;"
                      % (x, field, r, field, r, op, _paren(v)))
            return self.flush(ind, s, "let self := set_gs_parse_tree self %s in" % x)
        self.fail(s, "unsupported assignment target")

    def effect(self, s, env, ind):
        c = s.value
        if isinstance(c, ast.Call) and isinstance(c.func, ast.Name) and c.func.id == "print" and "print" not in env.types:
            kws = {kw.arg: kw.value for kw in c.keywords}
            f = kws.get("file")
            if not (set(kws) == {"file"} and isinstance(f, ast.Attribute) and f.attr == "stderr"
                    and isinstance(f.value, ast.Name) and f.value.id == "sys"
                    and all(isinstance(a, ast.Constant) and type(a.value) is str for a in c.args)):
                self.fail(s, "only print(<string constants>, file=sys.stderr) is supported")
            return self.line(ind, "(* stderr is not modelled *)", s)
        # self.tmto_lookup.append({})
        if isinstance(c, ast.Call) and isinstance(c.func, ast.Attribute) and c.func.attr == "append" \
                and isinstance(c.func.value, ast.Attribute) and isinstance(c.func.value.value, ast.Name) \
                and c.func.value.value.id == "self" and c.func.value.attr == "tmto_lookup" \
                and self.spec["cls"] == "Optimizer" and len(c.args) == 1 and not c.keywords \
                and isinstance(c.args[0], ast.Dict) and not c.args[0].keys:
            self.set_self(s)
            t, _ = self.attribute(c.func.value, env)
            return self.flush(ind, s, "let self := set_o_tmto_lookup self (%s ++ [[]]) in" % t)
        if isinstance(c, ast.Call):
            self.call(c, env)
            return self.flush(ind, s, None)
        self.fail(s, "unsupported expression statement")

    # -------------------------------------------------------------- control flow
    def merge(self, node, env, names, entry_kinds, points, dead_ok=True):
        """the environment after a join: the kinds of the carried names must be those at entry (or
        "dead" on some path: then the name is unusable afterwards); an alias stays alive only when it is
        alive on every path"""
        for p in points:
            for n in names:
                k = p.types[n].kind if n in p.types else "dead"
                if k != entry_kinds[n]:
                    if k in ("dead", "paircomp") and dead_ok:
                        env.types[n] = Ty("dead", why="it may be None here")
                    else:
                        self.fail(node, "%r has type %s on one path and %s on another" % (n, entry_kinds[n], k))
        if points:
            alive = set(env.alive)
            for p in points:
                alive &= p.alive
            env.alive = alive

    def has_escape(self, n, in_loop=False):
        if isinstance(n, ast.Return) or (isinstance(n, (ast.Continue, ast.Break)) and not in_loop):
            return True
        return any(self.has_escape(c, in_loop or isinstance(n, (ast.For, ast.While))) for c in ast.iter_child_nodes(n))

    def cond_form(self, s, env):
        """-> dict(head, lab_then, lab_else, tail, then_env(env), else_env(env)) for the test of `if`"""
        nt = self.is_none_test(s.test)
        if nt and isinstance(nt[0], ast.Name) and nt[0].id in env.types:
            x, ty = nt[0].id, env.types[nt[0].id]
            if ty.kind in OPTION_OF and ty.kind != "ogs":
                def refine(e):
                    e.types[x] = Ty(OPTION_OF[ty.kind])
                none_lab, some_lab = "| None =>", "| Some %s =>" % x
                if nt[1]:
                    return dict(head="match %s with" % x, lab_then=none_lab, lab_else=some_lab, tail="end",
                                then_env=lambda e: None, else_env=refine)
                return dict(head="match %s with" % x, lab_then=some_lab, lab_else=none_lab, tail="end",
                            then_env=refine, else_env=lambda e: None)
            if ty.kind == "paircomp":
                a, b, tmp = ty.names[0], ty.names[1], ty.tmp

                def some(e):
                    e.types[a], e.types[b] = CHARS, INT

                def none(e):
                    e.types[a] = e.types[b] = Ty("dead", why="it is None here")
                none_lab, some_lab = "| None =>", "| Some (%s, %s) =>" % (a, b)
                if nt[1]:
                    return dict(head="match %s with" % tmp, lab_then=none_lab, lab_else=some_lab, tail="end",
                                then_env=none, else_env=some)
                return dict(head="match %s with" % tmp, lab_then=some_lab, lab_else=none_lab, tail="end",
                            then_env=some, else_env=none)
        c = self.truth(s.test, env)
        return dict(head="if %s then" % c, lab_then=None, lab_else="else", tail=None,
                    then_env=lambda e: None, else_env=lambda e: None)

    def is_find_cp_unpack(self, s, env):
        v = s.value
        return (len(s.targets) == 1 and isinstance(s.targets[0], ast.Tuple) and isinstance(v, ast.Call)
                and isinstance(v.func, ast.Attribute) and isinstance(v.func.value, ast.Name) and v.func.value.id == "self"
                and (self.lookup_spec(self.spec["cls"], v.func.attr) or {}).get("ret") is OFCP)

    def unpack_find_cp(self, s, rest, env, k, ind):
        t = s.targets[0]
        if not (len(t.elts) == 2 and all(isinstance(x, ast.Name) for x in t.elts) and t.elts[0].id != t.elts[1].id):
            self.fail(s, "the result of _find_cp is unpacked into two names")
        a, b = t.elts[0].id, t.elts[1].id
        self.check_name(s, a)
        self.check_name(s, b)
        nxt = rest[0] if rest else None
        nt = self.is_none_test(nxt.test) if isinstance(nxt, ast.If) else None
        if not (nt and isinstance(nt[0], ast.Name) and nt[0].id in (a, b)):
            self.fail(s, "the unpacked result of _find_cp must be tested with `if <name> is None:` (or `is not None`) in the next statement")
        tmp, _ty = self.call(s.value, env)
        out = self.flush(ind, s, None)
        for n in (a, b):
            env.types[n] = Ty("paircomp", names=(a, b), tmp=tmp)
            env.alive.discard(n)
        return out + self.block(rest, env, k, ind)

    def if_(self, s, rest, env, k, ind):
        t = s.test
        if isinstance(t, ast.BoolOp) and isinstance(t.op, ast.And) and not s.orelse and len(t.values) >= 2 \
                and any(isinstance(n, ast.Call) and isinstance(n.func, ast.Attribute) for v in t.values for n in ast.walk(v)):
            # `if A and B: body` (no else) is `if A: if B: body`: B is only evaluated when A holds
            inner = ast.If(test=t.values[-1], body=list(s.body), orelse=[])
            ast.copy_location(inner, s)
            for v in reversed(t.values[:-1]):
                inner = ast.copy_location(ast.If(test=v, body=[inner], orelse=[]), s)
            return self.if_(inner, rest, env, k, ind)
        form = self.cond_form(s, env)
        body, orelse = list(s.body), list(s.orelse)
        bt, et = self.terminates(body), self.terminates(orelse)
        guard = None
        if isinstance(s.test, ast.Compare) and len(s.test.ops) == 1 and isinstance(s.test.ops[0], ast.NotIn):
            guard = (ast.dump(s.test.left), ast.dump(s.test.comparators[0]))
        env_t, env_f = env.copy(), env.copy()
        form["then_env"](env_t)
        form["else_env"](env_f)

        def then_block(stmts, kk, i):
            if guard:
                self.guards.append(guard)
            try:
                return self.block(stmts, env_t, kk, i)
            finally:
                if guard:
                    self.guards.pop()

        def shape(head_line, then_text, else_text):
            out = head_line
            if form["lab_then"]:
                out += self.line(ind, form["lab_then"])
            out += then_text + self.line(ind, form["lab_else"]) + else_text
            return out

        if not rest or bt or et:
            if rest and bt and et:
                self.fail(rest[0], "unreachable statement")
            head = self.flush(ind, s, form["head"])
            then_stmts = body if (not rest or bt) else body + rest
            else_stmts = orelse if (not rest or et) else orelse + rest
            flat = bt and form["tail"] is None
            out = shape(head, then_block(then_stmts, k, ind + 1), self.block(else_stmts, env_f, k, ind + (0 if flat else 1)))
            if form["tail"]:
                out += self.line(ind, form["tail"])
            return out
        names = [n for n in self.assigned(body + orelse) if n in env.types
                 and env.types[n].kind not in ("alias", "dead", "paircomp", "tm2alias")]
        entry = {n: env.types[n].kind for n in names}
        tup, pat = self.state_text(names)
        points = []

        def fall(e, what):
            points.append(e)
            return what
        if not any(self.has_escape(n) for n in body + orelse):
            # both branches fall through to `rest`, no return / continue / break inside
            if not names:
                self.fail(s, "conditional without effect")
            join = K(lambda e: fall(e, "Ok %s" % tup), lambda n, e: self.fail(n, "continue"),
                     lambda n, e: self.fail(n, "break"), lambda n, t, ty: self.fail(n, "return"))
            head = self.flush(ind, s, "%s <- (%s" % (pat, form["head"]))
            out = shape(head, then_block(body, join, ind + 2), self.block(orelse, env_f, join, ind + 2))
            out = _close(out, (" " + form["tail"] if form["tail"] else "") + ") ;;")
        else:
            blk = K(lambda e: fall(e, "Ok (Fall %s)" % tup),
                    lambda n, e: "Leave (%s)" % k.cont_v(n, e), lambda n, e: "Leave (%s)" % k.brk_v(n, e),
                    lambda n, t, ty: "Leave (%s)" % k.ret_v(n, t, ty))
            head = self.flush(ind, s, "mblock (%s" % form["head"])
            out = shape(head, then_block(body, blk, ind + 2), self.block(orelse, env_f, blk, ind + 2))
            out = _close(out, (" " + form["tail"] if form["tail"] else "") + ") (fun %s =>" % pat)
            self.merge(s, env, names, entry, points)
            return out + _close(self.block(rest, env, k, ind), ")")
        self.merge(s, env, names, entry, points)
        return out + self.block(rest, env, k, ind)

    def loop_k(self, s, env, names, k):
        """-> (tup, pat, the K of the loop body, continue points, break points)"""
        tup, pat = self.state_text(names)
        entry = {n: env.types[n].kind for n in names}
        entry_alive = set(env.alive)
        brks = []

        def cont(node, e):
            for n in names:
                kk = e.types[n].kind if n in e.types else "dead"
                if kk != entry[n]:
                    self.fail(node or s, "%r has type %s at loop entry and %s at the end of an iteration" % (n, entry[n], kk))
            if entry_alive - e.alive:
                self.fail(node or s, "an iteration ends with the alias %s of self.parse_tree[-1] dead" % sorted(entry_alive - e.alive))
            return "Continue %s" % tup

        def brk(node, e):
            brks.append(e)
            return "Break %s" % tup
        body_k = K(lambda e: "Ok (%s)" % cont(None, e), cont, brk,
                   lambda n, t, ty: "Return (%s)" % k.ret_v(n, t, ty))
        return tup, pat, body_k, entry, brks

    def loop_names(self, s, env, extra=()):
        names = [n for n in self.assigned(list(s.body)) if n in env.types and n not in extra
                 and env.types[n].kind not in ("alias", "dead", "paircomp", "tm2alias")]
        for n in names:
            if n == "self" and not self.may_set_self:
                self.fail(s, "this function may not change self")
            if n == "opt" and not self.may_set_opt:
                self.fail(s, "this function may not change the Optimizer")
        return names

    def for_(self, s, rest, env, k, ind):
        if s.orelse:
            self.fail(s, "for ... else")
        it = s.iter
        if isinstance(it, ast.Call) and isinstance(it.func, ast.Name) and it.func.id == "enumerate" \
                and len(it.args) == 1 and not it.keywords and "enumerate" not in env.types:
            return self.for_enumerate(s, rest, env, k, ind)
        if not isinstance(s.target, ast.Name):
            self.fail(s, "the loop needs a single plain target")
        x = s.target.id
        if x in env.types:
            self.fail(s, "the loop variable %r is already bound" % x)
        self.check_name(s, x)
        names = self.loop_names(s, env, extra=(x,))
        if isinstance(it, ast.Call) and isinstance(it.func, ast.Name) and it.func.id == "range" \
                and len(it.args) in (1, 2) and not it.keywords and "range" not in env.types:
            bounds = [self.as_int(a, env) for a in it.args]
            if len(bounds) == 1:
                bounds = ["0%Z"] + bounds
            lst, xty = "zrange %s %s" % (_paren(bounds[0]), _paren(bounds[1])), INT
        else:
            l, tl = self.expr(it, env)
            if tl.kind == "ptpath":
                if "self" in names:
                    self.fail(s, "self is changed while self.parse_tree is iterated over")
                t = self.tmp()
                self.emit("%s <- not_none %s ;;" % (t, _paren(l)))
                lst, xty = t, ROW
            else:
                self.fail(s, "unsupported loop over a value of type %s" % tl.kind)
        tup, pat, body_k, entry, brks = self.loop_k(s, env, names, k)
        inner = env.copy()
        inner.types[x] = xty
        out = self.flush(ind, s, "mfor (%s) (fun %s %s =>" % (lst, x, pat))
        out += _close(self.block(list(s.body), inner, body_k, ind + 2), ")")
        self.merge(s, env, names, entry, brks)
        out += self.line(ind, "%s (fun %s =>" % (tup, pat))
        out += _close(self.block(rest, env, k, ind), ")")
        return out

    def for_enumerate(self, s, rest, env, k, ind):
        """for i, x in enumerate(l)  on a list of characters / strings / ints"""
        t = s.target
        if not (isinstance(t, ast.Tuple) and len(t.elts) == 2 and all(isinstance(x, ast.Name) for x in t.elts)
                and t.elts[0].id != t.elts[1].id):
            self.fail(s, "enumerate needs two plain targets")
        i, x = t.elts[0].id, t.elts[1].id
        for n in (i, x):
            if n in env.types:
                self.fail(s, "the loop variable %r is already bound" % n)
            self.check_name(s, n)
        l, tl = self.expr(s.iter.args[0], env)
        if tl.kind in ("chars", "str"):
            xty = CHAR
        elif tl.kind == "list" and tl.elem is not None:
            xty = tl.elem
        else:
            self.fail(s, "enumerate of a value of type %s" % tl.kind)
        names = self.loop_names(s, env, extra=(i, x))
        tup, pat, body_k, entry, brks = self.loop_k(s, env, names, k)
        inner = env.copy()
        inner.types[i], inner.types[x] = INT, xty
        out = self.flush(ind, s, "mfor (zenumerate %s) (fun '(%s, %s) %s =>" % (_paren(l), i, x, pat))
        out += _close(self.block(list(s.body), inner, body_k, ind + 2), ")")
        self.merge(s, env, names, entry, brks)
        out += self.line(ind, "%s (fun %s =>" % (tup, pat))
        out += _close(self.block(rest, env, k, ind), ")")
        return out

    def while_(self, s, rest, env, k, ind):
        if s.orelse:
            self.fail(s, "while ... else")
        names = self.loop_names(s, env)
        tup, pat, body_k, entry, brks = self.loop_k(s, env, names, k)
        if self.pre:
            raise TranslateError("internal: pending binds")
        c = self.truth(s.test, env.copy())
        cond_binds, self.pre = self.pre, []
        out = self.line(ind, "mwhile fuel (fun %s =>" % pat, s)
        for b in cond_binds:
            out += self.line(ind + 2, b)
        out += self.line(ind + 2, "Ok %s)" % _paren(c))
        out += self.line(ind + 1, "(fun %s =>" % pat)
        out += _close(self.block(list(s.body), env.copy(), body_k, ind + 2), ")")
        self.merge(s, env, names, entry, brks)
        out += self.line(ind, "%s (fun %s =>" % (tup, pat))
        out += _close(self.block(rest, env, k, ind), ")")
        return out

    def try_(self, s, rest, env, k, ind):
        if s.orelse or s.finalbody or len(s.handlers) != 1:
            self.fail(s, "try is supported with one handler, no else / finally")
        h = s.handlers[0]
        if not (isinstance(h.type, ast.Name) and h.type.id == "KeyError" and h.name is None and "KeyError" not in env.types):
            self.fail(s, "only `except KeyError:` is supported")
        if rest:
            return self.try_assign(s, h, rest, env, k, ind)
        if not (self.terminates(list(s.body)) and self.terminates(list(h.body))):
            self.fail(s, "both the try body and the handler must leave the function on every path")
        for n in list(s.body) + list(h.body):
            if self.has_escape_loop(n):
                self.fail(n, "continue / break inside try")
        if "self" in self.assigned(list(s.body)) or "opt" in self.assigned(list(s.body)):
            self.fail(s, "the try body changes an object (the handler would see the partial change)")
        out = self.line(ind, "catch KeyError (", s)
        out += _close(self.block(list(s.body), env.copy(), k, ind + 1), ") (")
        out += _close(self.block(list(h.body), env.copy(), k, ind + 1), ")")
        return out

    def try_assign(self, s, h, rest, env, k, ind):
        """try: x = e   except KeyError: <leaves the function>   ; more statements.
        Only the evaluation of e is guarded: mtry (binds of e) KeyError (handler) (fun x => rest)"""
        body = [b for b in s.body if not isinstance(b, ast.Pass)]
        if not (len(body) == 1 and isinstance(body[0], ast.Assign) and len(body[0].targets) == 1
                and isinstance(body[0].targets[0], ast.Name)):
            self.fail(s, "a try followed by more statements must hold a single assignment `x = e`")
        if not self.terminates(list(h.body)):
            self.fail(s, "the handler of such a try must leave the function on every path")
        for n in list(h.body):
            if self.has_escape_loop(n):
                self.fail(n, "continue / break inside try")
        a = body[0]
        x = a.targets[0].id
        if self.pre:
            raise TranslateError("internal: pending binds")
        text, ty = self.expr(a.value, env)
        if ty.kind not in VALUE_KINDS:
            self.fail(a, "a value of type %s cannot be held by a local variable" % ty.kind)
        binds, self.pre = self.pre, []
        out = self.line(ind, "mtry (", s)
        for b in binds:
            out += self.line(ind + 2, b)
        out += self.line(ind + 2, "Ok %s) KeyError (" % _paren(text))
        out += _close(self.block(list(h.body), env.copy(), k, ind + 2), ") (fun %s =>" % x)
        self.check_name(a, x)
        env.types[x] = ty
        env.alive.discard(x)
        out += _close(self.block(rest, env, k, ind), ")")
        return out

    def has_escape_loop(self, n, in_loop=False):
        if isinstance(n, (ast.Continue, ast.Break)) and not in_loop:
            return True
        return any(self.has_escape_loop(c, in_loop or isinstance(n, (ast.For, ast.While))) for c in ast.iter_child_nodes(n))

    # -------------------------------------------------------------- function
    def check_signature(self):
        fn, spec = self.fn, self.spec
        a = fn.args
        if fn.decorator_list or a.vararg or a.kwarg or a.kwonlyargs or a.posonlyargs or a.kw_defaults:
            self.fail(fn, "unsupported signature")
        names = [x.arg for x in a.args]
        want = ["self"] + [n for n, _ in spec["params"]]
        if names != want:
            self.fail(fn, "parameters are %r, the translator knows %r" % (names, want))
        if any(x.annotation is not None for x in a.args) or fn.returns is not None:
            self.fail(fn, "annotations are not supported")
        defaults = {}
        for x, d in zip(a.args[len(a.args) - len(a.defaults):], a.defaults):
            if not (isinstance(d, ast.Constant) and (type(d.value) is int or d.value is None)):
                self.fail(fn, "unsupported default value")
            defaults[x.arg] = d.value
        if defaults != spec.get("defaults", {}):
            self.fail(fn, "defaults are %r, the translator knows %r" % (defaults, spec.get("defaults", {})))
        for n, _ in spec["params"]:
            self.check_name(fn, n)

    def coq_type(self, ty):
        if ty.kind == "tbl":
            return "pytbl %s" % ("X" if ty.elem is None else COQ_TYPE[ty.elem.kind])
        return COQ_TYPE[ty.kind]

    def translate(self):
        self.check_signature()
        fn, spec, cls = self.fn, self.spec, self.cls
        env = Env()
        for n, ty in spec["params"]:
            env.types[n] = ty
        env.types["self"] = Ty(cls["kind"])
        if self.has_opt:
            env.types["opt"] = OPT
        if self.init:
            env.init_attrs = set()
        ret_ty = spec["ret"]
        outs = list(spec["state_out"])

        def pack(text):
            return ", ".join([text] + outs) if outs else text

        def retv(node, text, ty):
            if self.init:
                self.fail(node, "return in __init__")
            if ty.kind == "ctree":
                self.fail(node, "a value of the Optimizer's table may only be handed to custom_copy")
            return pack(self.coerce(node, text, ty, ret_ty))

        def fall(e):
            if self.init:
                missing = [a for a in cls["attrs"] if a not in e.init_attrs]
                if missing:
                    self.fail(fn, "__init__ does not store %s" % missing)
                return "Ok self"
            if ret_ty.kind == "unit":
                return "Ok (%s)" % pack("tt")
            if ret_ty.kind in ("obool", "ostr", "otree"):
                return "Ok (%s)" % pack("None")
            self.fail(fn, "the function can end without a return statement")

        k = K(fall, lambda n, e: self.fail(n, "continue outside a loop"),
              lambda n, e: self.fail(n, "break outside a loop"), retv)
        poly = any(ty.kind == "tbl" and ty.elem is None for _, ty in spec["params"])
        params = ("{X : Type} " if poly else "") + "(fuel : nat) "
        if not self.init:
            params += "(self : %s) " % cls["rec"]
        if self.has_opt:
            params += "(opt : pyopt) "
        params += " ".join("(%s : %s)" % (n, self.coq_type(ty)) for n, ty in spec["params"] if ty.kind != "optref")
        rt = cls["rec"] if self.init else " * ".join(
            [COQ_TYPE[ret_ty.kind] if ret_ty.kind not in ("found",) or not outs else "(%s)" % COQ_TYPE[ret_ty.kind]]
            + [cls["rec"] if o == "self" else "pyopt" for o in outs])
        result = "res (%s)" % rt
        dump = ast.dump(fn, include_attributes=False)
        sha = hashlib.sha256(dump.encode("utf-8")).hexdigest()
        out = "(* %s  class %s  def %s  lines %d-%d\n   sha256 of ast.dump: %s%s *)\n" % (
            spec["src"], spec["cls"], fn.name, fn.lineno, fn.end_lineno, sha,
            "\n   defaults: %s" % ", ".join("%s = %s" % kv for kv in sorted(spec["defaults"].items()))
            if spec.get("defaults") else "")
        body = ""
        if self.init:
            body += self.line(1, "let self := %s in" % cls["blank"])
        body += self.block(list(fn.body), env, k, 1)
        if spec.get("recursive"):
            out += "Fixpoint %s %s {struct fuel} : %s :=\n" % (spec["coq"], params.rstrip(), result)
            out += "  match fuel with\n  | O => Raise OutOfFuel\n  | S fuel' =>\n"
            out += _close(body, "\n  end.")
        else:
            out += "Definition %s %s : %s :=\n" % (spec["coq"], params.rstrip(), result)
            out += _close(body, ".")
        return out, sha


# ------------------------------------------------------------------ modules
def helper_body(cls_node, clsname, name):
    """a private method without a spec of the form
           def name(self): [docstring]  x = e | a, b = e1, e2 ...  return e
       (straight-line assignments to fresh local names, each assigned once) -> (assignments, e) with
       assignments = [([names], [expressions])], else None"""
    known = {s["py"] for s in SPECS if s["cls"] == clsname} | set(CLASSES[clsname]["untranslated"])
    if name in known:
        return None
    fns = [n for n in cls_node.body if isinstance(n, ast.FunctionDef) and n.name == name]
    if len(fns) != 1:
        return None
    fn = fns[0]
    a = fn.args
    if fn.decorator_list or a.vararg or a.kwarg or a.kwonlyargs or a.posonlyargs or a.defaults or fn.returns is not None \
            or [x.arg for x in a.args] != ["self"] or a.args[0].annotation is not None:
        return None
    body = [b for b in fn.body if not (isinstance(b, ast.Expr) and isinstance(b.value, ast.Constant)
                                       and type(b.value.value) is str) and not isinstance(b, ast.Pass)]
    if not body or not isinstance(body[-1], ast.Return) or body[-1].value is None:
        return None
    assigns, seen = [], {"self"}
    for b in body[:-1]:
        if not (isinstance(b, ast.Assign) and len(b.targets) == 1):
            return None
        t, v = b.targets[0], b.value
        if isinstance(t, ast.Name):
            names, exprs = [t.id], [v]
        elif isinstance(t, ast.Tuple) and isinstance(v, ast.Tuple) and len(t.elts) == len(v.elts) \
                and all(isinstance(x, ast.Name) for x in t.elts) and not any(isinstance(x, ast.Starred) for x in v.elts):
            names, exprs = [x.id for x in t.elts], list(v.elts)
        else:
            return None
        if any(n in seen for n in names) or len(set(names)) != len(names):
            return None
        seen |= set(names)
        assigns.append((names, exprs))
    return assigns, body[-1].value


def expression_helper(cls_node, clsname, name):
    """`def name(self): [docstring] return e` -> e, else None"""
    h = helper_body(cls_node, clsname, name)
    return h[1] if h is not None and not h[0] else None


def _parse(repo, rel):
    path = os.path.join(repo, rel)
    with open(path, encoding="utf-8", newline="") as f:
        src = f.read()
    return path, ast.parse(src, filename=path)


def _class_node(path, tree, name):
    classes = [n for n in ast.walk(tree) if isinstance(n, ast.ClassDef) and n.name == name]
    top = [n for n in tree.body if isinstance(n, ast.ClassDef) and n.name == name]
    if len(classes) != 1 or len(top) != 1:
        raise TranslateError("%s: class %s not defined exactly once at module level" % (path, name))
    cls = top[0]
    if cls.bases or cls.keywords or cls.decorator_list:
        raise TranslateError("%s:%d: class %s has bases / decorators" % (path, cls.lineno, name))
    return cls


def _check_class(path, cls, clsname):
    """every method is translated or known as untranslated; nothing else lives in the class body"""
    known = {s["py"] for s in SPECS if s["cls"] == clsname} | set(CLASSES[clsname]["untranslated"])
    seen = []
    for n in cls.body:
        if isinstance(n, ast.Expr) and isinstance(n.value, ast.Constant) and type(n.value.value) is str:
            continue
        if isinstance(n, ast.Pass):
            continue
        if not isinstance(n, ast.FunctionDef):
            raise TranslateError("%s:%d: class %s: unsupported statement in the class body" % (path, n.lineno, clsname))
        if n.name not in known:
            if helper_body(cls, clsname, n.name) is not None:
                continue             # `def h(self): x = ..; return e`: inlined where a translated method calls it
            raise TranslateError("%s:%d: class %s has a method %s the translator does not know (it could change the "
                                 "modelled state)" % (path, n.lineno, clsname, n.name))
        seen.append(n.name)
    for m in known:
        if seen.count(m) != 1:
            raise TranslateError("%s: %s.%s not defined exactly once" % (path, clsname, m))
    # the untranslated methods may not touch the grammar or the Optimizer
    for n in cls.body:
        if isinstance(n, ast.FunctionDef) and n.name in CLASSES[clsname]["untranslated"]:
            for m in ast.walk(n):
                if isinstance(m, (ast.Subscript, ast.Attribute)) and not isinstance(m.ctx, ast.Load):
                    r = m
                    chain = []
                    while isinstance(r, (ast.Subscript, ast.Attribute)):
                        if isinstance(r, ast.Attribute):
                            chain.append(r.attr)
                        r = r.value
                    if isinstance(r, ast.Name) and r.id == "self" and chain and chain[-1] in ("grammar", "optimizer"):
                        raise TranslateError("%s:%d: %s.%s stores into the grammar / the Optimizer"
                                             % (path, m.lineno, clsname, n.name))
                if isinstance(m, ast.Call) and isinstance(m.func, ast.Attribute):
                    r = m.func.value
                    while isinstance(r, (ast.Subscript, ast.Attribute)):
                        if isinstance(r, ast.Attribute) and r.attr in ("grammar", "optimizer") \
                                and isinstance(r.value, ast.Name) and r.value.id == "self":
                            raise TranslateError("%s:%d: %s.%s calls a method on the grammar / the Optimizer"
                                                 % (path, m.lineno, clsname, n.name))
                        r = r.value


def _check_imports(path, tree, clsname):
    """the names the translation interprets must be what it takes them for"""
    for n in ast.walk(tree):
        bound = []
        if isinstance(n, (ast.Import, ast.ImportFrom)):
            for a in n.names:
                if a.name == "*":
                    raise TranslateError("%s:%d: `import *`" % (path, n.lineno))
                b = a.asname or a.name.split(".")[0]
                if b == "GuessStructure":
                    if not (clsname == "MarkovCracker" and isinstance(n, ast.ImportFrom) and n.module == "guess_structure"
                            and n.level == 1 and a.name == "GuessStructure" and n in tree.body):
                        raise TranslateError("%s:%d: GuessStructure is not imported from .guess_structure" % (path, n.lineno))
                    continue
                bound.append(b)
        elif isinstance(n, (ast.FunctionDef, ast.AsyncFunctionDef, ast.ClassDef)):
            bound = [n.name] if n.name != clsname else []
            if not isinstance(n, ast.ClassDef):
                bound += [a.arg for a in n.args.args + n.args.kwonlyargs + n.args.posonlyargs
                          + [x for x in (n.args.vararg, n.args.kwarg) if x]]
        elif isinstance(n, ast.Name) and isinstance(n.ctx, (ast.Store, ast.Del)):
            bound = [n.id]
        elif isinstance(n, ast.ExceptHandler) and n.name:
            bound = [n.name]
        for b in bound:
            if b in BUILTINS_USED or b in CLASSES:
                raise TranslateError("%s:%d: %s is rebound in the module" % (path, n.lineno, b))
    if clsname == "MarkovCracker":
        imps = [n for n in tree.body if isinstance(n, ast.ImportFrom) and n.module == "guess_structure"]
        if len(imps) != 1:
            raise TranslateError("%s: GuessStructure is not imported exactly once" % path)


HEADERS = {
    OUT_OPT: "",
    OUT_GS: "From PcfgGen Require Import OmenGen_opt_gen.\n",
    OUT_MC: "From PcfgGen Require Import OmenGen_opt_gen OmenGen_gs_gen.\n",
}


def render(out, repo=None):
    """-> text of the generated file `out` (one of OUTS) for the sources of the current working tree"""
    repo = repo or common.REPO
    clsname = [c for c, d in CLASSES.items() if d["out"] == out][0]
    rel = CLASSES[clsname]["src"]
    path, tree = _parse(repo, rel)
    methods = {s["py"] for s in SPECS if s["cls"] == clsname}
    _check_module(path, tree, methods | {clsname})
    _check_imports(path, tree, clsname)
    cls = _class_node(path, tree, clsname)
    _check_class(path, cls, clsname)
    parts = []
    for i, spec in enumerate(SPECS):
        if spec["cls"] != clsname:
            continue
        before = {}
        for s in SPECS[:i]:
            before.setdefault(s["cls"], {})[s["py"]] = s
        fn = [n for n in cls.body if isinstance(n, ast.FunctionDef) and n.name == spec["py"]][0]
        text, _sha = FunctionTranslator(path, fn, spec, before, cls).translate()
        parts.append(text)
    head = (
        "(* GENERATED by harness/translate_omen_gen.py from the Python source of the current\n"
        "   working tree (%s: class %s) on every run of a check.  Do not edit.\n"
        "   Each definition is the line-by-line image of one Python method in the subset\n"
        "   documented in the translator; the numbers in the comments are source lines.\n"
        "   theories/OmenGen*Proofs.v prove these definitions equal to the hand-written\n"
        "   model of theories/Omen.v. *)\n"
        "From Coq Require Import List Arith Bool NArith ZArith.\n"
        "From Pcfg Require Import OmenSpec Omen OmenGenRt.\n%s"
        "Import ListNotations.\n\n" % (rel, clsname, HEADERS[out]))
    return head + "\n".join(parts)


def failure_text(err):
    """text written instead of the definitions when the translation fails: it must not
    compile, so that no stale generated definition survives"""
    return ("(* GENERATED by harness/translate_omen_gen.py.  The translation of the current sources FAILED:\n"
            "   %s\n   The line below does not type-check on purpose. *)\n"
            "Definition omen_gen_translation_failed : False := I.\n" % _comment(str(err)))


def write(repo=None):
    """write every generated file; a class that cannot be translated gets the failure text, the
    others are still written; the first error is raised at the end"""
    import extract_consts as X
    changed, first = False, None
    for out in OUTS:
        path = os.path.join(common.COQ, out)
        try:
            text = render(out, repo)
        except Exception as e:
            changed |= bool(X.write(path, failure_text("%s: %s" % (type(e).__name__, e))))
            first = first or e
            continue
        changed |= bool(X.write(path, text))
    if first is not None:
        raise first
    return changed


if __name__ == "__main__":
    if "--write" in sys.argv[1:]:
        print("written" if write() else "unchanged", [os.path.join(common.COQ, o) for o in OUTS])
    else:
        only = [a for a in sys.argv[1:] if not a.startswith("-")]
        for o in OUTS:
            if only and not any(x in o for x in only):
                continue
            sys.stdout.write(render(o) + "\n")
