"""Shared machinery of the /verif checks: paths, scratch space, Coq build and
case evaluation, literal emission, evidence and verdicts.

Run with /venv/bin/python (the interpreter the repository's own suite uses).
"""
import atexit
import fcntl
import json
import math
import os
import random
import re
import shutil
import subprocess
import sys
import tempfile
import time

ROOT = os.path.dirname(os.path.dirname(os.path.abspath(__file__)))
REPO = os.environ.get("PCFG_REPO", "/repo")
COQ = os.environ.get("PCFG_COQ", os.path.join(ROOT, "coq"))
PY = "/venv/bin/python"
NCPU = os.cpu_count() or 4

FORBIDDEN = re.compile(
    r"\b(Admitted|admit|Axiom|Axioms|Parameter|Parameters|Conjecture|Hypothesis|Variable|"
    r"Unset\s+Guard|bypass_check|type-in-type|impredicative-set|Admit\s+Obligations)\b")

_scratch = []


def scratch(prefix="pcfgverif_"):
    d = tempfile.mkdtemp(prefix=prefix, dir="/tmp")
    _scratch.append(d)
    return d


@atexit.register
def _cleanup():
    for d in _scratch:
        shutil.rmtree(d, ignore_errors=True)


def repo_on_path():
    """Import the implementation from the current working tree of /repo."""
    if REPO not in sys.path:
        sys.path.insert(0, REPO)
    sys.dont_write_bytecode = True


# ---------------------------------------------------------------- literals

def cfloat(x):
    """Python float -> Coq primitive-float literal, bit exact."""
    if isinstance(x, int):
        x = float(x)
    if math.isnan(x):
        return "nan"
    if math.isinf(x):
        return "infinity" if x > 0 else "neg_infinity"
    h = x.hex()
    if h.startswith("-"):
        return "(-%s)" % h[1:]
    return h


def clist(items, f=str):
    return "[" + "; ".join(f(i) for i in items) + "]"


def cnat(n):
    return "%d" % n


def cstr(s):
    """Python str -> list N of code points."""
    return "[" + "; ".join("%d" % ord(c) for c in s) + "]%N" if s else "(@nil N)"


def cbool(b):
    return "true" if b else "false"


def coption(x, f):
    return "None" if x is None else "(Some %s)" % f(x)


# ---------------------------------------------------------------- Coq build

def _lock():
    fd = os.open(os.path.join(COQ, ".build.lock"), os.O_CREAT | os.O_RDWR)
    fcntl.flock(fd, fcntl.LOCK_EX)
    return fd


def assemble_coqproject():
    """_CoqProject = header + the file lists in coq/project.d/*.list (one owner
    per list file, order = sorted list names, then lines)."""
    import glob
    lines = ["-Q theories Pcfg", "-Q gen PcfgGen", "-Q Props PcfgProps"]
    for lf in sorted(glob.glob(os.path.join(COQ, "project.d", "*.list"))):
        for l in open(lf):
            l = l.strip()
            if l and not l.startswith("#") and l not in lines:
                lines.append(l)
    txt = "\n".join(lines) + "\n"
    p = os.path.join(COQ, "_CoqProject")
    if not os.path.exists(p) or open(p).read() != txt:
        open(p, "w").write(txt)


def coqproject_files():
    assemble_coqproject()
    out = []
    for line in open(os.path.join(COQ, "_CoqProject")):
        line = line.strip()
        if line.endswith(".v"):
            out.append(line)
    import glob
    for pat in ("Props/*.v", "gen/*.v"):
        for f in sorted(glob.glob(os.path.join(COQ, pat))):
            rel = os.path.relpath(f, COQ)
            if rel not in out:
                out.append(rel)
    return out


def grep_gate():
    """No Admitted / axioms / disabled checks anywhere in the development."""
    bad = []
    for rel in coqproject_files():
        p = os.path.join(COQ, rel)
        if not os.path.exists(p):
            continue        # listed but not there (yet): make -k reports it to whoever depends on it
        txt = open(p, encoding="utf-8").read()
        # strip comments (nested)
        out, depth, i = [], 0, 0
        while i < len(txt):
            if txt.startswith("(*", i):
                depth += 1
                i += 2
            elif txt.startswith("*)", i) and depth:
                depth -= 1
                i += 2
            else:
                if depth == 0:
                    out.append(txt[i])
                elif txt[i] == "\n":
                    out.append("\n")
                i += 1
        code = "".join(out)
        in_section = 0
        for n, line in enumerate(code.split("\n"), 1):
            if re.match(r"\s*Section\b", line):
                in_section += 1
            if re.match(r"\s*End\b", line) and in_section:
                in_section -= 1
            for m in FORBIDDEN.finditer(line):
                w = m.group(1)
                if w in ("Variable", "Hypothesis") and in_section:
                    continue
                bad.append((rel, n, line.strip()))
    return bad


def build(targets=None, timeout=3000):
    """Full .vo build (never -vos) of the listed _CoqProject files.
    Returns (ok, log)."""
    fd = _lock()
    try:
        assemble_coqproject()
        mk = os.path.join(COQ, "Makefile.coq")
        proj = os.path.join(COQ, "_CoqProject")
        if (not os.path.exists(mk)) or os.path.getmtime(mk) < os.path.getmtime(proj):
            r = subprocess.run(["coq_makefile", "-f", "_CoqProject", "-o", "Makefile.coq"],
                               cwd=COQ, capture_output=True, text=True)
            if r.returncode != 0:
                return False, r.stdout + r.stderr
        cmd = ["timeout", str(timeout), "make", "-k", "-f", "Makefile.coq", "-j%d" % NCPU]
        if targets:
            cmd += targets
        r = subprocess.run(cmd, cwd=COQ, capture_output=True, text=True)
        if r.returncode != 0:
            # whatever make still considers out of date must not be used in its
            # old compiled form: remove the stale .vo so dependants fail to load it
            n = subprocess.run(["make", "-k", "-n", "-f", "Makefile.coq"], cwd=COQ, capture_output=True, text=True)
            for rel in set(re.findall(r"((?:theories|gen)/[A-Za-z0-9_]+)\.v\b", n.stdout + n.stderr)):
                for ext in (".vo", ".vos", ".vok", ".glob"):
                    try:
                        os.remove(os.path.join(COQ, rel + ext))
                    except OSError:
                        pass
        return r.returncode == 0, r.stdout + r.stderr
    finally:
        os.close(fd)


def coqc_file(path, timeout=900, extra_q=()):
    cmd = ["timeout", str(timeout), "coqc", "-Q", "theories", "Pcfg", "-Q", "gen", "PcfgGen",
           "-Q", "Props", "PcfgProps"]
    for d, n in extra_q:
        cmd += ["-Q", d, n]
    cmd.append(path)
    r = subprocess.run(cmd, cwd=COQ, capture_output=True, text=True)
    return r.returncode, r.stdout, r.stderr


def parse_nat_list(out):
    """Parse the single `= [...] : list nat` answer of an Eval."""
    flat = " ".join(out.split()).replace("%nat", "")
    m = re.search(r"=\s*\[([0-9; ]*)\]\s*:\s*list nat", flat)
    if not m:
        return None
    body = m.group(1).strip()
    return [int(x) for x in body.split(";") if x.strip()] if body else []


def run_case_shards(prop, shards, timeout=900):
    """shards: list of (name, coq_source).  Each source must end with one
    `Eval vm_compute in (... : list nat)` giving the indices of failing cases.
    Returns list of (name, failing_indices or None, log)."""
    d = os.path.join(COQ, "cases", prop)
    shutil.rmtree(d, ignore_errors=True)
    os.makedirs(d)
    paths = []
    for name, src in shards:
        p = os.path.join(d, name + ".v")
        with open(p, "w", encoding="utf-8") as f:
            f.write(src)
        paths.append((name, p))
    procs = []
    results = []
    pending = list(paths)
    running = []
    while pending or running:
        while pending and len(running) < NCPU:
            name, p = pending.pop(0)
            cmd = ["timeout", str(timeout), "coqc", "-Q", "theories", "Pcfg", "-Q", "gen", "PcfgGen",
                   os.path.relpath(p, COQ)]
            pr = subprocess.Popen(cmd, cwd=COQ, stdout=subprocess.PIPE, stderr=subprocess.PIPE, text=True)
            running.append((name, p, pr))
        still = []
        for name, p, pr in running:
            if pr.poll() is None:
                still.append((name, p, pr))
            else:
                out, err = pr.communicate()
                idx = parse_nat_list(out) if pr.returncode == 0 else None
                results.append((name, idx, (out + err)[-4000:]))
        running = still
        if running:
            time.sleep(0.05)
    # compiled case files are scratch
    for f in os.listdir(d):
        if not f.endswith(".v"):
            try:
                os.remove(os.path.join(d, f))
            except OSError:
                pass
    results.sort()
    return results


# ---------------------------------------------------------------- obligations

def theorem_names(rel):
    p = os.path.join(COQ, rel)
    if not os.path.exists(p):
        return []
    txt = open(p, encoding="utf-8").read()
    return re.findall(r"^\s*(?:Theorem|Lemma|Corollary|Example)\s+([A-Za-z0-9_']+)", txt, re.M)


def print_assumptions(rel):
    """Compile a Props file on its own and return its stdout (Print Assumptions)."""
    rc, out, err = coqc_file(rel)
    return rc, out, err


def axioms_from(out):
    """Names reported by Print Assumptions."""
    names = []
    for line in out.split("\n"):
        m = re.match(r"^([A-Za-z_][A-Za-z0-9_.']*)\s*:", line)
        if m and m.group(1) not in ("Axioms",):
            names.append(m.group(1))
    return sorted(set(names))


# ---------------------------------------------------------------- misc

def quiet_call(f, *a, **k):
    """Call f with stdout/stderr of the implementation swallowed."""
    import io
    import contextlib
    so, se = io.StringIO(), io.StringIO()
    with contextlib.redirect_stdout(so), contextlib.redirect_stderr(se):
        r = f(*a, **k)
    return r, so.getvalue(), se.getvalue()


def subenv():
    e = dict(os.environ)
    e["PYTHONPATH"] = REPO
    e["PYTHONHASHSEED"] = "0"
    e["PYTHONDONTWRITEBYTECODE"] = "1"
    e["PYTHONIOENCODING"] = "utf-8"
    return e


def copy_code_tree(dst):
    """Scratch copy of the repository's code (no Rules/, docs/, .git) for
    programs that write next to their own script (trainer, session files)."""
    subprocess.run(["rsync", "-a", "--exclude", ".git", "--exclude", "Rules", "--exclude", "docs",
                    "--exclude", "__pycache__", "--exclude", "*.sav", "--exclude", "*.omn",
                    REPO + "/", dst + "/"], check=True)
    os.makedirs(os.path.join(dst, "Rules"), exist_ok=True)
    return dst


def run_cli(args, cwd, env=None, timeout=120, feed=None):
    """Run a repository CLI with stdin kept OPEN (a pipe nobody writes to, unless
    [feed] bytes are given) until the process ends: a closed/EOF stdin makes the
    guesser's keyboard thread die, which the unrepaired session loop takes for a
    quit request (property C12) - checks of other properties must not depend on
    that.  Returns (returncode, stdout bytes, stderr bytes)."""
    p = subprocess.Popen(args, cwd=cwd, env=env or subenv(), stdin=subprocess.PIPE,
                         stdout=subprocess.PIPE, stderr=subprocess.PIPE)
    import threading
    out = {}

    def rd(name, f):
        out[name] = f.read()
    t1 = threading.Thread(target=rd, args=("o", p.stdout))
    t2 = threading.Thread(target=rd, args=("e", p.stderr))
    t1.start()
    t2.start()
    try:
        if feed:
            p.stdin.write(feed)
            p.stdin.flush()
        p.wait(timeout=timeout)
    except subprocess.TimeoutExpired:
        p.kill()
        p.wait()
    finally:
        try:
            p.stdin.close()
        except Exception:
            pass
    t1.join()
    t2.join()
    return p.returncode, out.get("o", b""), out.get("e", b"")


def run_main_driver(code, argv, quit_after_guesses=None, quit_after_pops=None, cap=200000, timeout=300, hashseed=None):
    """pcfg_guesser.main() of the scratch code copy [code] in a child process, the quit request delivered at a chosen
    point (harness/main_driver.py).  Returns the driver's result dict.  Guesses that were handed to print_guess but never reached
    stdout count as an error of the run (every user of this helper reports an error as a violation).  [hashseed]: PYTHONHASHSEED of
    the child (a resumed session is a NEW process with another string-hash salt)."""
    import json as _json
    spec = {"argv": list(argv), "quit_after_guesses": quit_after_guesses, "quit_after_pops": quit_after_pops, "cap": cap}
    env = subenv()
    env["PYTHONPATH"] = code
    if hashseed is not None:
        env["PYTHONHASHSEED"] = str(hashseed)
    p = subprocess.run([PY, os.path.join(ROOT, "harness", "main_driver.py"), code, _json.dumps(spec)], cwd=code, env=env,
                       stdin=subprocess.DEVNULL, stdout=subprocess.PIPE, stderr=subprocess.PIPE, timeout=timeout)
    for line in p.stdout.decode("utf-8", "replace").split("\n"):
        if line.startswith("@@RESULT@@"):
            res = _json.loads(line[len("@@RESULT@@"):])
            if res.get("lost_stdout_count") and not res.get("error"):
                res["error"] = "%d guess(es) were generated but never written to stdout (first: %r)" % (res["lost_stdout_count"], res["lost_stdout"][:3])
            return res
    return {"out": [], "pops": [], "error": "driver produced no result (rc %s): %s" % (p.returncode, p.stderr.decode("utf-8", "replace")[-500:]),
            "stray_stdout": ""}
