"""Status of the translator tie of the OMEN kernels (harness/translate_omen_level.py), as a
correspondence-style obligation of C11 / C18: the generated file must compile and the file with the
equality proofs (generated definition = hand-written model) must have been built by `make` from
the current generated text.  When it was not, the proofs file is compiled once more on its own to
name the lemma that no longer checks (the broken theorem a `no-failing-input-found` verdict names)."""
import os
import re
import subprocess

import common


def _first_error(rel, timeout=600):
    cmd = ["timeout", str(timeout), "coqc", "-Q", "theories", "Pcfg", "-Q", "gen", "PcfgGen", rel]
    r = subprocess.run(cmd, cwd=common.COQ, capture_output=True, text=True)
    if r.returncode == 0:
        return None
    err = r.stderr.strip()
    m = re.search(r'File "\./([^"]+)", line (\d+)', err)
    return err, (m.group(1), int(m.group(2))) if m else None


def _enclosing(rel, line):
    txt = open(os.path.join(common.COQ, rel), encoding="utf-8").read().split("\n")
    for i in range(min(line, len(txt)) - 1, -1, -1):
        m = re.match(r"\s*(Lemma|Theorem|Corollary|Example|Definition|Fixpoint)\s+([A-Za-z0-9_']+)", txt[i])
        if m:
            return "%s %s" % (m.group(1), m.group(2))
    return "?"


def status(name, gen_rel, proofs_rel):
    """-> (name, ok, detail)"""
    gen = os.path.join(common.COQ, gen_rel)
    if not os.path.exists(gen):
        return (name, False, "%s was not generated" % gen_rel)
    head = open(gen, encoding="utf-8").read(3000)
    if "translation of the current sources FAILED" in head:
        msg = " ".join(head.split("\n")[1:2]).strip()
        return (name, False, "the translator refuses the current source (outside its accepted subset): %s" % msg[:600])
    vo = os.path.join(common.COQ, proofs_rel[:-2] + ".vo")
    src = os.path.join(common.COQ, proofs_rel)
    gvo = gen[:-2] + ".vo"
    if os.path.exists(vo) and os.path.exists(gvo) and os.path.getmtime(vo) >= os.path.getmtime(src) \
            and os.path.getmtime(vo) >= os.path.getmtime(gvo) >= os.path.getmtime(gen):
        return (name, True, "")
    fd = common._lock()
    try:
        e = _first_error(gen_rel)
        if e is not None:
            return (name, False, "the generated file %s does not compile: %s" % (gen_rel, e[0][:600]))
        e = _first_error(proofs_rel)
        # leave no compiled form behind that `make` did not build
    finally:
        os.close(fd)
    if e is None:
        return (name, True, "")
    where = e[1]
    lemma = _enclosing(where[0], where[1]) if where else "?"
    return (name, False, "the translated Python no longer equals the model: %s (%s line %s) does not check: %s"
            % (lemma, where[0] if where else proofs_rel, where[1] if where else "?", " ".join(e[0].split())[:500]))
