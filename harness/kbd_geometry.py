"""Physical geometry of the two keyboards the trainer knows, INDEPENDENT of the tables of /repo.

The property (C05) calls a keyboard segment a walk of "adjacent keys".  The check used to decide adjacency with the
row lists it reads from the source and the index arithmetic of `is_next_on_keyboard` (a key's list index is its
column, fixed stagger between the rows): a table whose rows no longer start at the column the arithmetic assumes
moves oracle and model together with the code.  This module states where the keys ARE: an ANSI keyboard, US QWERTY
and Russian JCUKEN legends (both shift states), every key one unit wide, left edges

    number row   x = 0, 1, 2, ...      (` / ё is the key left of 1)
    Q row        x = 1.5 + i           (Tab is 1.5 keys wide)
    A row        x = 1.75 + i          (Caps Lock 1.75)
    Z row        x = 2.25 + i          (left Shift 2.25)

Two different keys are adjacent when they are side by side in one row (|dx| = 1) or in neighbouring rows and their
spans overlap (|dx| < 1).  Coordinates are kept in quarter key widths (integers).  The same tables are written down
a second time in coq/theories/KbdGeometry.v (phys_qwerty / phys_jcuken; KbdGeometryProofs.v relates them to the layouts of the
source); `coq_cases` lets Coq evaluate its copy on
strings this module judged.

The relation CONTAINS every adjacency the unchanged code accepts (`compare_with_code`: exhaustive over all ordered
pairs of keys of both layouts against the real find_keyboard_row_column / is_next_on_keyboard; the pairs only the
geometry has are the ones through keys the code's tables leave out: ` ~ ё Ё and the JCUKEN full stop)."""

ROW_X0 = [0, 6, 7, 9]          # quarter key widths
UNIT = 4

# (unshifted legends, shifted legends) per physical row, from the key left of 1
PHYSICAL = {
    "qwerty": [
        ("`1234567890-=", "~!@#$%^&*()_+"),
        ("qwertyuiop[]\\", "QWERTYUIOP{}|"),
        ("asdfghjkl;'", "ASDFGHJKL:\""),
        ("zxcvbnm,./", "ZXCVBNM<>?"),
    ],
    "jcuken": [
        ("ё1234567890-=", "Ё!\"№;%:?*()_+"),
        ("йцукенгшщзхъ\\",
         "ЙЦУКЕНГШЩЗХЪ/"),
        ("фывапролджэ",
         "ФЫВАПРОЛДЖЭ"),
        ("ячсмитьбю.", "ЯЧСМИТЬБЮ,"),
    ],
}
LAYOUTS = list(PHYSICAL)


def _positions():
    out = {}
    for name, rows in PHYSICAL.items():
        t = {}
        for r, (plain, shifted) in enumerate(rows):
            assert len(plain) == len(shifted)
            for legends in (plain, shifted):
                for i, c in enumerate(legends):
                    t.setdefault(c, set()).add((r, ROW_X0[r] + UNIT * i))
        out[name] = t
    return out


POS = _positions()        # layout -> character -> set of (row, x4)


def pos_adjacent(a, b):
    (r1, x1), (r2, x2) = a, b
    if a == b:
        return False
    if r1 == r2:
        return abs(x1 - x2) == UNIT
    if abs(r1 - r2) == 1:
        return abs(x1 - x2) < UNIT
    return False


def adjacent(layout, c, d):
    """c and d are legends of two adjacent keys of the layout"""
    t = POS[layout]
    return any(pos_adjacent(a, b) for a in t.get(c, ()) for b in t.get(d, ()))


def walk_on(layout, s):
    t = POS[layout]
    return all(c in t for c in s) and all(adjacent(layout, s[i], s[i + 1]) for i in range(len(s) - 1))


def is_walk(s):
    """every two consecutive characters are adjacent keys of ONE of the layouts"""
    return any(walk_on(l, s) for l in LAYOUTS)


def first_bad_step(s):
    """per layout the first step that is not between adjacent keys (for the report)"""
    out = []
    for l in LAYOUTS:
        t = POS[l]
        miss = [c for c in s if c not in t]
        if miss:
            out.append("%s: %r is not a key" % (l, miss[0]))
            continue
        for i in range(len(s) - 1):
            if not adjacent(l, s[i], s[i + 1]):
                out.append("%s: %r (row %d, x %.2f) and %r (row %d, x %.2f) are not adjacent keys" % (
                    (l, s[i]) + _show(l, s[i]) + (s[i + 1],) + _show(l, s[i + 1])))
                break
    return "; ".join(out)


def _show(layout, c):
    r, x = sorted(POS[layout][c])[0]
    return (r + 1, x / UNIT)


def char_class(c):
    return "a" if c.isalpha() else "d" if c.isdigit() else "o"


# ---------------------------------------------------------------- the key graph (for the generators)

class Board:
    """keys of one layout as physical positions; legends per position and shift state"""

    def __init__(self, layout):
        self.layout = layout
        self.legend = {}                       # (row, x4) -> (plain, shifted)
        for r, (plain, shifted) in enumerate(PHYSICAL[layout]):
            for i in range(len(plain)):
                self.legend[(r, ROW_X0[r] + UNIT * i)] = (plain[i], shifted[i])
        self.keys = sorted(self.legend)
        self.adj = {k: [j for j in self.keys if pos_adjacent(k, j)] for k in self.keys}
        # close, but not adjacent: two keys apart in a row, one row apart with the spans not overlapping (less than
        # two and a half keys), two rows apart nearly above each other - and the key itself (other shift state)
        self.near = {}
        for k in self.keys:
            n = []
            for j in self.keys:
                if pos_adjacent(k, j):
                    continue
                dr, dx = abs(k[0] - j[0]), abs(k[1] - j[1])
                if (dr == 0 and dx in (0, 2 * UNIT)) or (dr == 1 and UNIT <= dx < 2 * UNIT + 2) or (dr == 2 and dx < UNIT + 2):
                    n.append(j)
            self.near[k] = n

    def char(self, key, shift):
        return self.legend[key][1 if shift else 0]


BOARDS = {l: Board(l) for l in LAYOUTS}


def path_to_other_class(board, rng, start, shift, have, max_len=6):
    """a physical walk (list of keys, without `start`) from `start` to a key whose legend (in the given shift state) is of
    a class not in `have`; shortest, ties broken by rng; [] when there is none within max_len"""
    frontier = [(start, [])]
    seen = {start}
    for _ in range(max_len):
        nxt = []
        rng.shuffle(frontier)
        for k, path in frontier:
            ns = list(board.adj[k])
            rng.shuffle(ns)
            for j in ns:
                if j in seen:
                    continue
                seen.add(j)
                p = path + [j]
                if char_class(board.char(j, shift)) not in have:
                    return p
                nxt.append((j, p))
        frontier = nxt
    return []


def random_walk(board, rng, start, n, avoid=None):
    """n further keys, each adjacent to the one before (never the key just left)"""
    out, cur, prev = [], start, avoid
    for _ in range(n):
        ns = [j for j in board.adj[cur] if j != prev] or board.adj[cur]
        nx = rng.choice(ns)
        out.append(nx)
        prev, cur = cur, nx
    return out


def render(board, keys, shifts):
    return "".join(board.char(k, s) for k, s in zip(keys, shifts))


def shift_pattern(rng, n, first=None):
    """shift state per key: all plain, all shifted, one change, or free"""
    k = rng.random()
    if k < 0.4:
        s = [False] * n
    elif k < 0.65:
        s = [True] * n
    elif k < 0.85:
        c = rng.randrange(n + 1)
        b = rng.random() < 0.5
        s = [b] * c + [not b] * (n - c)
    else:
        s = [rng.random() < 0.5 for _ in range(n)]
    if first is not None and s:
        s[0] = first
    return s


def _extend(board, rng, frm, prev, shift, have, at_least):
    """keys that continue a walk standing on `frm` (reached from `prev`): towards a character class not in `have`
    when there is only one so far, then at random; at least `at_least` keys"""
    path = path_to_other_class(board, rng, frm, shift, have) if len(have) < 2 else []
    last = path[-1] if path else frm
    before = path[-2] if len(path) > 1 else (frm if path else prev)
    more = max(0, at_least - len(path)) + rng.choice([0, 0, 1, 2])
    return path + random_walk(board, rng, last, more, avoid=before)


def pair_strings(board, rng, a, b, sa, sb, per_pair=3):
    """strings of at least four keys that hold the step a -> b (shift states sa, sb) and are physical walks everywhere
    else: the step first, last, in the middle; the rest is steered towards a second character class"""
    out = []
    have = {char_class(board.char(a, sa)), char_class(board.char(b, sb))}
    for shape in range(per_pair):
        if shape % 3 == 0:                               # a b x y ...
            tail = _extend(board, rng, b, a, sb, have, 2)
            keys, shifts = [a, b] + tail, [sa, sb] + [sb] * len(tail)
        elif shape % 3 == 1:                             # ... y x a b
            head = _extend(board, rng, a, b, sa, have, 2)
            head.reverse()
            keys, shifts = head + [a, b], [sa] * len(head) + [sa, sb]
        else:                                            # ... x a b y ...
            s_rest = sb if rng.random() < 0.7 else not sb
            head = random_walk(board, rng, a, rng.choice([1, 1, 2]), avoid=b)
            head.reverse()
            h2 = have | {char_class(board.char(k, sa)) for k in head}
            tail = _extend(board, rng, b, a, s_rest, h2, 1)
            keys = head + [a, b] + tail
            shifts = [sa] * len(head) + [sa, sb] + [s_rest] * len(tail)
        out.append(render(board, keys, shifts))
    return out


def all_pairs(board, kind):
    """ordered pairs of keys: 'adjacent' or 'near' (close but not adjacent)"""
    rel = board.adj if kind == "adjacent" else board.near
    return [(a, b) for a in board.keys for b in rel[a]]


def gen_walk(rng, layout=None, crossing=None):
    """one string built around a physical walk of 4-9 keys of one layout with 0-2 steps replaced by a near miss;
    crossing: start on the digit row / the first letter row and cross to the other one in the first steps"""
    board = BOARDS[layout or rng.choice(LAYOUTS)]
    n = rng.choice([4, 4, 4, 5, 5, 6, 7, 9])
    if crossing is None:
        crossing = rng.random() < 0.5
    if crossing:
        r0 = rng.choice([0, 1])
        start = rng.choice([k for k in board.keys if k[0] == r0])
        nxt = [j for j in board.adj[start] + board.near[start] if j[0] == 1 - r0]
        second = rng.choice(nxt) if nxt else rng.choice(board.adj[start])
        keys = [start, second] + random_walk(board, rng, second, n - 2, avoid=start)
        if rng.random() < 0.5:
            keys.reverse()
    else:
        start = rng.choice(board.keys)
        keys = [start] + random_walk(board, rng, start, n - 1)
    for _ in range(rng.choice([0, 0, 0, 1, 1, 2])):        # a step to a key that is close, but not adjacent
        i = rng.randrange(1, len(keys))
        if board.near[keys[i - 1]]:
            keys[i] = rng.choice(board.near[keys[i - 1]])
            keys[i + 1:] = random_walk(board, rng, keys[i], len(keys) - i - 1, avoid=keys[i - 1])
    shifts = shift_pattern(rng, len(keys))
    return render(board, keys, shifts), board.layout


# ---------------------------------------------------------------- against the real code

def compare_with_code(code_boards, find, is_next):
    """code_boards: the layout dicts of the source in search order; find / is_next: the real find_keyboard_row_column /
    is_next_on_keyboard.  Every ordered pair of characters that are keys of a layout (in the code's tables or here) is
    put to both -> {layout: {"code": n accepted by the code, "physical": n adjacent here, "code_only": [pairs the code
    accepts that are not adjacent keys], "physical_only": [...]}}.  A layout the geometry does not know has every
    accepted pair in code_only."""
    table = {}
    for kb in code_boards:
        name = kb["name"]
        chars = set(POS.get(name, {}))
        for r, keys in kb.items():
            if r != "name":
                chars.update(keys)
        chars = sorted(chars)
        where = {c: find(c, [kb]) for c in chars}
        code_only, phys_only, n_code, n_phys = [], [], 0, 0
        for c in chars:
            for d in chars:
                got = name in (is_next(where[c], where[d]) or {})
                want = name in POS and adjacent(name, c, d)
                n_code += got
                n_phys += want
                if got and not want:
                    code_only.append(c + d)
                elif want and not got:
                    phys_only.append(c + d)
        table[name] = {"characters": len(chars), "code": n_code, "physical": n_phys, "code_only": code_only,
                       "physical_only": phys_only}
    return table


# ---------------------------------------------------------------- the Coq copy of the tables

def coq_cases(strings):
    """Gallina list of (string, per layout: is it a physical walk) for KbdGeometry.phys_case_ok"""
    import common
    items = ["(%s, [%s])" % (common.cstr(s), "; ".join(common.cbool(walk_on(l, s)) for l in LAYOUTS)) for s in strings]
    return "[" + ";\n".join(items) + "]"
