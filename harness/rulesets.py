"""Generated rulesets: a Python description, a writer producing a rule
directory the real loaders read, and the translation to the Coq model's
tables.  Every random choice comes from the caller's random.Random."""
import json
import os
import uuid as _uuid

# probabilities built to collide: exact ties, dyadics, one-ulp neighbours,
# products that are equal for different index vectors, tiny magnitudes
POOL = [1.0, 0.5, 0.25, 0.125, 0.75, 0.3, 0.1, 0.7, 0.2, 0.6, 0.15, 0.05, 0.35,
        1e-3, 1e-7, 2.0 ** -20, 2.0 ** -60, 1 / 3, 2 / 3, 1 / 7, 3 / 7, 0.1 + 0.2, 0.30000000000000004,
        0.09999999999999999, 0.1 * 3, 5e-324, 1e-320, 1e-300, 1e-160, 0.0]


def pool_value(rng):
    r = rng.random()
    if r < 0.70:
        return rng.choice(POOL[:24])
    if r < 0.80:
        return rng.choice(POOL[:13]) * rng.choice(POOL[:13])
    if r < 0.88:
        a = rng.choice(POOL[1:13])
        b = rng.choice(POOL[1:13])
        return min(1.0, a / b) if b else a
    if r < 0.95:
        return rng.choice(POOL[24:])
    return rng.random()


# incl. letters WITHOUT case (Hebrew, CJK: every mask gives the same string - still one guess per derivation), a word that is
# only partly cased, and U+0130 (the one capital the trainer keeps in its alpha lists, lower() has two code points)
WORDS = {1: ["a", "i", "x", "é", "日"], 2: ["ab", "we", "да", "ok", "אב", "İz"], 3: ["cat", "dog", "abc", "ñu ", "日本語", "aבג", "fİl"],
         4: ["pass", "love", "word", "тест", "שלום"], 5: ["hello", "admin", "qwert"]}
DIGITS = {1: ["1", "2", "7", "0"], 2: ["12", "99", "07", "00"], 3: ["123", "007", "321"], 4: ["1234", "2580", "0000"]}
OTHER = {1: ["!", "#", " ", "$", "*"], 2: ["!!", "#!", "  ", "€$"], 3: ["!@#", "..."]}
KEYB = {4: ["1qaz", "qwer", "zaq1", "1QAZ", "!QAZ"], 5: ["1qazx", "qwert", "QWERt"]}     # walks are stored as typed, capitals included
YEARS = ["2019", "1984", "2001", "1999", "2020"]
CONTEXT = ["#1", "<3", ";p", "No.1", "*0*"]


def gen_probs(rng, k, normalised):
    ps = sorted((pool_value(rng) for _ in range(k)), reverse=True)
    if normalised:
        tot = sum(ps)
        if tot > 0:
            ps = sorted((p / tot for p in ps), reverse=True)
    return ps


def gen_lines(rng, values, max_groups=5, max_per_group=3):
    """Lines (value, prob) of one terminal file, sorted by probability
    descending, with groups of equal probability; every value at most once."""
    values = list(dict.fromkeys(values))
    rng.shuffle(values)
    k = min(rng.randint(1, max_groups), len(values))
    ps = gen_probs(rng, k, rng.random() < 0.3)
    lines = []
    vi = 0
    for gi, p in enumerate(ps):
        room = len(values) - vi - (k - gi - 1)
        n = rng.randint(1, max(1, min(max_per_group, room)))
        for _ in range(n):
            lines.append((values[vi], p))
            vi += 1
    return lines


def masks_for(n, rng):
    ms = ["L" * n]
    if n >= 1:
        ms.append("U" + "L" * (n - 1))
    ms.append("U" * n)
    if n >= 2:
        ms.append("L" * (n - 1) + "U")
        ms.append("".join(rng.choice("UL") for _ in range(n)))
    out = []
    for m in ms:
        if m not in out:
            out.append(m)
    return out


def normalise_lines(lines):
    """make the line probabilities of one file sum to 1 (as the trainer writes them), keeping ties and order"""
    tot = sum(p for _, p in lines)
    if tot <= 0:
        return [(v, 1.0 / len(lines)) for v, _ in lines]
    return [(v, p / tot) for v, p in lines]


def normalise(rs):
    """every terminal file and the base-structure list sum to 1, like a trained ruleset"""
    for k in rs["files"]:
        rs["files"][k] = normalise_lines(rs["files"][k])
    rs["grammar"] = sorted(normalise_lines(rs["grammar"]), key=lambda x: -x[1])
    rs["prince"] = sorted(normalise_lines(rs["prince"]), key=lambda x: -x[1])
    return rs


def gen_ruleset(rng, with_markov=None, max_bases=4, max_len=5, name="T"):
    """A random ruleset description."""
    rs = {"name": name, "encoding": "utf-8", "uuid": str(_uuid.UUID(int=rng.getrandbits(128))),
          "files": {}, "grammar": [], "prince": [], "omen": None}
    kinds = []
    for n in rng.sample([1, 2, 3, 4, 5], rng.randint(1, 3)):
        kinds.append("A%d" % n)
    for n in rng.sample([1, 2, 3, 4], rng.randint(1, 2)):
        kinds.append("D%d" % n)
    for n in rng.sample([1, 2, 3], rng.randint(0, 2)):
        kinds.append("O%d" % n)
    if rng.random() < 0.3:
        kinds.append("K%d" % rng.choice([4, 5]))
    if rng.random() < 0.3:
        kinds.append("Y1")
    if rng.random() < 0.3:
        kinds.append("X1")
    small = rng.random() < 0.5
    mg = 3 if small else 5
    for k in kinds:
        c, n = k[0], int(k[1:])
        if c == "A":
            rs["files"][k] = gen_lines(rng, WORDS[n], mg)
            rs["files"]["C%d" % n] = gen_lines(rng, masks_for(n, rng), min(mg, 4))
        elif c == "D":
            rs["files"][k] = gen_lines(rng, DIGITS[n], mg)
        elif c == "O":
            rs["files"][k] = gen_lines(rng, OTHER[n], mg)
        elif c == "K":
            rs["files"][k] = gen_lines(rng, KEYB[n], mg)
        elif c == "Y":
            rs["files"][k] = gen_lines(rng, YEARS, mg)
        elif c == "X":
            rs["files"][k] = gen_lines(rng, CONTEXT, mg)
    # base structures
    nb = rng.randint(1, max_bases)
    structs = []
    for _ in range(nb):
        ln = rng.randint(1, max_len if not small else 3)
        s = [rng.choice(kinds) for _ in range(ln)]
        if rng.random() < 0.3 and ln >= 2:
            s[-1] = s[0]  # repeated type
        structs.append("".join(s))
    if rng.random() < 0.25 and structs:
        structs.append(rng.choice(structs))  # duplicate base-structure line
    if with_markov is None:
        with_markov = rng.random() < 0.4
    if with_markov:
        structs.insert(rng.randint(0, len(structs)), "M")
    ps = gen_probs(rng, len(structs), rng.random() < 0.5)
    # grammar.txt is sorted by the trainer, but the order of equal lines and the
    # position of M vary: keep the probabilities sorted, structures as drawn
    rs["grammar"] = list(zip(structs, ps))
    # Prince: single-label structures
    pk = [k for k in kinds]
    rng.shuffle(pk)
    pps = gen_probs(rng, len(pk), True)
    rs["prince"] = list(zip(pk, pps))
    # Markov level probabilities
    levels = rng.sample(range(0, 8), rng.randint(1, 4))
    lps = gen_probs(rng, len(levels), False)
    if len(lps) >= 2 and rng.random() < 0.5:
        # the trainer commonly writes several levels with the same probability (0.0)
        lps[-1] = lps[-2] = rng.choice([0.0, lps[-2]])
    rs["omen_prob"] = list(zip([str(l) for l in levels], lps))
    return rs


def gen_near_tie_ruleset(rng, name="T"):
    """Three (or four) variables with two groups each whose probability ratios agree to 9-16 digits WITHOUT being equal
    (counts such as 2800000004:1400000000, 2800000002:1400000000, 2800000000:1400000000): the rival parents of a
    pre-terminal are then strictly ordered but "close" - a tolerance in any of the kernel's comparisons changes who adopts it."""
    rs = {"name": name, "encoding": "utf-8", "uuid": str(_uuid.UUID(int=rng.getrandbits(128))),
          "files": {}, "grammar": [], "prince": [], "omen": None}
    kinds = rng.sample(["D1", "O1", "D2", "O2", "D3"], rng.choice([3, 3, 4]))
    vals = {"D1": DIGITS[1], "D2": DIGITS[2], "D3": DIGITS[3], "O1": OTHER[1], "O2": OTHER[2]}
    c1 = rng.choice([1400000000, 700000000, 1000000000, 3 * 2 ** 40, 10 ** 15])
    big = c1 * rng.choice([2, 3, 1])
    step = rng.choice([1, 2, 3]) if c1 < 10 ** 12 else rng.choice([1, 2, 1000, 10 ** 6])
    for j, k in enumerate(kinds):
        c0 = big + step * (len(kinds) - 1 - j)
        tot = c0 + c1
        rs["files"][k] = [(vals[k][0], c0 / tot), (vals[k][1], c1 / tot)]
    structs = ["".join(kinds)]
    if rng.random() < 0.5:
        structs.append("".join(rng.sample(kinds, len(kinds))))
    ps = sorted((rng.choice([0.5, 0.25, 0.3, 0.7]) for _ in structs), reverse=True)
    rs["grammar"] = list(zip(structs, ps))
    rs["prince"] = [(k, 1.0 / len(kinds)) for k in kinds]
    rs["omen_prob"] = [("1", 0.5)]
    return rs


def gen_close_lines_ruleset(rng, name="T"):
    """An ordinary random ruleset in which one to three lists carry ADJACENT lines whose probabilities differ in the 10th-16th
    significant digit (0.5 / 0.4999999999, p / nextafter(p)): distinct probabilities, hence distinct groups and distinct
    positions in the probability order - a loader that groups "close" values merges them."""
    import math
    rs = gen_ruleset(rng, with_markov=False, name=name)
    names = [k for k, v in rs["files"].items() if len(v) >= 2]
    rng.shuffle(names)
    for k in names[:rng.randint(1, 3)]:
        lines = list(rs["files"][k])
        order = list(range(len(lines) - 1))
        rng.shuffle(order)
        for i in order:
            p0 = float(lines[i][1])
            if p0 <= 0.0:
                continue
            p1 = rng.choice([p0 * (1 - 1e-10), p0 * (1 - 3e-13), math.nextafter(p0, 0.0), p0 * (1 - 2.0 ** -40)])
            nxt = float(lines[i + 2][1]) if i + 2 < len(lines) else 0.0
            if not (nxt < p1 < p0):
                continue
            lines[i + 1] = (lines[i + 1][0], p1)
            rs["files"][k] = lines
            rs["close_lines"] = rs.get("close_lines", 0) + 1
            break
    # a tail of tiny, distinct probabilities in exponent notation (6e-10, 3e-10, 1e-10): ABSOLUTELY close, relatively far apart
    tails = [k for k, v in rs["files"].items() if len(v) >= 3 and k[0] != "C"]
    if tails and rng.random() < 0.6:
        k = rng.choice(tails)
        lines = list(rs["files"][k])
        tiny = [6e-10, 3e-10, 1e-10] if rng.random() < 0.5 else [9e-11, 2.5e-11, 1e-12]
        n = min(3, len(lines) - 1)
        for j in range(n):
            lines[len(lines) - n + j] = (lines[len(lines) - n + j][0], tiny[j])
        if all(float(lines[i][1]) >= float(lines[i + 1][1]) for i in range(len(lines) - 1)):
            rs["files"][k] = lines
            rs["tiny_tail"] = rs.get("tiny_tail", 0) + 1
    return rs


SECTION = {"A": ("BASE_A", "Alpha"), "C": ("CAPITALIZATION", "Capitalization"), "D": ("BASE_D", "Digits"),
           "O": ("BASE_O", "Other"), "K": ("BASE_K", "Keyboard"), "Y": ("BASE_Y", "Years"),
           "X": ("BASE_X", "Context")}

DEFAULT_OMEN = {
    "ngram": 2, "alphabet": ["a", "b"],
    "ip": [(0, "a"), (1, "b")], "ep": [(0, "a"), (0, "b")],
    "cp": [(0, "aa"), (1, "ab"), (0, "ba"), (2, "bb")],
    "ln": [1, 0, 0, 1],
}


def write_lines(path, lines, encoding):
    with open(path, "w", encoding=encoding, newline="") as f:
        for v, p in lines:
            f.write(v + "\t" + (p if isinstance(p, str) else repr(float(p))) + "\n")


def write_omen(d, om, encoding="utf-8"):
    os.makedirs(d, exist_ok=True)
    with open(os.path.join(d, "config.txt"), "w") as f:
        f.write("[training_settings]\nngram = %d\nencoding = %s\n" % (om["ngram"], encoding))
    with open(os.path.join(d, "alphabet.txt"), "w", encoding=encoding, newline="") as f:
        for c in om["alphabet"]:
            f.write(c + "\n")
    for nm in ("ip", "ep", "cp"):
        with open(os.path.join(d, nm.upper() + ".level"), "w", encoding=encoding, newline="") as f:
            for lvl, s in om[nm]:
                f.write("%d\t%s\n" % (lvl, s))
    with open(os.path.join(d, "LN.level"), "w", newline="") as f:
        for lvl in om["ln"]:
            f.write("%d\n" % lvl)


def write_ruleset(rs, base_dir):
    """Write the rule directory <base_dir> (= .../Rules/<name>)."""
    enc = rs["encoding"]
    os.makedirs(base_dir, exist_ok=True)
    byc = {}
    for k, lines in rs["files"].items():
        c, n = k[0], k[1:]
        sec, d = SECTION[c]
        os.makedirs(os.path.join(base_dir, d), exist_ok=True)
        write_lines(os.path.join(base_dir, d, n + ".txt"), lines, enc)
        byc.setdefault(c, []).append(n + ".txt")
    for c, (sec, d) in SECTION.items():
        os.makedirs(os.path.join(base_dir, d), exist_ok=True)
    for d in ("Grammar", "Prince", "Emails", "Websites", "Omen"):
        os.makedirs(os.path.join(base_dir, d), exist_ok=True)
    write_lines(os.path.join(base_dir, "Grammar", "grammar.txt"), rs["grammar"], "utf-8")
    write_lines(os.path.join(base_dir, "Prince", "grammar.txt"), rs["prince"], "utf-8")
    write_lines(os.path.join(base_dir, "Emails", "email_providers.txt"), rs.get("emails", []), enc)
    write_lines(os.path.join(base_dir, "Websites", "website_hosts.txt"), rs.get("websites", []), enc)
    om = rs.get("omen") or DEFAULT_OMEN
    write_omen(os.path.join(base_dir, "Omen"), om, enc)
    write_lines(os.path.join(base_dir, "Omen", "pcfg_omen_prob.txt"), rs.get("omen_prob", []), enc)
    with open(os.path.join(base_dir, "Omen", "omen_keyspace.txt"), "w") as f:
        # the status report looks the level of the current Markov pre-terminal up here
        for lvl, ks in (rs.get("omen_keyspace") or {str(l): 1 for l, _ in rs.get("omen_prob", [])}).items():
            f.write("%s\t%d\n" % (lvl, ks))
    cfg = ["[TRAINING_PROGRAM_DETAILS]", "contact = x", "author = x", "program = PCFG Trainer", "version = 4.7", "",
           "[TRAINING_DATASET_DETAILS]", "comments = ", "filename = gen.txt", "encoding = " + enc,
           "uuid = " + rs["uuid"], "number_of_passwords_in_set = 1", "number_of_encoding_errors = 0", ""]
    for c, (sec, d) in SECTION.items():
        cfg += ["[%s]" % sec, "name = " + c, "directory = " + d,
                "filenames = " + json.dumps(byc.get(c, [])), ""]
    with open(os.path.join(base_dir, "config.ini"), "w") as f:
        f.write("\n".join(cfg))


def to_json(rs):
    return json.loads(json.dumps(rs))


# ------------------------------------------------------------ model tables

class VarMap:
    """Variable names <-> natural-number ids of the Coq tables."""

    def __init__(self):
        self.ids = {}
        self.names = []

    def id(self, name):
        if name not in self.ids:
            self.ids[name] = len(self.names)
            self.names.append(name)
        return self.ids[name]


def model_tables(pcfg):
    """Tables of the loaded implementation grammar (PcfgGrammar) as the model
    sees them: per variable the list of group probabilities, per base structure
    (prob, [var ids]).  Taken from the *loaded* objects, so the loader itself is
    part of what the C01/C02/C08 correspondence exercises (its own model is
    Loader.v / C07, C14)."""
    vm = VarMap()
    bases = []
    for b in pcfg.base:
        bases.append((b["prob"], [vm.id(r) for r in b["replacements"]]))
    table = []
    for nm in vm.names:
        table.append([g["prob"] for g in pcfg.grammar[nm]])
    return vm, table, bases
