#!/venv/bin/python
"""Fail-closed translator of the trainer's simple detectors from Python to Gallina.

    /venv/bin/python harness/translate_detect.py            print the generated text
    /venv/bin/python harness/translate_detect.py --write    write coq/gen/Detect_gen.v

Sources (SPECS): lib_trainer/detection_rules/digit_detection.py (detect_digits,
digit_detection), other_detection.py (other_detection), year_detection.py
(detect_year, year_detection), context_sensitive_detection.py
(detect_context_sensitive, context_sensitive_detection), alpha_detection.py
(detect_alpha, alpha_detection) and the method PCFGPasswordParser.parse of
lib_trainer/pcfg_password_parser.py (the order in which the detectors are applied
to the section list).  The sources are only parsed (`ast`), never imported or
executed.  The output (coq/gen/Detect_gen.v) targets the small runtime
coq/theories/DetectRt.v, and coq/theories/DetectGenProofs.v proves each generated
definition equal to the hand-written model of coq/theories/Detect.v / Segment.v
the C05 theorems are about.  A change of one of these functions therefore changes
the generated text and the equality proofs are re-checked against it on every run.

Accepted subset (anything else raises TranslateError with file:line):

  types      Z (Python int), bool, char (one character of a string: the loop
             variable of a loop over a string, s[i]), str, label (None or a label
             string), section (a pair (str, label)), list of sections, list of
             str, "T or None", tuples of these (function results only), pv (a
             section or a list of sections: the first component of what a detect_*
             function returns), the multi-word detector object (only passed on and
             used as multiword_detector.parse(s)).  Parameter and return types are
             given by SPECS (parameters by position; the number of parameters and
             the absence of defaults/annotations/decorators are checked); the types
             of locals are inferred.  A variable never changes its type.
  statements x = e;  x = [] / x = [str constants] (a fresh list);  x += e (ints,
             strings);  a, b = f(...) for f a function of SPECS translated before,
             and for multiword_detector.parse;  x.append(e), x.extend(e),
             del x[i], x[i] = e, x[a:b] = e on a list the function owns (a fresh
             local list, or a parameter SPECS marks as mutated - its final value is
             part of the generated function's result);  if / elif / else;
             for pos, c in enumerate(string) / for x in string-or-list (no else;
             the iterated list is not mutated in the body, except that a list the
             function owns may be stored into by `x[i] = e` - nothing else - while it
             is iterated: the loop then reads x[pos] from the current list, as
             Python's list iterator does);  while cond (no else; fuel from SPECS);
             break, continue, return e;  docstrings;  pass.
             `if a and b:` / `if a or b:` where a later operand contains an operation
             that can raise is read as the nested conditionals it abbreviates
             (`if a: if b: S else: T else: T`, resp. `if a: S else: if b: S else: T`).
             Plain aliasing of a list (x = y) is refused.  A variable first
             assigned inside a loop body or on one side of a conditional only is
             not visible afterwards.
  expressions names;  ints, True, False, None, str constants;  e[0] / e[1] on a
             section;  s[i] on a string or a list (evaluated before the statement
             it occurs in, not accepted where Python evaluates it conditionally);
             s[a:b], s[a:], s[:b] on strings;  len;  a + b, a - b on ints;  s + t
             on strings;  comparisons of ints;  ==, != of strings;  e is None,
             e is not None;  not / and / or;  a if c else b;  s.find(t);
             s.lower();  c.lower(), c.isdigit(), c.isalpha(), c.isupper() on one
             character;  ''.join(string);  ''.join(e for c in string);
             (string, label) with label = None, 'Y1', 'X1', 'E', 'W' or
             'K'/'A'/'D'/'O' + str(int), also written f'D{int}' (no conversion, no
             format specification);  truth value of a string / list / "T or None" /
             bool in a condition.
  layout     the variables a loop / a conditional carries are put into the generated
             tuples in a canonical order (by type, variables of one type in the order
             of their first binding), so that moving independent statements around
             does not change the generated term.
  PCFGPasswordParser.parse: the calls of the detectors in order (the ones of SPECS
             as translated; detect_keyboard_walk, email_detection and
             website_detection as parameters of the generated section: their
             effect on the section list only); the statements that feed counters
             (`for x in found: self.count_..[x] += 1`,
             self._update_counter_len_indexed(self.count_.., found)) are recorded
             as "counter := list" for the lists the translated detectors return and
             otherwise skipped; prince_evaluation and base_structure_creation are
             the observation point: the generated function returns the section list
             passed to base_structure_creation and the recorded counter feeds.

What the translation does NOT model: which exception is raised (only that one is:
an out-of-range subscript, an exception of a callee, None where a list is needed);
object identity beyond the ownership rule above; termination (`while` loops get the
fuel SPECS gives; the proofs show that it suffices); str.isdigit / isalpha /
isupper / lower per character, str.find, slicing and len (the operations of Str.v,
oracles as in Detect.v); label strings are the constructors of Detect.label;
multiword_detector.parse is the oracle `mwparse` (pure); counters, LeetDetector,
prince_evaluation and base_structure_creation are not translated; rebinding of
the translated functions from another module is out of the translator's sight.
"""
import ast
import hashlib
import os
import re
import sys

HERE = os.path.dirname(os.path.abspath(__file__))
if HERE not in sys.path:
    sys.path.insert(0, HERE)
import common  # noqa: E402
from translate_kernel import TranslateError, _paren, _close, _comment  # noqa: E402

OUT = os.path.join("gen", "Detect_gen.v")


class NeedsHoist(TranslateError):
    """an operation that can raise occurs where the caller allows none"""
D = "lib_trainer/detection_rules/"

# ------------------------------------------------------------------ types
Z, BOOL, CHAR, STR, LABEL, SECTION, SECLIST, STRLIST, PV, MWD, NONE, UNIT = (
    "Z", "bool", "char", "str", "label", "section", "seclist", "strlist", "pv", "mwd", "none", "unit")
EMPTYLIST = "emptylist"            # `[]` whose element type is not known yet


def OPT(t):
    return ("opt", t)


def TUP(*ts):
    return ("tup",) + tuple(ts)


def is_opt(t):
    return isinstance(t, tuple) and t[0] == "opt"


def is_tup(t):
    return isinstance(t, tuple) and t[0] == "tup"


LISTS = (SECLIST, STRLIST, EMPTYLIST)
CONCRETE_LISTS = [SECLIST, STRLIST]        # the list types with a known element type (a sibling translator adds its own)
ELEM = {SECLIST: SECTION, STRLIST: STR}
LIST_OF = {SECTION: SECLIST, STR: STRLIST}


EXTRA_COQ_TYPES = {}      # type name -> Coq type, for the types a sibling translator adds (translate_detect2.py)


EXTRA_COQ_TYPE_FUNS = []  # functions type -> Coq type or None, for the structured types a sibling translator adds


def coq_type(t):
    if t in EXTRA_COQ_TYPES:
        return EXTRA_COQ_TYPES[t]
    for f in EXTRA_COQ_TYPE_FUNS:
        r = f(t)
        if r is not None:
            return r
    if is_opt(t):
        return "option (%s)" % coq_type(t[1])
    if is_tup(t):
        return "(" + " * ".join(coq_type(x) for x in t[1:]) + ")"
    return {Z: "Z", BOOL: "bool", CHAR: "N", STR: "Str.str", LABEL: "option Detect.label", SECTION: "Detect.section",
            SECLIST: "list Detect.section", STRLIST: "list Str.str", PV: "pv", UNIT: "unit"}[t]


def tname(t):
    if is_opt(t):
        return "%s or None" % tname(t[1])
    if is_tup(t):
        return "(" + ", ".join(tname(x) for x in t[1:]) + ")"
    return t if isinstance(t, str) else "%s(%s)" % (t[0], ", ".join(tname(x) for x in t[1:]))


DRIVE_FUEL = "drive_fuel {0}"
SPECS = [
    dict(file=D + "digit_detection.py", py="detect_digits", coq="py_detect_digits",
         params=[SECTION], ret=TUP(PV, OPT(STR))),
    dict(file=D + "digit_detection.py", py="digit_detection", coq="py_digit_detection",
         params=[SECLIST], mutates=[0], ret=STRLIST, fuel=DRIVE_FUEL),
    dict(file=D + "other_detection.py", py="other_detection", coq="py_other_detection",
         params=[SECLIST], mutates=[0], ret=STRLIST, fuel="length {0}"),
    dict(file=D + "year_detection.py", py="detect_year", coq="py_detect_year",
         params=[SECTION], ret=TUP(PV, OPT(STR)), fuel="S (S (length (fst {0})))"),
    dict(file=D + "year_detection.py", py="year_detection", coq="py_year_detection",
         params=[SECLIST], mutates=[0], ret=STRLIST, fuel=DRIVE_FUEL),
    dict(file=D + "context_sensitive_detection.py", py="detect_context_sensitive", coq="py_detect_context_sensitive",
         params=[SECTION], ret=TUP(PV, OPT(STR))),
    dict(file=D + "context_sensitive_detection.py", py="context_sensitive_detection",
         coq="py_context_sensitive_detection", params=[SECLIST], mutates=[0], ret=STRLIST, fuel=DRIVE_FUEL),
    dict(file=D + "alpha_detection.py", py="detect_alpha", coq="py_detect_alpha",
         params=[SECTION, MWD], ret=TUP(PV, OPT(STRLIST), OPT(STRLIST))),
    dict(file=D + "alpha_detection.py", py="alpha_detection", coq="py_alpha_detection",
         params=[SECLIST, MWD], mutates=[0], ret=TUP(STRLIST, STRLIST), fuel=DRIVE_FUEL),
]

# PCFGPasswordParser.parse: where each detector comes from, and the ones that stay parameters
PARSER = "lib_trainer/pcfg_password_parser.py"
PARSER_CLASS = "PCFGPasswordParser"
PARSE_COQ = "py_parse"
EXTERNAL = {     # name -> (module it must be imported from, kind)
    "detect_keyboard_walk": (".detection_rules.keyboard_walk", "source"),    # password -> section list
    "email_detection": (".detection_rules.email_detection", "stage"),        # mutates the section list
    "website_detection": (".detection_rules.website_detection", "stage"),
}
IMPORTED = {     # translated detectors as parse() must import them
    "year_detection": ".detection_rules.year_detection",
    "context_sensitive_detection": ".detection_rules.context_sensitive_detection",
    "alpha_detection": ".detection_rules.alpha_detection",
    "digit_detection": ".detection_rules.digit_detection",
    "other_detection": ".detection_rules.other_detection",
}
OBSERVERS = {"prince_evaluation": ".prince_metrics", "base_structure_creation": ".base_structure"}
# the counters whose feed is recorded (those fed by the translated detectors), in result order
COUNTERS = ["count_years", "count_context_sensitive", "count_alpha", "count_alpha_masks", "count_digits", "count_other"]

LABEL_CONST = {"Y1": "LY", "X1": "LX", "E": "LE", "W": "LW"}
LABEL_LEN = {"K": "LK", "A": "LA", "D": "LD", "O": "LO"}
BUILTINS_USED = {"len", "str", "enumerate"}

# identifiers the generated text uses itself: a Python variable of that name is refused
RESERVED = set("""for_live for_enum_live for_each_live fuel_ tt true false fst snd length len slice sfrom sto getc find lower lower_c isalpha isdigit isupper
mwparse str_eqb nonempty flat_map app nil cons list nat bool unit option Some None O S Z N fun let in if then else match with
end forall exists Type Prop Set as at return fix cofix struct where Definition Fixpoint Section End Variable Variables
ctl Next Continue Break Return Raise bind run for_from for_enum for_each while_ lget sub_s sub_l call llen append extend
ldel lset lins pv PSec PList pv_list truthy is_none negb andb orb str LK LE LW LY LX LA LD LO drive_fuel
ext_detect_keyboard_walk ext_email_detection ext_website_detection Detect DetectRt Str Multiword""".split()) \
    | {s["coq"] for s in SPECS} | {PARSE_COQ}


def cstr(s):
    return ("[" + "; ".join("%d" % ord(c) for c in s) + "]%N") if s else "(@nil N)"


class Env:
    def __init__(self):
        self.types = {}       # name -> type
        self.owned = set()    # list variables no other name can refer to (mutation allowed)

    def copy(self):
        e = Env()
        e.types = dict(self.types)
        e.owned = set(self.owned)
        return e


class Ctx:
    """what falling off the end of a block, `continue`, `break` mean there"""

    def __init__(self, out, loop):
        self.out = out        # names whose values the block's Next carries
        self.loop = loop      # loop-carried names of the innermost loop, None outside loops


TYPE_RANK = {BOOL: 0, Z: 1, CHAR: 2, STR: 3, LABEL: 4, SECTION: 5, SECLIST: 6, STRLIST: 7, EMPTYLIST: 8}


def canonical(names, env):
    """the carried variables in an order that does not depend on where the statements of the block stand:
    by type, variables of one type in the order in which they were first bound; names not bound yet
    (assigned on both sides of a conditional) last, in order of occurrence"""
    pos = {n: i for i, n in enumerate(env.types)}
    known = sorted((n for n in names if n in env.types),
                   key=lambda n: (TYPE_RANK.get(env.types[n], 9 if is_opt(env.types[n]) else 10), pos[n]))
    return known + [n for n in names if n not in env.types]


def tuple_text(names):
    if not names:
        return "tt", "(_ : unit)"
    if len(names) == 1:
        return names[0], names[0]
    t = "(" + ", ".join(names) + ")"
    return t, "'" + t


class FunctionTranslator:
    # constructs refused wherever they occur in a block (a sibling translator that gives some of them a
    # reading overrides the tuple)
    REFUSED = (ast.NamedExpr, ast.Global, ast.Nonlocal, ast.With, ast.Import, ast.ImportFrom,
               ast.FunctionDef, ast.AsyncFunctionDef, ast.ClassDef, ast.Lambda, ast.ListComp,
               ast.SetComp, ast.DictComp, ast.Try, ast.Raise, ast.Assert, ast.Yield,
               ast.YieldFrom, ast.Await, ast.AsyncFor, ast.AsyncWith, ast.Match)

    MAX_PASSES = 4       # passes over a function until the element types of its `[]` are settled

    def __init__(self, path, rel, fn, spec, done, cls=None):
        self.path, self.rel, self.fn, self.spec, self.cls = path, rel, fn, spec, cls
        self.done = done            # py name -> spec of the functions translated before (callable by that name here)
        self.uid = 0
        self.listtypes = {}         # variable name -> element type of its `[]`
        self.retry = False

    # -------------------------------------------------------------- errors
    def fail(self, node, msg):
        raise TranslateError("%s:%d: %s%s: %s  [%s]" % (
            self.path, getattr(node, "lineno", self.fn.lineno), (self.cls + "." if self.cls else ""), self.fn.name, msg,
            _comment(ast.unparse(node)).split("\n")[0][:100]))

    def fresh(self, prefix):
        self.uid += 1
        return "%s%d_" % (prefix, self.uid)

    def check_name(self, node, name):
        if name in RESERVED or name.startswith("py_") or not name.isidentifier() or not name.isascii() \
                or re.fullmatch(r"[a-z]+\d+_", name) or name == "_":
            self.fail(node, "the variable name %r collides with the generated code" % name)

    # -------------------------------------------------------------- header
    def check_signature(self):
        fn, spec = self.fn, self.spec
        a = fn.args
        if fn.decorator_list or a.vararg or a.kwarg or a.kwonlyargs or a.posonlyargs or a.kw_defaults or a.defaults:
            self.fail(fn, "unsupported signature")
        if isinstance(fn, ast.AsyncFunctionDef):
            self.fail(fn, "async def")
        names = [x.arg for x in a.args]
        if self.cls:
            if not names or names[0] != "self":
                self.fail(fn, "first parameter of the method must be self")
            names = names[1:]
        if len(names) != len(spec["params"]):
            self.fail(fn, "%d parameters, the translator knows %d" % (len(names), len(spec["params"])))
        if any(x.annotation is not None for x in a.args) or fn.returns is not None:
            self.fail(fn, "annotations are not supported")
        if len(set(names)) != len(names):
            self.fail(fn, "parameter names collide")
        for n in names:
            self.check_name(fn, n)
        return names

    # -------------------------------------------------------------- coercion
    def coerce(self, node, text, ty, want, H):
        """text of type ty where a value of type want is needed"""
        if ty == want:
            return text
        if ty == NONE and (is_opt(want) or want == LABEL):
            return "None"
        if is_opt(want) and not is_opt(ty) and ty != NONE:
            return "Some %s" % _paren(self.coerce(node, text, ty, want[1], H))
        if want == PV and ty == SECTION:
            return "PSec %s" % _paren(text)
        if want == PV and ty == SECLIST:
            return "PList %s" % _paren(text)
        if want == STR and ty == CHAR:
            return "[%s]" % text
        if ty == EMPTYLIST and want in CONCRETE_LISTS:
            return "(@nil %s)" % _paren(coq_type(ELEM[want]))
        if want == SECLIST and ty == PV:
            # a section where a list of sections is needed: treated as an exception (see DetectRt.pv_list)
            return self.hoist(node, H, "call (pv_list %s)" % _paren(text), "l")
        if is_opt(ty) and ty[1] == want:
            # None where a value is needed: Python raises (TypeError) when it uses it
            return self.hoist(node, H, "call %s" % _paren(text), "v")
        if is_tup(ty) and is_tup(want) and len(ty) == len(want):
            self.fail(node, "internal: tuple coercion")
        self.fail(node, "a value of type %s where %s is needed" % (tname(ty), tname(want)))

    def hoist(self, node, H, head, prefix):
        if H is None:
            try:
                self.fail(node, "an operation that can raise is used where Python evaluates it conditionally "
                                "(or in a loop condition): not supported")
            except TranslateError as e:
                raise NeedsHoist(str(e))
        v = self.fresh(prefix)
        H.append("%s (fun %s =>" % (head, v))
        return v

    # -------------------------------------------------------------- expressions
    def label(self, e, env, H):
        """text of a label expression (None, a label constant, 'D' + str(int)), or None"""
        if isinstance(e, ast.Constant) and e.value is None:
            return "None"
        if isinstance(e, ast.Constant) and type(e.value) is str and e.value in LABEL_CONST:
            return "Some %s" % LABEL_CONST[e.value]
        if isinstance(e, ast.BinOp) and isinstance(e.op, ast.Add) and isinstance(e.left, ast.Constant) \
                and e.left.value in LABEL_LEN and type(e.left.value) is str \
                and isinstance(e.right, ast.Call) and isinstance(e.right.func, ast.Name) and e.right.func.id == "str" \
                and len(e.right.args) == 1 and not e.right.keywords:
            t, ty = self.expr(e.right.args[0], env, H)
            if ty != Z:
                self.fail(e, "str(...) of a value of type %s in a label" % tname(ty))
            return "Some (%s %s)" % (LABEL_LEN[e.left.value], _paren(t))
        # f'D{n}': the same string as 'D' + str(n) for an int n (no conversion, no format specification)
        if isinstance(e, ast.JoinedStr) and len(e.values) == 2 and isinstance(e.values[0], ast.Constant) \
                and type(e.values[0].value) is str and e.values[0].value in LABEL_LEN \
                and isinstance(e.values[1], ast.FormattedValue) and e.values[1].conversion == -1 \
                and e.values[1].format_spec is None:
            t, ty = self.expr(e.values[1].value, env, H)
            if ty != Z:
                self.fail(e, "{...} of a value of type %s in a label" % tname(ty))
            return "Some (%s %s)" % (LABEL_LEN[e.values[0].value], _paren(t))
        return None

    def int_const(self, e):
        if isinstance(e, ast.Constant) and type(e.value) is int:
            return e.value
        if isinstance(e, ast.UnaryOp) and isinstance(e.op, ast.USub) and isinstance(e.operand, ast.Constant) \
                and type(e.operand.value) is int:
            return -e.operand.value
        return None

    def expr(self, e, env, H):
        """-> (Gallina text, type); H: list the operations that can raise are hoisted into, None = not allowed"""
        k = self.int_const(e)
        if k is not None:
            return ("%d" % k if k >= 0 else "(%d)" % k), Z
        if isinstance(e, ast.Name):
            if e.id not in env.types:
                self.fail(e, "unknown variable %r (not assigned on every path to here?)" % e.id)
            if env.types[e.id] == MWD:
                self.fail(e, "the multi-word detector may only be passed on or used as x.parse(s)")
            return e.id, env.types[e.id]
        if isinstance(e, ast.Constant):
            if e.value is True:
                return "true", BOOL
            if e.value is False:
                return "false", BOOL
            if e.value is None:
                return "None", NONE
            if type(e.value) is str:
                return cstr(e.value), STR
            self.fail(e, "unsupported constant")
        if isinstance(e, ast.Tuple):
            if len(e.elts) == 2:
                if self.label(e.elts[1], env, []) is not None:
                    a, ta = self.expr(e.elts[0], env, H)
                    lab = self.label(e.elts[1], env, H)
                    a = self.coerce(e, a, ta, STR, H)
                    return "(%s, %s)" % (a, lab), SECTION
            parts = [self.expr(x, env, H) for x in e.elts]
            if len(parts) < 2 or any(is_tup(t) for _, t in parts):
                self.fail(e, "unsupported tuple")
            return "(" + ", ".join(t for t, _ in parts) + ")", TUP(*[t for _, t in parts])
        if isinstance(e, ast.List):
            if not e.elts:
                return "[]", EMPTYLIST
            if all(isinstance(x, ast.Constant) and type(x.value) is str for x in e.elts):
                return "[" + "; ".join(cstr(x.value) for x in e.elts) + "]", STRLIST
            self.fail(e, "only [] and lists of string constants are supported")
        if isinstance(e, ast.UnaryOp):
            if isinstance(e.op, ast.Not):
                return "negb %s" % _paren(self.truth(e.operand, env, H)), BOOL
            self.fail(e, "unsupported unary operator")
        if isinstance(e, ast.BoolOp):
            # the right operands are evaluated conditionally: nothing that can raise there
            parts = [self.truth(v, env, H if i == 0 else None) for i, v in enumerate(e.values)]
            op = " && " if isinstance(e.op, ast.And) else " || "
            for v in e.values:
                _, tv = self.expr(v, env, None if v is not e.values[0] else [])
                if tv != BOOL:
                    self.fail(e, "and/or of non-boolean values (the result would not be a bool)")
            return op.join(_paren(p) for p in parts), BOOL
        if isinstance(e, ast.IfExp):
            c = self.truth(e.test, env, H)
            a, ta = self.expr(e.body, env, None)
            b, tb = self.expr(e.orelse, env, None)
            if ta != tb:
                if {ta, tb} == {CHAR, STR}:
                    a, b = self.coerce(e, a, ta, STR, None), self.coerce(e, b, tb, STR, None)
                    ta = STR
                else:
                    self.fail(e, "branches of the conditional expression have types %s and %s" % (tname(ta), tname(tb)))
            return "if %s then %s else %s" % (c, a, b), ta
        if isinstance(e, ast.BinOp):
            a, ta = self.expr(e.left, env, H)
            b, tb = self.expr(e.right, env, H)
            if isinstance(e.op, ast.Add) and (ta, tb) == (Z, Z):
                return "%s + %s" % (_paren(a), _paren(b)), Z
            if isinstance(e.op, ast.Sub) and (ta, tb) == (Z, Z):
                return "%s - %s" % (_paren(a), _paren(b)), Z
            if isinstance(e.op, ast.Add) and ta in (STR, CHAR) and tb in (STR, CHAR):
                return "%s ++ %s" % (_paren(self.coerce(e, a, ta, STR, H)), _paren(self.coerce(e, b, tb, STR, H))), STR
            self.fail(e, "unsupported arithmetic (%s %s %s)" % (tname(ta), type(e.op).__name__, tname(tb)))
        if isinstance(e, ast.Compare):
            if len(e.ops) != 1 or len(e.comparators) != 1:
                self.fail(e, "chained comparison")
            op = type(e.ops[0])
            r = e.comparators[0]
            if op in (ast.Is, ast.IsNot):
                if not (isinstance(r, ast.Constant) and r.value is None):
                    self.fail(e, "`is` is supported against None only")
                a, ta = self.expr(e.left, env, H)
                if not (is_opt(ta) or ta in (LABEL, NONE)):
                    self.fail(e, "`is None` of a value of type %s (never None)" % tname(ta))
                t = "is_none %s" % _paren(a) if ta != NONE else "true"
                return (t if op is ast.Is else "negb %s" % _paren(t)), BOOL
            a, ta = self.expr(e.left, env, H)
            b, tb = self.expr(r, env, H)
            if (ta, tb) == (Z, Z):
                a, b = _paren(a), _paren(b)
                table = {ast.Lt: "%s <? %s" % (a, b), ast.LtE: "%s <=? %s" % (a, b),
                         ast.Gt: "%s <? %s" % (b, a), ast.GtE: "%s <=? %s" % (b, a),
                         ast.Eq: "%s =? %s" % (a, b), ast.NotEq: "negb (%s =? %s)" % (a, b)}
            elif (ta, tb) == (STR, STR):
                a, b = _paren(a), _paren(b)
                table = {ast.Eq: "str_eqb %s %s" % (a, b), ast.NotEq: "negb (str_eqb %s %s)" % (a, b)}
            else:
                self.fail(e, "comparison of %s with %s" % (tname(ta), tname(tb)))
            if op not in table:
                self.fail(e, "unsupported comparison operator")
            return table[op], BOOL
        if isinstance(e, ast.Subscript):
            return self.subscript(e, env, H)
        if isinstance(e, ast.Call):
            return self.call_expr(e, env, H)
        self.fail(e, "unsupported expression (%s)" % type(e).__name__)

    def truth(self, e, env, H):
        """the truth value Python gives e in a condition, as a bool text"""
        if isinstance(e, ast.UnaryOp) and isinstance(e.op, ast.Not):
            return "negb %s" % _paren(self.truth(e.operand, env, H))
        if isinstance(e, ast.BoolOp):
            parts = [self.truth(v, env, H if i == 0 else None) for i, v in enumerate(e.values)]
            return (" && " if isinstance(e.op, ast.And) else " || ").join(_paren(p) for p in parts)
        t, ty = self.expr(e, env, H)
        if ty == BOOL:
            return t
        if ty in (STR, SECLIST, STRLIST):
            return "nonempty %s" % _paren(t)
        if is_opt(ty) and ty[1] in (STR, SECLIST, STRLIST):
            return "truthy %s" % _paren(t)
        if ty == NONE:
            return "false"
        self.fail(e, "truth value of a value of type %s is not supported" % tname(ty))

    def subscript(self, e, env, H):
        if not isinstance(e.ctx, ast.Load):
            self.fail(e, "unsupported use of a subscript")
        v, tv = self.expr(e.value, env, H)
        sl = e.slice
        if isinstance(sl, ast.Slice):
            if sl.step is not None:
                self.fail(e, "slice with a step")
            if tv != STR:
                self.fail(e, "slice of a value of type %s" % tname(tv))
            lo = hi = None
            if sl.lower is not None:
                lo, tl = self.expr(sl.lower, env, H)
                if tl != Z:
                    self.fail(e, "slice bound of type %s" % tname(tl))
            if sl.upper is not None:
                hi, th = self.expr(sl.upper, env, H)
                if th != Z:
                    self.fail(e, "slice bound of type %s" % tname(th))
            if lo is not None and hi is not None:
                return "slice %s %s %s" % (_paren(v), _paren(lo), _paren(hi)), STR
            if lo is not None:
                return "sfrom %s %s" % (_paren(v), _paren(lo)), STR
            if hi is not None:
                return "sto %s %s" % (_paren(v), _paren(hi)), STR
            return v, STR
        if tv == SECTION:
            k = self.int_const(sl)
            if k == 0:
                return "fst %s" % _paren(v), STR
            if k == 1:
                return "snd %s" % _paren(v), LABEL
            self.fail(e, "a section may only be subscripted by the constants 0 and 1")
        i, ti = self.expr(sl, env, H)
        if ti != Z:
            self.fail(e, "index of type %s" % tname(ti))
        if tv == STR:
            return self.hoist(e, H, "sub_s %s %s" % (_paren(v), _paren(i)), "c"), CHAR
        if tv in CONCRETE_LISTS:
            return self.hoist(e, H, "sub_l %s %s" % (_paren(v), _paren(i)), "x"), ELEM[tv]
        self.fail(e, "subscript of a value of type %s" % tname(tv))

    def call_expr(self, e, env, H):
        f = e.func
        if e.keywords or any(isinstance(a, ast.Starred) for a in e.args):
            self.fail(e, "keyword / starred arguments")
        if isinstance(f, ast.Name) and f.id == "len" and len(e.args) == 1:
            v, tv = self.expr(e.args[0], env, H)
            if tv == STR:
                return "len %s" % _paren(v), Z
            if tv in CONCRETE_LISTS:
                return "llen %s" % _paren(v), Z
            self.fail(e, "len of a value of type %s" % tname(tv))
        if isinstance(f, ast.Attribute):
            # ''.join(...)
            if f.attr == "join" and isinstance(f.value, ast.Constant) and f.value.value == "" and len(e.args) == 1:
                a = e.args[0]
                if isinstance(a, ast.GeneratorExp):
                    return self.join_gen(a, env, H)
                v, tv = self.expr(a, env, H)
                if tv != STR:
                    self.fail(e, "''.join of a value of type %s" % tname(tv))
                return v, STR
            v, tv = self.expr(f.value, env, H)
            if f.attr == "find" and tv == STR and len(e.args) == 1:
                p, tp = self.expr(e.args[0], env, H)
                if tp != STR:
                    self.fail(e, "find of a value of type %s" % tname(tp))
                return "find %s %s" % (_paren(v), _paren(p)), Z
            if f.attr == "lower" and not e.args:
                if tv == STR:
                    return "lower %s" % _paren(v), STR
                if tv == CHAR:
                    return "lower_c %s" % _paren(v), STR
            if f.attr in ("isdigit", "isalpha", "isupper") and not e.args and tv == CHAR:
                return "%s %s" % (f.attr, _paren(v)), BOOL
            self.fail(e, "unsupported method .%s on a value of type %s" % (f.attr, tname(tv)))
        self.fail(e, "unsupported call (calls of translated functions are statements: `a, b = f(x)`)")

    def join_gen(self, g, env, H):
        """''.join(elt for c in s)  ->  flat_map (fun c => elt) s"""
        if len(g.generators) != 1:
            self.fail(g, "nested generator")
        c = g.generators[0]
        if c.ifs or c.is_async or not isinstance(c.target, ast.Name):
            self.fail(g, "unsupported generator")
        s, ts = self.expr(c.iter, env, H)
        if ts != STR:
            self.fail(g, "generator over a value of type %s" % tname(ts))
        x = c.target.id
        self.check_name(g, x)
        if x in env.types:
            self.fail(g, "the generator variable %r is already bound" % x)
        inner = env.copy()
        inner.types[x] = CHAR
        t, ty = self.expr(g.elt, inner, None)
        t = self.coerce(g, t, ty, STR, None)
        return "flat_map (fun %s => %s) %s" % (x, t, _paren(s)), STR

    # -------------------------------------------------------------- analysis of statements
    def assigned(self, stmts):
        """names (re)bound or mutated somewhere in stmts (loop variables excluded), in order of first occurrence"""
        out = []
        loopvars = set()

        def add(n):
            if n not in out:
                out.append(n)

        def target(t, into=add):
            if isinstance(t, ast.Name):
                into(t.id)
            elif isinstance(t, ast.Subscript) and isinstance(t.value, ast.Name):
                into(t.value.id)
            elif isinstance(t, ast.Tuple):
                for x in t.elts:
                    target(x, into)
            else:
                self.fail(t, "unsupported assignment target")

        for s in stmts:
            for n in ast.walk(s):
                if isinstance(n, ast.Assign):
                    for t in n.targets:
                        target(t)
                elif isinstance(n, (ast.AugAssign, ast.AnnAssign)):
                    target(n.target)
                elif isinstance(n, ast.Delete):
                    for t in n.targets:
                        target(t)
                elif isinstance(n, ast.For):
                    target(n.target, loopvars.add)
                elif isinstance(n, self.REFUSED):
                    self.fail(n, "unsupported construct")
                elif isinstance(n, ast.Call):
                    f = n.func
                    if isinstance(f, ast.Attribute) and isinstance(f.value, ast.Name) and f.attr in ("append", "extend"):
                        add(f.value.id)
                    # a callee that mutates an argument
                    if isinstance(f, ast.Name) and f.id in self.done:
                        for i in self.done[f.id].get("mutates", []):
                            if i < len(n.args) and isinstance(n.args[i], ast.Name):
                                add(n.args[i].id)
                    if isinstance(f, ast.Name) and f.id in EXTERNAL and self.spec.get("parse"):
                        for a in n.args:
                            if isinstance(a, ast.Name):
                                add(a.id)
        # a loop variable is local to its loop here (for_ refuses one that is already bound, and it is not
        # visible after the loop), so it is never part of a carried state
        return [n for n in out if n not in loopvars]

    def definite(self, stmts):
        """names certainly bound (by a plain assignment) when stmts fall through; None = never falls through"""
        got = set()
        for s in stmts:
            if isinstance(s, (ast.Return, ast.Continue, ast.Break)):
                return None
            if isinstance(s, ast.Assign):
                for t in s.targets:
                    for m in ([t] if isinstance(t, ast.Name) else t.elts if isinstance(t, ast.Tuple) else []):
                        if isinstance(m, ast.Name):
                            got.add(m.id)
            elif isinstance(s, ast.If):
                a, b = self.definite(s.body), self.definite(s.orelse)
                if a is None and b is None:
                    return None
                got |= b if a is None else a if b is None else (a & b)
        return got

    # -------------------------------------------------------------- output helpers
    def note(self, s):
        return "(* %d: %s *)" % (s.lineno, _comment(ast.unparse(s).split("\n")[0]))

    def line(self, ind, text, s=None):
        pad = "  " * ind
        if s is None:
            return pad + text + "\n"
        first = pad + text
        return first + " " * max(2, 70 - len(first)) + self.note(s) + "\n"

    def wrap(self, H, ind, text):
        """the hoisted operations of a statement around the text of the statement and what follows it"""
        if not H:
            return text
        return "".join(self.line(ind, h) for h in H) + _close(text, ")" * len(H))

    def next_text(self, node, names, env):
        for n in names:
            if n not in env.types:
                self.fail(node, "%r is not assigned on every path to the end of this block" % n)
        return "Next %s" % _paren(tuple_text(names)[0])

    # -------------------------------------------------------------- statements
    def bind_var(self, node, name, ty, env, owned=False):
        self.check_name(node, name)
        old = env.types.get(name)
        if old == MWD:
            self.fail(node, "the multi-word detector is rebound")
        if old is not None and old != ty:
            if old == EMPTYLIST and ty in CONCRETE_LISTS:
                pass
            else:
                self.fail(node, "%r changes its type from %s to %s" % (name, tname(old), tname(ty)))
        env.types[name] = ty
        if owned:
            env.owned.add(name)
        else:
            env.owned.discard(name)

    def refine_list(self, node, name, elem, env):
        """first use of a `[]` variable with an element of type elem"""
        if elem not in LIST_OF:
            self.fail(node, "a list of %s is not supported" % tname(elem))
        lt = LIST_OF[elem]
        if self.listtypes.get(name, lt) != lt:
            self.fail(node, "%r is used as a list of different element types" % name)
        if self.listtypes.get(name) != lt:
            self.listtypes[name] = lt
            self.retry = True
        env.types[name] = lt
        return lt

    def block(self, stmts, env, ctx, ind, at):
        """text (a term of type ctl) of the statements `stmts` of a block whose context is ctx;
        at: node blamed when the end of the block is reached with unassigned names"""
        if not stmts:
            return self.line(ind, self.next_text(at, ctx.out, env))
        s, rest = stmts[0], list(stmts[1:])
        if isinstance(s, ast.Expr) and isinstance(s.value, ast.Constant) and type(s.value.value) is str:
            return self.block(rest, env, ctx, ind, at)          # docstring
        if isinstance(s, ast.Pass):
            return self.block(rest, env, ctx, ind, at)
        if isinstance(s, (ast.Return, ast.Continue, ast.Break)):
            if rest:
                self.fail(rest[0], "unreachable statement")
            if isinstance(s, ast.Return):
                return self.return_(s, env, ind)
            if ctx.loop is None:
                self.fail(s, "continue / break outside a loop")
            for n in ctx.loop:
                if n not in env.types:
                    self.fail(s, "internal: loop variable %r unbound" % n)
            word = "Continue" if isinstance(s, ast.Continue) else "Break"
            return self.line(ind, "%s %s" % (word, _paren(tuple_text(ctx.loop)[0])), s)
        if isinstance(s, ast.Assign):
            return self.assign(s, rest, env, ctx, ind, at)
        if isinstance(s, ast.AugAssign):
            return self.augassign(s, rest, env, ctx, ind, at)
        if isinstance(s, ast.Delete):
            return self.delete(s, rest, env, ctx, ind, at)
        if isinstance(s, ast.Expr):
            return self.effect(s, rest, env, ctx, ind, at)
        if isinstance(s, ast.If):
            return self.if_(s, rest, env, ctx, ind, at)
        if isinstance(s, ast.For):
            return self.for_(s, rest, env, ctx, ind, at)
        if isinstance(s, ast.While):
            return self.while_(s, rest, env, ctx, ind, at)
        self.fail(s, "unsupported statement (%s)" % type(s).__name__)

    def return_(self, s, env, ind):
        spec = self.spec
        want = spec["ret"]
        H = []
        if s.value is None:
            self.fail(s, "return without a value")
        wants = list(want[1:]) if is_tup(want) else [want]
        elts = list(s.value.elts) if (isinstance(s.value, ast.Tuple) and is_tup(want)) else [s.value]
        if len(elts) != len(wants):
            self.fail(s, "returns %d values, the translator expects %d" % (len(elts), len(wants)))
        parts = []
        for e, w in zip(elts, wants):
            t, ty = self.expr(e, env, H)
            parts.append(self.coerce(e, t, ty, w, H))
        for i in spec.get("mutates", []):
            p = self.params[i]
            if env.types.get(p) != spec["params"][i] or p not in env.owned:
                self.fail(s, "internal: the mutated parameter %r is not available" % p)
        parts = [self.params[i] for i in spec.get("mutates", [])] + parts
        text = parts[0] if len(parts) == 1 else "(" + ", ".join(parts) + ")"
        return self.wrap(H, ind, self.line(ind, "Return %s" % _paren(text), s))

    def callee(self, e, env):
        """a call that is a statement of its own: -> (text of the option-valued call, result type,
        names of the arguments rebound to their mutated values) or None"""
        if not isinstance(e, ast.Call):
            return None
        f = e.func
        if e.keywords or any(isinstance(a, ast.Starred) for a in e.args):
            self.fail(e, "keyword / starred arguments")
        # multiword_detector.parse(s)
        if isinstance(f, ast.Attribute) and f.attr == "parse" and self.is_mwd(f.value, env):
            if len(e.args) != 1:
                self.fail(e, "multiword_detector.parse takes one argument")
            return "mwd"
        if isinstance(f, ast.Name) and f.id in self.done and f.id not in env.types:
            return "spec"
        return None

    def is_mwd(self, e, env):
        if isinstance(e, ast.Name) and env.types.get(e.id) == MWD:
            return True
        if self.spec.get("parse") and isinstance(e, ast.Attribute) and isinstance(e.value, ast.Name) \
                and e.value.id == "self" and e.attr == "multiword_detector":
            return True
        return False

    def call_stmt(self, s, e, targets, rest, env, ctx, ind, at):
        """targets = f(args) / f(args): the call, binding the targets (list of Names or None) in the rest"""
        kind = self.callee(e, env)
        H = []
        if kind == "mwd":
            a, ta = self.expr(e.args[0], env, H)
            a = self.coerce(e, a, ta, STR, H)
            head, ret, rebound = "mwparse %s" % _paren(a), TUP(BOOL, STRLIST), []
        else:
            spec = self.done[e.func.id]
            if len(e.args) != len(spec["params"]):
                self.fail(e, "%d arguments, %s takes %d" % (len(e.args), spec["py"], len(spec["params"])))
            args, rebound = [], []
            for i, (a, ty) in enumerate(zip(e.args, spec["params"])):
                if ty == MWD:
                    if not self.is_mwd(a, env):
                        self.fail(a, "the multi-word detector must be passed on unchanged")
                    continue
                t, ta = self.expr(a, env, H)
                if i in spec.get("mutates", []):
                    if not (isinstance(a, ast.Name) and a.id in env.owned and ta == ty):
                        self.fail(a, "the callee mutates this argument: it must be a list the function owns")
                    rebound.append(a.id)
                    args.append(t)
                else:
                    args.append(self.coerce(a, t, ta, ty, H))
            head, ret = "%s %s" % (spec["coq"], " ".join(_paren(a) for a in args)), spec["ret"]
        rets = list(ret[1:]) if is_tup(ret) else [ret]
        if targets is None:
            names = ["_"] * len(rets)
        else:
            if len(targets) != len(rets):
                self.fail(s, "%d targets for %d returned values" % (len(targets), len(rets)))
            names = []
            for t, ty in zip(targets, rets):
                if not isinstance(t, ast.Name):
                    self.fail(s, "unsupported assignment target")
                if t.id in rebound or t.id in names:
                    self.fail(s, "a target is assigned twice")
                if ty in LISTS and t.id in env.owned:
                    pass
                self.bind_var(s, t.id, ty, env)      # not owned: the callee may keep a reference
                names.append(t.id)
        pat = tuple_text(rebound + names)[1]
        if pat.startswith("'") is False and len(rebound + names) == 1 and names == ["_"]:
            pat = "_"
        text = self.line(ind, "call (%s) (fun %s =>" % (head, pat), s)
        text += _close(self.block(rest, env, ctx, ind, at), ")")
        return self.wrap(H, ind, text)

    def assign(self, s, rest, env, ctx, ind, at):
        if len(s.targets) != 1:
            self.fail(s, "multiple assignment targets")
        t, v = s.targets[0], s.value
        if self.callee(v, env):
            targets = list(t.elts) if isinstance(t, ast.Tuple) else [t]
            return self.call_stmt(s, v, targets, rest, env, ctx, ind, at)
        H = []
        if isinstance(t, ast.Name):
            if isinstance(v, ast.List):
                text, ty = self.expr(v, env, H)
                if ty == EMPTYLIST:
                    ty = self.listtypes.get(t.id, EMPTYLIST)
                    text = "@nil %s" % _paren(coq_type(ELEM[ty])) if ty != EMPTYLIST else "[]"
                self.bind_var(s, t.id, ty, env, owned=True)
            else:
                text, ty = self.expr(v, env, H)
                if ty in LISTS or ty == PV or is_tup(ty) or ty == MWD or (is_opt(ty) and ty[1] in LISTS):
                    self.fail(s, "assignment of a %s to another name (aliasing) is not supported" % tname(ty))
                if ty == NONE:
                    self.fail(s, "a variable initialised to None is not supported")
                self.bind_var(s, t.id, ty, env)
            out = self.line(ind, "let %s := %s in" % (t.id, text), s)
            return self.wrap(H, ind, out + self.block(rest, env, ctx, ind, at))
        if isinstance(t, ast.Subscript) and isinstance(t.value, ast.Name):
            x = t.value.id
            tx = env.types.get(x)
            if tx not in CONCRETE_LISTS or x not in env.owned:
                self.fail(s, "item / slice assignment is supported on a list the function owns only")
            if isinstance(t.slice, ast.Slice):
                sl = t.slice
                if sl.step is not None or sl.lower is None or sl.upper is None:
                    self.fail(s, "slice assignment needs both bounds and no step")
                a, ta = self.expr(sl.lower, env, H)
                b, tb = self.expr(sl.upper, env, H)
                if (ta, tb) != (Z, Z):
                    self.fail(s, "slice bounds must be ints")
                e, te = self.expr(v, env, H)
                e = self.coerce(v, e, te, tx, H)
                out = self.line(ind, "let %s := lins %s %s %s %s in" % (x, x, _paren(a), _paren(b), _paren(e)), s)
                return self.wrap(H, ind, out + self.block(rest, env, ctx, ind, at))
            i, ti = self.expr(t.slice, env, H)
            if ti != Z:
                self.fail(s, "index of type %s" % tname(ti))
            e, te = self.expr(v, env, H)
            e = self.coerce(v, e, te, ELEM[tx], H)
            out = self.line(ind, "call (lset %s %s %s) (fun %s =>" % (x, _paren(i), _paren(e), x), s)
            return self.wrap(H, ind, out + _close(self.block(rest, env, ctx, ind, at), ")"))
        self.fail(s, "unsupported assignment target")

    def augassign(self, s, rest, env, ctx, ind, at):
        if not (isinstance(s.target, ast.Name) and isinstance(s.op, ast.Add)):
            self.fail(s, "only `x += e` is supported")
        x = s.target.id
        tx = env.types.get(x)
        H = []
        e, te = self.expr(s.value, env, H)
        if tx == Z and te == Z:
            text = "%s + %s" % (x, _paren(e))
        elif tx == STR and te in (STR, CHAR):
            text = "%s ++ %s" % (x, _paren(self.coerce(s, e, te, STR, H)))
        else:
            self.fail(s, "`+=` of a %s to a %s" % (tname(te), tname(tx) if tx else "unbound variable"))
        out = self.line(ind, "let %s := %s in" % (x, text), s)
        return self.wrap(H, ind, out + self.block(rest, env, ctx, ind, at))

    def delete(self, s, rest, env, ctx, ind, at):
        if len(s.targets) != 1:
            self.fail(s, "del of several targets")
        t = s.targets[0]
        if not (isinstance(t, ast.Subscript) and isinstance(t.value, ast.Name) and not isinstance(t.slice, ast.Slice)):
            self.fail(s, "only `del x[i]` is supported")
        x = t.value.id
        if env.types.get(x) not in CONCRETE_LISTS or x not in env.owned:
            self.fail(s, "del is supported on a list the function owns only")
        H = []
        i, ti = self.expr(t.slice, env, H)
        if ti != Z:
            self.fail(s, "index of type %s" % tname(ti))
        out = self.line(ind, "call (ldel %s %s) (fun %s =>" % (x, _paren(i), x), s)
        return self.wrap(H, ind, out + _close(self.block(rest, env, ctx, ind, at), ")"))

    def effect(self, s, rest, env, ctx, ind, at):
        c = s.value
        if self.callee(c, env):
            return self.call_stmt(s, c, None, rest, env, ctx, ind, at)
        if not isinstance(c, ast.Call):
            self.fail(s, "unsupported expression statement")
        f = c.func
        if isinstance(f, ast.Attribute) and f.attr in ("append", "extend") and isinstance(f.value, ast.Name) \
                and len(c.args) == 1 and not c.keywords:
            x = f.value.id
            tx = env.types.get(x)
            if tx not in LISTS or x not in env.owned:
                self.fail(s, "%s is supported on a list the function owns only (a fresh local list or a "
                             "parameter marked as mutated)" % f.attr)
            H = []
            e, te = self.expr(c.args[0], env, H)
            if f.attr == "append":
                if te == CHAR:
                    e, te = self.coerce(s, e, te, STR, H), STR
                if is_opt(te):
                    self.fail(s, "append of a value that may be None (type %s)" % tname(te))
                if tx == EMPTYLIST:
                    tx = self.refine_list(s, x, te, env)
                e = self.coerce(s, e, te, ELEM[tx], H)
                out = self.line(ind, "let %s := append %s %s in" % (x, x, _paren(e)), s)
            else:
                base = te[1] if is_opt(te) else te
                if base not in CONCRETE_LISTS:
                    self.fail(s, "extend by a value of type %s" % tname(te))
                if tx == EMPTYLIST:
                    tx = self.refine_list(s, x, ELEM[base], env)
                e = self.coerce(s, e, te, tx, H)
                out = self.line(ind, "let %s := extend %s %s in" % (x, x, _paren(e)), s)
            return self.wrap(H, ind, out + self.block(rest, env, ctx, ind, at))
        self.fail(s, "unsupported call statement")

    @staticmethod
    def narrowing(test):
        """`x`, `x is not None` -> (x, True);  `x is None`, `not x`?? -> only `x is None` -> (x, False)"""
        if isinstance(test, ast.Name):
            return test.id, True
        if isinstance(test, ast.Compare) and len(test.ops) == 1 and isinstance(test.left, ast.Name) \
                and isinstance(test.comparators[0], ast.Constant) and test.comparators[0].value is None:
            if isinstance(test.ops[0], ast.IsNot):
                return test.left.id, True
            if isinstance(test.ops[0], ast.Is):
                return test.left.id, False
        return None, None

    def split_test(self, s, env):
        """`if a and b: S else: T` is `if a: (if b: S else: T) else: T`, `if a or b: S else: T` is
        `if a: S else: (if b: S else: T)`: used when a later operand contains an operation that can raise
        (it is evaluated only if the earlier ones do not decide)"""
        t = s.test
        if not (isinstance(t, ast.BoolOp) and len(t.values) >= 2):
            return None
        uid = self.uid
        try:
            for v in t.values[1:]:
                self.truth(v, env, None)
            return None
        except NeedsHoist:
            pass
        finally:
            self.uid = uid
        later = t.values[1] if len(t.values) == 2 else ast.copy_location(ast.BoolOp(op=t.op, values=t.values[1:]), t)
        inner = ast.copy_location(ast.If(test=later, body=list(s.body), orelse=list(s.orelse)), s)
        if isinstance(t.op, ast.And):
            return ast.copy_location(ast.If(test=t.values[0], body=[inner], orelse=list(s.orelse)), s)
        return ast.copy_location(ast.If(test=t.values[0], body=list(s.body), orelse=[inner]), s)

    def if_(self, s, rest, env, ctx, ind, at):
        split = self.split_test(s, env)
        if split is not None:
            return self.if_(split, rest, env, ctx, ind, at)
        H = []
        c = self.truth(s.test, env, H)
        body, orelse = list(s.body), list(s.orelse)
        both = self.assigned(body + orelse)
        da, db = self.definite(body), self.definite(orelse)
        new = set() if (da is None and db is None) else db if da is None else da if db is None else (da & db)
        names = canonical([n for n in both if n in env.types or n in new], env)
        # inside the branch where the test shows x is not None, x is the value itself
        nx, pos = self.narrowing(s.test)
        narrow = nx is not None and is_opt(env.types.get(nx)) and nx not in both
        env_t, env_f = env.copy(), env.copy()
        last = not rest
        inner = ctx if last else Ctx(names, ctx.loop)

        def branch(stmts, e, narrowed):
            if narrowed:
                e.types[nx] = env.types[nx][1]
                return self.line(ind + 1, "call %s (fun %s =>" % (nx, nx)) + \
                    _close(self.block(stmts, e, inner, ind + 1, s), ")")
            return self.block(stmts, e, inner, ind + 1, s)

        if last:
            text = self.line(ind, "if %s then" % c, s)
            text += branch(body, env_t, narrow and pos)
            text += self.line(ind, "else")
            text += branch(orelse, env_f, narrow and not pos)
            return self.wrap(H, ind, text)
        text = self.line(ind, "bind (if %s then" % c, s)
        text += branch(body, env_t, narrow and pos)
        text += self.line(ind, "else")
        text += _close(branch(orelse, env_f, narrow and not pos), ") (fun %s =>" % tuple_text(names)[1])
        # types after the conditional
        for n in names:
            ts = [e.types[n] for e, d in ((env_t, da), (env_f, db)) if d is not None and n in e.types]
            ts = set(ts)
            if EMPTYLIST in ts and len(ts) > 1:
                ts.discard(EMPTYLIST)
            if len(ts) > 1:
                self.fail(s, "%r has different types after the two branches" % n)
            if ts:
                ty = ts.pop()
                if n in env.types and env.types[n] not in (ty, EMPTYLIST):
                    self.fail(s, "%r changes its type" % n)
                env.types[n] = ty
            elif n not in env.types:
                self.fail(s, "internal: no type for %r" % n)
        for n in list(env.owned):
            if not ((da is None or n in env_t.owned) and (db is None or n in env_f.owned)):
                env.owned.discard(n)
        text += _close(self.block(rest, env, ctx, ind, at), ")")
        return self.wrap(H, ind, text)

    def loop_state(self, s, env):
        names = [n for n in self.assigned(s.body) if n in env.types]
        for n in names:
            if env.types[n] == MWD:
                self.fail(s, "the multi-word detector is rebound")
        return canonical(names, env)

    def for_(self, s, rest, env, ctx, ind, at):
        if s.orelse:
            self.fail(s, "for ... else")
        it = s.iter
        H = []
        names = self.loop_state(s, env)
        if isinstance(it, ast.Call) and isinstance(it.func, ast.Name) and it.func.id == "enumerate" \
                and "enumerate" not in env.types:
            if len(it.args) != 1 or it.keywords:
                self.fail(s, "enumerate with a start value")
            if not (isinstance(s.target, ast.Tuple) and len(s.target.elts) == 2
                    and all(isinstance(x, ast.Name) for x in s.target.elts)):
                self.fail(s, "enumerate needs the target `pos, item`")
            lst = it.args[0]
            l, tl = self.expr(lst, env, H)
            binders = [(s.target.elts[0].id, Z)]
            x = s.target.elts[1].id
            head = "for_enum"
        else:
            if not isinstance(s.target, ast.Name):
                self.fail(s, "unsupported loop target")
            lst = it
            l, tl = self.expr(lst, env, H)
            binders = []
            x = s.target.id
            head = "for_each"
        if tl == STR:
            binders.append((x, CHAR))
        elif tl in CONCRETE_LISTS:
            binders.append((x, ELEM[tl]))
        else:
            self.fail(s, "loop over a value of type %s" % tname(tl))
        live = None
        for m in ast.walk(lst):
            if isinstance(m, ast.Name) and m.id in names and env.types[m.id] in LISTS:
                # the body stores into the list it iterates over: accepted for `x[i] = e` only (the length cannot
                # change); Python's list iterator then reads x[pos] from the current list
                if m is not lst or tl not in CONCRETE_LISTS or lst.id not in env.owned:
                    self.fail(s, "the iterated list is mutated in the loop")
                self.only_item_stores(s, lst.id)
                live = lst.id
        inner = env.copy()
        for n, ty in binders:
            if n in env.types:
                self.fail(s, "the loop variable %r is already bound" % n)
            self.check_name(s, n)
            inner.types[n] = ty
        if len({n for n, _ in binders}) != len(binders):
            self.fail(s, "loop variables collide")
        tup, pat = tuple_text(names)
        if live:
            text = self.line(ind, "bind (%s_live %s %s (fun %s => %s) (fun %s %s =>" % (
                head, _paren(l), _paren(tup), pat, live, " ".join(n for n, _ in binders), pat), s)
        else:
            text = self.line(ind, "bind (%s %s %s (fun %s %s =>" % (
                head, _paren(l), _paren(tup), " ".join(n for n, _ in binders), pat), s)
        text += _close(self.block(list(s.body), inner, Ctx(names, names), ind + 2, s), ")) (fun %s =>" % pat)
        self.after_loop(s, names, env, inner)
        text += _close(self.block(rest, env, ctx, ind, at), ")")
        return self.wrap(H, ind, text)

    def only_item_stores(self, loop, x):
        """the body of `loop` changes the list x by `x[i] = e` only"""
        for st in loop.body:
            for n in ast.walk(st):
                bad = False
                if isinstance(n, ast.Assign):
                    for t in n.targets:
                        for m in ([t] if not isinstance(t, ast.Tuple) else t.elts):
                            if isinstance(m, ast.Name) and m.id == x:
                                bad = True
                            if isinstance(m, ast.Subscript) and isinstance(m.value, ast.Name) and m.value.id == x \
                                    and isinstance(m.slice, ast.Slice):
                                bad = True
                elif isinstance(n, (ast.AugAssign, ast.AnnAssign)):
                    m = n.target
                    bad = (isinstance(m, ast.Name) and m.id == x) or \
                        (isinstance(m, ast.Subscript) and isinstance(m.value, ast.Name) and m.value.id == x)
                elif isinstance(n, ast.Delete):
                    bad = any(isinstance(m, ast.Name) and m.id == x for t in n.targets for m in ast.walk(t))
                elif isinstance(n, ast.Call):
                    f = n.func
                    if isinstance(f, ast.Attribute) and isinstance(f.value, ast.Name) and f.value.id == x:
                        bad = True          # any method of the list
                    if any(isinstance(a, ast.Name) and a.id == x for a in n.args) and not \
                            (isinstance(f, ast.Name) and f.id == "len"):
                        bad = True          # passed on to a callee
                elif isinstance(n, ast.For) and any(isinstance(m, ast.Name) and m.id == x for m in ast.walk(n.target)):
                    bad = True
                if bad:
                    self.fail(n, "the iterated list %r is changed in the loop other than by `%s[i] = e`" % (x, x))

    def after_loop(self, s, names, env, inner):
        for n in names:
            ti = inner.types.get(n)
            if env.types[n] == EMPTYLIST and ti in CONCRETE_LISTS:
                env.types[n] = ti
            elif ti != env.types[n]:
                self.fail(s, "%r changes its type in the loop" % n)
        for n in list(env.owned):
            if n not in inner.owned:
                env.owned.discard(n)

    def while_(self, s, rest, env, ctx, ind, at):
        if s.orelse:
            self.fail(s, "while ... else")
        if "fuel" not in self.spec:
            self.fail(s, "a while loop in a function the translator has no fuel for")
        self.uses_fuel = True
        names = self.loop_state(s, env)
        c = self.truth(s.test, env, None)
        inner = env.copy()
        tup, pat = tuple_text(names)
        text = self.line(ind, "bind (while_ fuel_ %s (fun %s => %s) (fun %s =>" % (_paren(tup), pat, c, pat), s)
        text += _close(self.block(list(s.body), inner, Ctx(names, names), ind + 2, s), ")) (fun %s =>" % pat)
        self.after_loop(s, names, env, inner)
        text += _close(self.block(rest, env, ctx, ind, at), ")")
        return text

    # -------------------------------------------------------------- function
    @staticmethod
    def terminates(stmts):
        if not stmts:
            return False
        s = stmts[-1]
        if isinstance(s, ast.Return):
            return True
        if isinstance(s, ast.If):
            return FunctionTranslator.terminates(s.body) and FunctionTranslator.terminates(s.orelse)
        return False

    def result_type(self):
        spec = self.spec
        rets = list(spec["ret"][1:]) if is_tup(spec["ret"]) else [spec["ret"]]
        ts = [spec["params"][i] for i in spec.get("mutates", [])] + rets
        return coq_type(ts[0]) if len(ts) == 1 else coq_type(TUP(*ts))

    def translate_once(self):
        fn, spec = self.fn, self.spec
        self.uid = 0
        self.uses_fuel = False
        self.params = self.check_signature()
        env = Env()
        for i, (n, ty) in enumerate(zip(self.params, spec["params"])):
            env.types[n] = ty
            if i in spec.get("mutates", []):
                env.owned.add(n)
        if not self.terminates(list(fn.body)):
            self.fail(fn, "the function can end without a return statement")
        body = self.block(list(fn.body), env, Ctx([], None), 1, fn)
        params = " ".join("(%s : %s)" % (n, coq_type(ty)) for n, ty in zip(self.params, spec["params"]) if ty != MWD)
        out = "Definition %s %s : option %s :=\n" % (spec["coq"], params, _paren(self.result_type()))
        if self.uses_fuel:
            out += "  let fuel_ := %s in\n" % spec["fuel"].format(*self.params)
        out += "  run (\n" + _close(body, ").")
        return out

    def translate(self):
        fn = self.fn
        for _ in range(self.MAX_PASSES):
            self.retry = False
            text = self.translate_once()
            if not self.retry:
                break
        else:
            self.fail(fn, "internal: list element types do not settle")
        if "[]" in re.sub(r"\(\*.*?\*\)", "", text):
            self.fail(fn, "the element type of a `[]` could not be determined")
        dump = ast.dump(fn, include_attributes=False)
        sha = hashlib.sha256(dump.encode("utf-8")).hexdigest()
        head = "(* %s  %sdef %s  lines %d-%d\n   sha256 of ast.dump: %s%s *)\n" % (
            self.rel, ("class %s  " % self.cls) if self.cls else "", fn.name, fn.lineno, fn.end_lineno, sha,
            ("\n   result: (final value of the mutated argument, returned value); fuel_ bounds the `while` loop"
             if self.spec.get("mutates") else ""))
        return head + text


# ------------------------------------------------------------------ modules
def load(repo, rel):
    path = os.path.join(repo, rel)
    with open(path, encoding="utf-8", newline="") as f:
        src = f.read()
    return path, ast.parse(src, filename=path)


def check_module(path, tree, names, cls=None):
    """the functions `names` are defined exactly once, at module level (or in class cls), and nothing in the
    module rebinds them or the builtins the translation relies on"""
    scope = tree.body
    if cls:
        classes = [n for n in tree.body if isinstance(n, ast.ClassDef) and n.name == cls]
        if len(classes) != 1:
            raise TranslateError("%s: class %s not found exactly once" % (path, cls))
        if classes[0].decorator_list or classes[0].keywords:
            raise TranslateError("%s: class %s has decorators / a metaclass" % (path, cls))
        scope = classes[0].body
    # nothing but docstrings, imports and definitions at module level / in the class body: no statement
    # that could patch a translated function after its definition
    for n in tree.body:
        ok = isinstance(n, (ast.Import, ast.ImportFrom, ast.FunctionDef)) or \
            (isinstance(n, ast.Expr) and isinstance(n.value, ast.Constant) and type(n.value.value) is str) or \
            (cls is not None and isinstance(n, ast.ClassDef))
        if not ok:
            raise TranslateError("%s:%d: unexpected statement at module level (%s)" % (path, n.lineno, type(n).__name__))
    if cls:
        for n in scope:
            if not (isinstance(n, ast.FunctionDef) or
                    (isinstance(n, ast.Expr) and isinstance(n.value, ast.Constant) and type(n.value.value) is str)):
                raise TranslateError("%s:%d: unexpected statement in class %s (%s)" % (path, n.lineno, cls, type(n).__name__))
    defs = {}
    for n in scope:
        if isinstance(n, (ast.FunctionDef, ast.AsyncFunctionDef)):
            if n.name in defs:
                raise TranslateError("%s:%d: %s defined twice" % (path, n.lineno, n.name))
            defs[n.name] = n
    watched = set(names) | BUILTINS_USED
    for n in ast.walk(tree):
        if isinstance(n, (ast.Assign, ast.AugAssign, ast.AnnAssign, ast.Delete)):
            targets = n.targets if isinstance(n, (ast.Assign, ast.Delete)) else [n.target]
            for t in targets:
                for m in ast.walk(t):
                    if (isinstance(m, ast.Name) and m.id in watched and isinstance(m.ctx, (ast.Store, ast.Del))) or \
                            (isinstance(m, ast.Attribute) and m.attr in names and isinstance(m.ctx, (ast.Store, ast.Del))):
                        raise TranslateError("%s:%d: %s is rebound" % (path, n.lineno, ast.unparse(t)))
        if isinstance(n, (ast.FunctionDef, ast.AsyncFunctionDef, ast.ClassDef)) and n.name in watched \
                and n is not defs.get(n.name):
            raise TranslateError("%s:%d: %s is defined a second time" % (path, n.lineno, n.name))
        if isinstance(n, (ast.Import, ast.ImportFrom)):
            for a in n.names:
                bound = a.asname or a.name.split(".")[0]
                if bound in watched or a.name == "*":
                    raise TranslateError("%s:%d: import binds %s" % (path, n.lineno, bound))
        if isinstance(n, (ast.Global, ast.Nonlocal)):
            raise TranslateError("%s:%d: global / nonlocal" % (path, n.lineno))
        if isinstance(n, ast.Name) and n.id in ("setattr", "delattr", "__dict__", "globals", "locals", "vars",
                                                "exec", "eval", "__builtins__", "builtins"):
            raise TranslateError("%s:%d: %s is used in the module" % (path, n.lineno, n.id))
    return defs


def check_imports(path, tree, wanted):
    """each name of `wanted` (name -> module) is bound by exactly one `from module import name` at module
    level and by nothing else"""
    bound = {}
    for n in ast.walk(tree):
        if isinstance(n, ast.ImportFrom):
            mod = "." * n.level + (n.module or "")
            for a in n.names:
                b = a.asname or a.name
                if b in wanted:
                    if n not in tree.body or a.asname is not None or b in bound:
                        raise TranslateError("%s:%d: unexpected import of %s" % (path, n.lineno, b))
                    bound[b] = mod
        elif isinstance(n, ast.Import):
            for a in n.names:
                if (a.asname or a.name.split(".")[0]) in wanted:
                    raise TranslateError("%s:%d: unexpected import of %s" % (path, n.lineno, a.name))
        elif isinstance(n, (ast.FunctionDef, ast.AsyncFunctionDef, ast.ClassDef)) and n.name in wanted:
            raise TranslateError("%s:%d: %s is defined in the module" % (path, n.lineno, n.name))
        elif isinstance(n, ast.Name) and n.id in wanted and isinstance(n.ctx, (ast.Store, ast.Del)):
            raise TranslateError("%s:%d: %s is rebound" % (path, n.lineno, n.id))
        elif isinstance(n, ast.arg) and n.arg in wanted:
            raise TranslateError("%s:%d: a parameter is called %s" % (path, n.lineno, n.arg))
    for name, mod in wanted.items():
        if bound.get(name) != mod:
            raise TranslateError("%s: %s is not imported from %s (found %r)" % (path, name, mod, bound.get(name)))


# ------------------------------------------------------------------ PCFGPasswordParser.parse
class ParseTranslator:
    """The body of PCFGPasswordParser.parse as the sequence of detector applications.

    Accepted statements (anything else raises):
      a, b, c = detect_keyboard_walk(password)          the first target is the section list
      x, y = email_detection(section_list)              (and website_detection): an external stage that
                                                        mutates the section list; its results feed counters only
      x = year_detection(section_list)  etc.            the translated detectors
      for v in found: self.count_X[v] += 1              a counter feed: recorded when `found` is a result of a
      self._update_counter_len_indexed(self.count_X, found)   translated detector, skipped when it is a
      self._helper(self.count_X, found)                 (a private method of the class whose body is the loop
                                                        `for x in items: counter[x] += 1` over its own parameters)
                                                        result of an external stage
      prince_evaluation(self.count_prince, section_list)      skipped (reads the section list)
      is_supported, base_structure = base_structure_creation(section_list)    the observation point
      the statements after it (counting the base structure, `return True`) are not looked at, except that
      they must not mention the section list
    """

    def __init__(self, path, rel, fn, done):
        self.path, self.rel, self.fn, self.done = path, rel, fn, done

    def fail(self, node, msg):
        raise TranslateError("%s:%d: %s.%s: %s  [%s]" % (
            self.path, getattr(node, "lineno", self.fn.lineno), PARSER_CLASS, self.fn.name, msg,
            _comment(ast.unparse(node)).split("\n")[0][:100]))

    def note(self, s):
        return "(* %d: %s *)" % (s.lineno, _comment(ast.unparse(s).split("\n")[0]))

    def line(self, ind, text, s=None):
        first = "  " * ind + text
        if s is None:
            return first + "\n"
        return first + " " * max(2, 70 - len(first)) + self.note(s) + "\n"

    def is_self_attr(self, e, attr=None):
        return isinstance(e, ast.Attribute) and isinstance(e.value, ast.Name) and e.value.id == "self" \
            and (attr is None or e.attr == attr)

    def translate(self):
        fn = self.fn
        a = fn.args
        if fn.decorator_list or a.vararg or a.kwarg or a.kwonlyargs or a.posonlyargs or a.defaults or fn.returns \
                or len(a.args) != 2 or a.args[0].arg != "self" or any(x.annotation for x in a.args):
            self.fail(fn, "unsupported signature")
        pw = a.args[1].arg
        ft = FunctionTranslator(self.path, self.rel, fn, {"py": "parse", "coq": PARSE_COQ, "params": [STR], "ret": UNIT},
                                self.done, PARSER_CLASS)
        ft.check_name(fn, pw)
        for n in ast.walk(fn):
            if n is not fn and isinstance(n, (ast.NamedExpr, ast.Global, ast.Nonlocal, ast.With, ast.Import, ast.ImportFrom,
                              ast.FunctionDef, ast.AsyncFunctionDef, ast.ClassDef, ast.Lambda, ast.Try, ast.Raise,
                              ast.Yield, ast.YieldFrom, ast.Await, ast.While, ast.Delete, ast.Match,
                              ast.ListComp, ast.SetComp, ast.DictComp, ast.GeneratorExp)):
                self.fail(n, "unsupported construct")
        types = {pw: STR}          # known variables: the password, the section list, results of detectors
        sl = None                  # name of the section list
        ext = set()                # results of external stages (opaque)
        feeds = {}                 # counter -> variable
        out, closers, ind = "", 0, 1
        observed = False
        stmts = list(fn.body)
        for idx, s in enumerate(stmts):
            if isinstance(s, ast.Expr) and isinstance(s.value, ast.Constant) and type(s.value.value) is str:
                continue
            call = s.value if isinstance(s, (ast.Assign, ast.Expr)) and isinstance(s.value, ast.Call) else None
            fname = call.func.id if call is not None and isinstance(call.func, ast.Name) else None
            if call is not None and (call.keywords or any(isinstance(x, ast.Starred) for x in call.args)):
                self.fail(s, "keyword / starred arguments")
            targets = None
            if isinstance(s, ast.Assign):
                if len(s.targets) != 1:
                    self.fail(s, "multiple assignment targets")
                t = s.targets[0]
                targets = list(t.elts) if isinstance(t, ast.Tuple) else [t]
                if not all(isinstance(x, ast.Name) for x in targets) or len({x.id for x in targets}) != len(targets):
                    self.fail(s, "unsupported assignment target")
                targets = [x.id for x in targets]
                for x in targets:
                    ft.check_name(s, x)
                    if x in types or x in ext or x == sl:
                        self.fail(s, "%r is assigned twice" % x)
            if fname in EXTERNAL and EXTERNAL[fname][1] == "source":
                if sl is not None or targets is None or len(targets) < 1 or len(call.args) != 1 \
                        or not (isinstance(call.args[0], ast.Name) and call.args[0].id == pw):
                    self.fail(s, "unexpected use of %s" % fname)
                sl = targets[0]
                ext |= set(targets[1:])
                out += self.line(ind, "call (ext_%s %s) (fun %s =>" % (fname, pw, sl), s)
                closers += 1
            elif fname in EXTERNAL:
                if sl is None or targets is None or len(call.args) != 1 \
                        or not (isinstance(call.args[0], ast.Name) and call.args[0].id == sl):
                    self.fail(s, "unexpected use of %s" % fname)
                ext |= set(targets)
                out += self.line(ind, "call (ext_%s %s) (fun %s =>" % (fname, sl, sl), s)
                closers += 1
            elif fname in IMPORTED:
                spec = self.done[fname]
                if sl is None or targets is None or not call.args \
                        or not (isinstance(call.args[0], ast.Name) and call.args[0].id == sl):
                    self.fail(s, "unexpected use of %s" % fname)
                if len(call.args) != len(spec["params"]):
                    self.fail(s, "%d arguments, %s takes %d" % (len(call.args), fname, len(spec["params"])))
                for x, ty in list(zip(call.args, spec["params"]))[1:]:
                    if not (ty == MWD and self.is_self_attr(x, "multiword_detector")):
                        self.fail(s, "unexpected argument of %s" % fname)
                rets = list(spec["ret"][1:]) if is_tup(spec["ret"]) else [spec["ret"]]
                if len(targets) != len(rets):
                    self.fail(s, "%d targets for %d returned values" % (len(targets), len(rets)))
                for x, ty in zip(targets, rets):
                    types[x] = ty
                out += self.line(ind, "call (%s %s) (fun %s =>" % (spec["coq"], sl, tuple_text([sl] + targets)[1]), s)
                closers += 1
            elif fname == "base_structure_creation":
                if sl is None or len(call.args) != 1 or not (isinstance(call.args[0], ast.Name) and call.args[0].id == sl):
                    self.fail(s, "unexpected use of base_structure_creation")
                observed = True
                for later in stmts[idx + 1:]:
                    for m in ast.walk(later):
                        if isinstance(m, ast.Name) and m.id == sl:
                            self.fail(later, "the section list is used after base_structure_creation")
                missing = [c for c in COUNTERS if c not in feeds]
                if missing:
                    self.fail(s, "no feed found for the counters %r" % missing)
                out += self.line(ind, "Return (%s)" % ", ".join([sl] + [feeds[c] for c in COUNTERS]), s)
                break
            elif fname == "prince_evaluation":
                if not isinstance(s, ast.Expr) or len(call.args) != 2 or not self.is_self_attr(call.args[0], "count_prince") \
                        or not (isinstance(call.args[1], ast.Name) and call.args[1].id == sl):
                    self.fail(s, "unexpected use of prince_evaluation")
                out += self.line(ind, "(* not translated (reads the section list) *)", s)
            else:
                c, v = self.counter_feed(s)
                if c is None:
                    self.fail(s, "unsupported statement")
                if v in ext:
                    out += self.line(ind, "(* counter fed by a detector that is not translated *)", s)
                elif v in types and types[v] == STRLIST:
                    if c in feeds or c not in COUNTERS:
                        self.fail(s, "unexpected feed of the counter %s" % c)
                    feeds[c] = v
                    out += self.line(ind, "(* %s += %s *)" % (c, v), s)
                else:
                    self.fail(s, "a counter is fed from %r, which is not the result of a detector" % v)
        if not observed:
            self.fail(fn, "base_structure_creation(section_list) not found")
        out = _close(out, ")" * closers + ").")
        sha = hashlib.sha256(ast.dump(fn, include_attributes=False).encode("utf-8")).hexdigest()
        head = ("(* %s  class %s  def %s  lines %d-%d\n   sha256 of ast.dump: %s\n"
                "   result: the section list passed to base_structure_creation and what is fed to the counters\n"
                "   %s *)\n" % (self.rel, PARSER_CLASS, fn.name, fn.lineno, fn.end_lineno, sha, ", ".join(COUNTERS)))
        sig = "Definition %s (%s : Str.str) : option (list Detect.section * %s) :=\n  run (\n" % (
            PARSE_COQ, pw, " * ".join("list Str.str" for _ in COUNTERS))
        return head + sig + out

    def counter_feed(self, s):
        """-> (counter attribute, variable) for the statement forms that feed a counter, else (None, None):
        `for x in found: self.count_X[x] += 1`, self._update_counter_len_indexed(self.count_X, found), and
        self.<helper>(self.count_X, found) for a private helper of the class whose body is that loop over its own
        parameters (`for x in items: counter[x] += 1`, with or without @staticmethod)"""
        if isinstance(s, ast.For) and not s.orelse and isinstance(s.target, ast.Name) and isinstance(s.iter, ast.Name) \
                and len(s.body) == 1 and isinstance(s.body[0], ast.AugAssign) and isinstance(s.body[0].op, ast.Add):
            b = s.body[0]
            if isinstance(b.value, ast.Constant) and b.value.value == 1 and type(b.value.value) is int \
                    and isinstance(b.target, ast.Subscript) and self.is_self_attr(b.target.value) \
                    and isinstance(b.target.slice, ast.Name) and b.target.slice.id == s.target.id:
                return b.target.value.attr, s.iter.id
        if isinstance(s, ast.Expr) and isinstance(s.value, ast.Call):
            c = s.value
            if self.is_self_attr(c.func, "_update_counter_len_indexed") and len(c.args) == 2 and not c.keywords \
                    and self.is_self_attr(c.args[0]) and isinstance(c.args[1], ast.Name):
                return c.args[0].attr, c.args[1].id
            if self.is_self_attr(c.func) and self.counting_helper(c.func.attr) and len(c.args) == 2 and not c.keywords \
                    and self.is_self_attr(c.args[0]) and isinstance(c.args[1], ast.Name):
                return c.args[0].attr, c.args[1].id
        return None, None

    def counting_helper(self, name):
        """is `name` a method of the class of the form
            [@staticmethod] def name([self,] counter, items): ["doc"]; for x in items: counter[x] += 1"""
        fn = getattr(self, "class_defs", {}).get(name)
        if not isinstance(fn, ast.FunctionDef) or name in ("parse", "_update_counter_len_indexed"):
            return False
        a = fn.args
        static = len(fn.decorator_list) == 1 and isinstance(fn.decorator_list[0], ast.Name) \
            and fn.decorator_list[0].id == "staticmethod"
        if (fn.decorator_list and not static) or a.vararg or a.kwarg or a.kwonlyargs or a.posonlyargs or a.defaults \
                or fn.returns or any(x.annotation for x in a.args):
            return False
        names = [x.arg for x in a.args]
        if not static:
            if not names or names[0] != "self":
                return False
            names = names[1:]
        if len(names) != 2 or len(set(names)) != 2:
            return False
        body = [st for st in fn.body if not (isinstance(st, ast.Expr) and isinstance(st.value, ast.Constant)
                                             and type(st.value.value) is str)]
        if len(body) != 1:
            return False
        f = body[0]
        if not (isinstance(f, ast.For) and not f.orelse and isinstance(f.target, ast.Name) and isinstance(f.iter, ast.Name)
                and f.iter.id == names[1] and f.target.id not in names and len(f.body) == 1):
            return False
        b = f.body[0]
        return isinstance(b, ast.AugAssign) and isinstance(b.op, ast.Add) and isinstance(b.value, ast.Constant) \
            and type(b.value.value) is int and b.value.value == 1 and isinstance(b.target, ast.Subscript) \
            and isinstance(b.target.value, ast.Name) and b.target.value.id == names[0] \
            and isinstance(b.target.slice, ast.Name) and b.target.slice.id == f.target.id


# ------------------------------------------------------------------ output
HEAD = """(* GENERATED by harness/translate_detect.py from the Python source of the current
   working tree (lib_trainer/detection_rules/{digit,other,year,context_sensitive,alpha}_detection.py,
   lib_trainer/pcfg_password_parser.py) on every run of a check.  Do not edit.
   Each definition is the line-by-line image of one Python function in the subset
   documented in the translator; the numbers in the comments are source lines.
   theories/DetectGenProofs.v proves these definitions equal to the hand-written
   models of theories/Detect.v and theories/Segment.v. *)
From Coq Require Import List ZArith NArith Bool.
From Pcfg Require Import Str Multiword Detect DetectRt.
Import ListNotations.
Open Scope Z_scope.

Section DetectGen.
(* what the Python runtime decides about one character (oracles, as in Detect.v) *)
Variables isalpha isdigit isupper : N -> bool.
Variable lower_c : N -> Str.str.
Notation lower := (Multiword.lower lower_c).
(* multiword_detector.parse; None = it raised *)
Variable mwparse : Str.str -> option (bool * list Str.str).

"""

PARSE_HEAD = """(* the detectors that are not translated: their effect on the section list
   (None = they raised) *)
Variable ext_detect_keyboard_walk : Str.str -> option (list Detect.section).
Variable ext_email_detection : list Detect.section -> option (list Detect.section).
Variable ext_website_detection : list Detect.section -> option (list Detect.section).

"""


def render(repo=None):
    """-> text of gen/Detect_gen.v for the sources of the current working tree"""
    repo = repo or common.REPO
    parts, done, trees = [], {}, {}
    for spec in SPECS:
        rel = spec["file"]
        if rel not in trees:
            path, tree = load(repo, rel)
            names = [s["py"] for s in SPECS if s["file"] == rel]
            trees[rel] = (path, check_module(path, tree, names))
        path, defs = trees[rel]
        fn = defs.get(spec["py"])
        if not isinstance(fn, ast.FunctionDef):
            raise TranslateError("%s: def %s not found" % (path, spec["py"]))
        # the functions of the same file translated before can be called by their name
        visible = {n: s for n, s in done.items() if s["file"] == rel}
        parts.append(FunctionTranslator(path, rel, fn, spec, visible).translate())
        done[spec["py"]] = spec
    path, tree = load(repo, PARSER)
    defs = check_module(path, tree, ["parse"], PARSER_CLASS)
    wanted = dict(IMPORTED)
    wanted.update({k: v[0] for k, v in EXTERNAL.items()})
    wanted.update(OBSERVERS)
    check_imports(path, tree, wanted)
    fn = defs.get("parse")
    if not isinstance(fn, ast.FunctionDef):
        raise TranslateError("%s: %s.parse not found" % (path, PARSER_CLASS))
    pt = ParseTranslator(path, PARSER, fn, done)
    pt.class_defs = defs
    parse_text = pt.translate()
    return HEAD + "\n".join(parts) + "\n" + PARSE_HEAD + parse_text + "\nEnd DetectGen.\n"


def failure_text(err):
    """text written instead of the definitions when the translation fails: it must not
    compile, so that no stale generated definition survives"""
    return ("(* GENERATED by harness/translate_detect.py.  The translation of the current sources FAILED:\n"
            "   %s\n   The line below does not type-check on purpose. *)\n"
            "Definition detect_translation_failed : False := I.\n" % _comment(str(err)))


def write(repo=None):
    import extract_consts as X
    path = os.path.join(common.COQ, OUT)
    try:
        text = render(repo)
    except Exception as e:
        X.write(path, failure_text("%s: %s" % (type(e).__name__, e)))
        raise
    return X.write(path, text)


if __name__ == "__main__":
    if "--write" in sys.argv[1:]:
        print("written" if write() else "unchanged", os.path.join(common.COQ, OUT))
    else:
        sys.stdout.write(render())
