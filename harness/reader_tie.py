"""Status of the translator tie of the training-file reader (harness/translate_reader.py ->
coq/gen/Reader_gen.v), as correspondence-style obligations of C19 / C07: the generated file must
compile and the files with the equality proofs (generated definition = hand-written model of
Reader.v) and with the transported theorems must have been built by `make` from the current
generated text.  When they were not, the file is compiled once more on its own to name the lemma
that no longer checks (the broken theorem a `no-failing-input-found` verdict names), or the
construct the translator refused."""
import omen_gen_tie

GEN = "gen/Reader_gen.v"


def obligations():
    """-> [(name, ok, detail)] for the `corr` list of C19 / C07"""
    out = [omen_gen_tie.status("translator-tie:check_valid/__init__/read_password translated from the source = model Reader.v "
                               "(ReaderGenProofs: py_check_valid_is_model, read_password_spec, source_read_password_is_model)",
                               GEN, "theories/ReaderGenProofs.v")]
    if out[0][1]:
        out.append(omen_gen_tie.status("translator-tie:theorems restated over the translated reader (ReaderGenFacts)",
                                       GEN, "theories/ReaderGenFacts.v"))
    return out
