#!/venv/bin/python
"""Fail-closed translator of the remaining trainer detectors from Python to Gallina.

    /venv/bin/python harness/translate_detect2.py [mw|email|web|kbd]     print the generated text
    /venv/bin/python harness/translate_detect2.py --write                write the coq/gen/Detect*_gen.v files

Sibling of harness/translate_detect.py (whose FunctionTranslator it extends; read that
docstring first: types, statements, expressions, the canonical layout of loop-carried
variables, what is not modelled).  Sources, one generated file each, so that a refused
source breaks only the theorems about that detector:

  mw     lib_trainer/detection_rules/multiword_detector.py, class MultiWordDetector:
         __init__ (the attributes), train, _get_count, _identify_multi, parse
         -> coq/gen/DetectMw_gen.v     (proofs: theories/DetectGenProofsMw.v)
  email  lib_trainer/detection_rules/email_detection.py: detect_email, email_detection
         -> coq/gen/DetectEmail_gen.v  (proofs: theories/DetectGenProofsEmail.v)
  web    lib_trainer/detection_rules/website_detection.py: detect_website, website_detection
         -> coq/gen/DetectWeb_gen.v    (proofs: theories/DetectGenProofsWeb.v)
  kbd    lib_trainer/detection_rules/keyboard_walk.py: find_keyboard_row_column,
         is_next_on_keyboard, interesting_keyboard, _detect_first_keyboard_walk (the first
         walk of a password) and detect_keyboard_walk (the loop over the walks that
         replaced the recursion when R24 was repaired; the old recursive shape is no
         longer accepted: fail closed)
         -> coq/gen/DetectKbd_gen.v    (proofs: theories/DetectGenProofsKbd.v)

The sources are only parsed (`ast`), never imported or executed.  The output targets the
runtimes coq/theories/DetectRt.v and DetectRt2.v.

Accepted subset = that of translate_detect.py, plus (anything else raises TranslateError
with file:line):

  types      cursor (a variable that points into the trie `self.lookup`: bound by
             `x = self.lookup`, moved by `x = x[key]`; one such variable per function),
             list of ints (the value of range(...), only iterated).
  expressions a * b on ints;  s.rfind(t);  t in s / t not in s on strings (a character
             or a string in a string);  c == 'x' / c != 'x' for one character c;
             [e1, e2, ...] of strings;  self.attr for the attributes __init__ defines
             from its parameters (`self.a = param`, `self.b = expression over the
             parameters`: inlined);  self.method(args) for a method translated before
             (or the method itself: recursion with fuel), evaluated before the statement
             it occurs in;  key in x / key not in x and x["count"] for a cursor x;
             get_tld_list() (the value of the section variable of that name; the
             function must be imported from .tld_list).
  statements x = None (the variable is then "T or None");  x = self.lookup;
             x = x[key] (KeyError -> raises);  x[key] = {};  x["count"] = e;
             x["count"] += e  for a cursor x (the trie is then part of the state the
             function returns: train);  l.insert(i, e) on a list the function owns, when
             every path from there ends in `return`;  a loop variable may be rebound to a
             string (`value = value.lower()`);  for i in range(a, b) / range(a, b, -1);
             `return` without a value and falling off the end in a function SPECS
             declares to return nothing;  parameters with the default values SPECS
             lists;  try: BODY except KeyError: HANDLER as the last statement of a
             function, where BODY and HANDLER end in `return`, BODY contains no
             operation that can raise other than subscripts of a trie cursor, no
             `while`, no call, and stores nothing the HANDLER reads.
             l1 + l2 of lists of strings (a new list);  self._helper(a, b, ...) as a statement, for
             a private method of the class that is not translated on its own, returns nothing,
             binds no name and is called with names / constants: read as the statements of its
             body (parameters replaced by the arguments, early `return`s as the conditionals
             they abbreviate) - so a helper is tied exactly like the code it was extracted from.
  layout     as in translate_detect.py.
  keyboard_walk.py only (class FT3, see its docstring): layouts (the value of a
             zero-argument function that returns a dict literal of one-character rows),
             lists of layouts, lists of characters, records (dict literals with the constant
             keys 'row','pos' / 'past_row','past_pos','cur_row','cur_pos' and int values),
             dicts from strings to such records ({} , d[k] = r, d[k], k in d, d.copy(),
             list(d), for k in d, for k, v in d.items(), d.pop(k, None)), [x for x in l if c],
             f(args) in an expression for a function translated before (defaults filled in;
             recursion with fuel), `x is None` of a variable that is never None (False: the
             guarded branch is dead code and is not translated), a trailing
             `if __name__ == "__main__":` block (not looked at).

Not modelled, beyond what translate_detect.py lists: the order of a dict other than its
insertion order (the code iterates dicts in insertion order, as Python does); a `[]` that
is later replaced by a dict is read as the empty dict (it is only tested for emptiness
before); the third result of detect_keyboard_walk (detected_keyboards) is translated but
no theorem is about it; dict objects other than the trie
nodes; the insertion order of a trie node (never iterated); which exception is raised
except KeyError inside `try`; the assumption that str.lower() of one character is never
the 5-character string "count" (DetectRt2.t_step_s); the MultiWordDetector methods are
translated as functions of the trie `self.lookup` and of the constructor arguments
(section variables threshold, min_len, max_len) - other attributes of the object, and a
second reference to a trie node held elsewhere, are out of the translator's sight.
"""
import ast
import hashlib
import os
import re
import sys

HERE = os.path.dirname(os.path.abspath(__file__))
if HERE not in sys.path:
    sys.path.insert(0, HERE)
import common  # noqa: E402
import translate_detect as TD  # noqa: E402
from translate_detect import (TranslateError, NeedsHoist, _paren, _close, _comment, Z, BOOL, CHAR, STR, LABEL, SECTION,  # noqa: E402
                              SECLIST, STRLIST, PV, MWD, NONE, UNIT, EMPTYLIST, OPT, TUP, is_opt, is_tup, LISTS, ELEM,
                              coq_type, tname, cstr, Env, Ctx, canonical, tuple_text, load, check_module, check_imports)

D = "lib_trainer/detection_rules/"

# ------------------------------------------------------------------ new types
CURSOR, TRIE, ZLIST, OSTRLIST = "cursor", "trie", "zlist", "ostrlist"
TD.EXTRA_COQ_TYPES.update({CURSOR: "cursor", TRIE: "trie", ZLIST: "list Z", OSTRLIST: "list (option Str.str)"})
TD.TYPE_RANK.update({CURSOR: 3.5, TRIE: 8.5, ZLIST: 8.6, OSTRLIST: 7.5})
# lists whose elements are "str or None" (what website_detection / email_detection collect)
TD.LIST_OF[OPT(STR)] = OSTRLIST
TD.ELEM[OSTRLIST] = OPT(STR)
TD.LISTS = tuple(TD.LISTS) + (OSTRLIST,)
TD.CONCRETE_LISTS.append(OSTRLIST)
LISTS = TD.LISTS
LOOKUP = "self_lookup"            # the name the trie `self.lookup` has in the generated text
KEYERROR_HEADS = ("call (t_step ", "call (t_step_s ", "call (t_get_count ")

RESERVED2 = set("""self_lookup cursor trie c_root t_has t_new t_step t_step_s t_has_count t_get_count t_set_count t_empty
try_keyerror range_down range_up linsert is_some contains rfind get_tld_list threshold min_len max_len TNode DetectRt2
Consts_gen""".split())


class FT2(TD.FunctionTranslator):
    """FunctionTranslator with the extensions listed in the module docstring"""

    def __init__(self, path, rel, fn, spec, done, cls=None, attrs=None, externals=None):
        super().__init__(path, rel, fn, spec, done, cls)
        self.attrs = attrs or {}              # attribute of self -> (Gallina text, type)
        self.externals = externals or {}      # zero-argument function -> (section variable, type)
        self.opttypes = {}                    # variable initialised to None -> its type
        self.in_try = False
        self.cursor = None                    # the cursor variable of the function

    # -------------------------------------------------------------- names / signature
    def check_name(self, node, name):
        super().check_name(node, name)
        if name in RESERVED2 or name in {s["coq"] for s in self.done.values()} or name == self.spec["coq"]:
            self.fail(node, "the variable name %r collides with the generated code" % name)

    def check_signature(self):
        fn, spec = self.fn, self.spec
        a = fn.args
        if fn.decorator_list or a.vararg or a.kwarg or a.kwonlyargs or a.posonlyargs or a.kw_defaults:
            self.fail(fn, "unsupported signature")
        if isinstance(fn, ast.AsyncFunctionDef):
            self.fail(fn, "async def")
        names = [x.arg for x in a.args]
        if self.cls:
            if not names or names[0] != "self":
                self.fail(fn, "first parameter of the method must be self")
            names = names[1:]
        if len(names) != len(spec["params"]):
            self.fail(fn, "%d parameters, the translator knows %d" % (len(names), len(spec["params"])))
        if any(x.annotation is not None for x in a.args) or fn.returns is not None:
            self.fail(fn, "annotations are not supported")
        if len(set(names)) != len(names):
            self.fail(fn, "parameter names collide")
        for n in names:
            self.check_name(fn, n)
        # default values: exactly the ones SPECS lists (by position from the end), as literals
        want = spec.get("defaults", [])
        got = []
        for d in a.defaults:
            try:
                got.append(ast.literal_eval(d))
            except Exception:
                self.fail(d, "a default value that is not a literal")
        if [(type(x), x) for x in got] != [(type(x), x) for x in want]:
            self.fail(fn, "default values %r, the translator knows %r" % (got, want))
        return names

    # -------------------------------------------------------------- hoisting inside try
    def hoist(self, node, H, head, prefix):
        if self.in_try and not head.startswith(KEYERROR_HEADS):
            self.fail(node, "inside `try ... except KeyError` only subscripts of a trie cursor may raise")
        return super().hoist(node, H, head, prefix)

    # -------------------------------------------------------------- expressions
    def is_self_attr(self, e, attr=None):
        return self.cls is not None and isinstance(e, ast.Attribute) and isinstance(e.value, ast.Name) \
            and e.value.id == "self" and (attr is None or e.attr == attr)

    def is_cursor(self, e, env):
        return isinstance(e, ast.Name) and env.types.get(e.id) == CURSOR

    def is_count_key(self, e):
        return isinstance(e, ast.Constant) and e.value == "count" and type(e.value) is str

    def method_spec(self, e):
        """spec of the method called by `self.name(...)`, or None"""
        if isinstance(e, ast.Call) and self.is_self_attr(e.func):
            if e.func.attr == self.fn.name and self.spec.get("recursive"):
                return self.spec
            sp = self.done.get(e.func.attr)
            if sp is not None and sp.get("method"):
                return sp
        return None

    def method_call(self, e, env, H):
        """-> (text of the option-valued call, result type, the result is a fresh object)"""
        sp = self.method_spec(e)
        if e.keywords or any(isinstance(a, ast.Starred) for a in e.args):
            self.fail(e, "keyword / starred arguments")
        if self.in_try:
            self.fail(e, "a call inside `try ... except KeyError`")
        if sp.get("mutates_self"):
            self.fail(e, "a call of a method that changes the trie")
        nreq = len(sp["params"]) - len(sp.get("defaults", []))
        if not nreq <= len(e.args) <= len(sp["params"]):
            self.fail(e, "%d arguments, %s takes %d" % (len(e.args), sp["py"], len(sp["params"])))
        args = []
        for a, ty in zip(e.args, sp["params"]):
            t, ta = self.expr(a, env, H)
            args.append(_paren(self.coerce(a, t, ta, ty, H)))
        for d in sp.get("defaults", [])[len(e.args) - nreq:]:
            args.append({True: "true", False: "false"}[d] if type(d) is bool else "%d" % d)
        if LOOKUP not in env.types:
            self.fail(e, "internal: the trie is not available here")
        fuel = ""
        if sp is self.spec:
            fuel = "fuel_ "
            self.uses_rec = True
        elif sp.get("recursive"):
            fuel = _paren(sp["fuel"].format(*args)) + " "
        head = "%s %s%s %s" % (sp["coq"], fuel, LOOKUP, " ".join(args))
        return head, sp["ret"], bool(sp.get("fresh_result"))

    def expr(self, e, env, H):
        # self.attr
        if self.is_self_attr(e):
            if e.attr in self.attrs:
                return self.attrs[e.attr]
            if e.attr == "lookup":
                self.fail(e, "self.lookup may only be used as `x = self.lookup`")
            self.fail(e, "unknown attribute self.%s (not defined by __init__ from its parameters)" % e.attr)
        # self.method(...)
        if self.method_spec(e) is not None:
            head, ret, _ = self.method_call(e, env, H)
            if is_tup(ret) or ret in LISTS or (is_opt(ret) and ret[1] in LISTS):
                self.fail(e, "a call that returns a tuple / a list must be a statement of its own (`x = self.f(...)`)")
            return self.hoist(e, H, "call (%s)" % head, "v"), ret
        # zero-argument table functions
        if isinstance(e, ast.Call) and isinstance(e.func, ast.Name) and e.func.id in self.externals \
                and e.func.id not in env.types:
            if e.args or e.keywords:
                self.fail(e, "%s takes no argument" % e.func.id)
            return self.externals[e.func.id]
        if isinstance(e, ast.BinOp) and isinstance(e.op, ast.Mult):
            a, ta = self.expr(e.left, env, H)
            b, tb = self.expr(e.right, env, H)
            if (ta, tb) != (Z, Z):
                self.fail(e, "unsupported arithmetic (%s * %s)" % (tname(ta), tname(tb)))
            return "%s * %s" % (_paren(a), _paren(b)), Z
        if isinstance(e, ast.BinOp) and isinstance(e.op, ast.Add):
            uid = self.uid
            H0 = [] if H is not None else None
            try:
                a, ta = self.expr(e.left, env, H0)
                b, tb = self.expr(e.right, env, H0)
            except NeedsHoist:
                raise
            if ta == STRLIST and tb == STRLIST:
                # l1 + l2: a new list
                if H is not None:
                    H.extend(H0)
                return "%s ++ %s" % (_paren(a), _paren(b)), STRLIST
            self.uid = uid
        if isinstance(e, ast.List) and e.elts and not all(isinstance(x, ast.Constant) for x in e.elts):
            parts = []
            for x in e.elts:
                t, ty = self.expr(x, env, H)
                parts.append(self.coerce(x, t, ty, STR, H))
            return "[" + "; ".join(parts) + "]", STRLIST
        if isinstance(e, ast.Compare) and len(e.ops) == 1 and len(e.comparators) == 1:
            op, r = type(e.ops[0]), e.comparators[0]
            if op in (ast.In, ast.NotIn):
                neg = (lambda t: "negb %s" % _paren(t)) if op is ast.NotIn else (lambda t: t)
                if self.is_cursor(r, env):
                    if self.is_count_key(e.left):
                        return neg("t_has_count %s %s" % (LOOKUP, r.id)), BOOL
                    k, tk = self.expr(e.left, env, H)
                    if tk != CHAR:
                        self.fail(e, "membership of a %s in a trie node (only one character or 'count')" % tname(tk))
                    return neg("t_has %s %s %s" % (LOOKUP, r.id, _paren(k))), BOOL
                a, ta = self.expr(e.left, env, H)
                b, tb = self.expr(r, env, H)
                if tb == STR and ta in (STR, CHAR):
                    return neg("contains %s %s" % (_paren(b), _paren(self.coerce(e, a, ta, STR, H)))), BOOL
                if tb == EMPTYLIST and ta in (STR, CHAR) and isinstance(r, ast.Name):
                    tb = self.refine_list(e, r.id, STR, env)       # a `[]` first used in a membership test of a string
                if tb == STRLIST and ta in (STR, CHAR):
                    return neg("mem_str %s %s" % (_paren(self.coerce(e, a, ta, STR, H)), _paren(b))), BOOL
                self.fail(e, "membership of a %s in a %s" % (tname(ta), tname(tb)))
            if op in (ast.Eq, ast.NotEq) and self.int_const(e.left) is not None and self.int_const(r) is None:
                # `-1 != x` is read as `x != -1` (== and != of ints are symmetric): one spelling, one generated term
                return self.expr(ast.copy_location(ast.Compare(left=r, ops=e.ops, comparators=[e.left]), e), env, H)
            if op in (ast.Eq, ast.NotEq):
                # one character against a string constant
                for x, y in ((e.left, r), (r, e.left)):
                    if isinstance(y, ast.Constant) and type(y.value) is str:
                        uid = self.uid
                        try:
                            _, tx = self.expr(x, env, [])
                        finally:
                            self.uid = uid
                        if tx == CHAR:
                            a, _ = self.expr(x, env, H)
                            t = ("N.eqb %s %d%%N" % (_paren(a), ord(y.value))) if len(y.value) == 1 else "false"
                            return (t if op is ast.Eq else "negb %s" % _paren(t)), BOOL
        if isinstance(e, ast.Call) and isinstance(e.func, ast.Attribute) and e.func.attr == "rfind" \
                and len(e.args) == 1 and not e.keywords:
            v, tv = self.expr(e.func.value, env, H)
            p, tp = self.expr(e.args[0], env, H)
            if tv != STR or tp not in (STR, CHAR):
                self.fail(e, "rfind of a %s in a %s" % (tname(tp), tname(tv)))
            return "rfind %s %s" % (_paren(v), _paren(self.coerce(e, p, tp, STR, H))), Z
        if isinstance(e, ast.Call) and isinstance(e.func, ast.Name) and e.func.id == "range" and "range" not in env.types:
            if e.keywords or not 1 <= len(e.args) <= 3:
                self.fail(e, "unsupported range(...)")
            parts = []
            for a in e.args:
                t, ty = self.expr(a, env, H)
                if ty != Z:
                    self.fail(e, "range of a %s" % tname(ty))
                parts.append(_paren(t))
            if len(parts) == 1:
                return "range_up 0 %s" % parts[0], ZLIST
            if len(parts) == 2:
                return "range_up %s %s" % tuple(parts), ZLIST
            step = self.int_const(e.args[2])
            if step == 1:
                return "range_up %s %s" % tuple(parts[:2]), ZLIST
            if step == -1:
                return "range_down %s %s" % tuple(parts[:2]), ZLIST
            self.fail(e, "range with a step other than 1 / -1")
        return super().expr(e, env, H)

    def subscript(self, e, env, H):
        if isinstance(e.ctx, ast.Load) and self.is_cursor(e.value, env):
            if self.is_count_key(e.slice):
                return self.hoist(e, H, "call (t_get_count %s %s)" % (LOOKUP, e.value.id), "v"), Z
            self.fail(e, "a child of a trie node may only be used as `x = x[key]`")
        return super().subscript(e, env, H)

    # -------------------------------------------------------------- analysis
    def assigned(self, stmts):
        out = super().assigned(stmts)
        # what an inlined helper assigns (only stores through its parameters: the arguments)
        for s in stmts:
            for n in ast.walk(s):
                if isinstance(n, ast.Call) and self.is_self_attr(n.func) and n.func.attr in getattr(self, "helpers", {}) \
                        and self.method_spec(n) is None:
                    for x in self.assigned(self.inline_helper(n, n)):
                        if x not in out:
                            out.append(x)
        # a store through a cursor changes the trie
        for s in stmts:
            for n in ast.walk(s):
                t = None
                if isinstance(n, ast.Assign) and len(n.targets) == 1:
                    t = n.targets[0]
                elif isinstance(n, ast.AugAssign):
                    t = n.target
                if isinstance(t, ast.Subscript) and isinstance(t.value, ast.Name) and LOOKUP not in out \
                        and t.value.id in self.cursor_names:
                    out.append(LOOKUP)
        return out

    # -------------------------------------------------------------- statements
    def bind_var(self, node, name, ty, env, owned=False):
        old = env.types.get(name)
        if old == CHAR and ty == STR and name in self.loopvars:
            # a loop variable rebound to a string (it is never part of a carried state: joins compare types)
            del env.types[name]
        if old in (CURSOR, TRIE) and ty != old:
            self.fail(node, "%r changes its type from %s to %s" % (name, tname(old), tname(ty)))
        super().bind_var(node, name, ty, env, owned)

    def block(self, stmts, env, ctx, ind, at):
        if stmts:
            s, rest = stmts[0], list(stmts[1:])
            if isinstance(s, ast.Try):
                return self.try_(s, rest, env, ctx, ind, at)
            if isinstance(s, ast.Return) and s.value is None and self.spec["ret"] == UNIT:
                if rest:
                    self.fail(rest[0], "unreachable statement")
                return self.return_(s, env, ind)
        return super().block(stmts, env, ctx, ind, at)

    def return_(self, s, env, ind):
        spec = self.spec
        if spec["ret"] == UNIT:
            if s.value is not None and not (isinstance(s.value, ast.Constant) and s.value.value is None):
                self.fail(s, "the function returns a value, the translator expects none")
            parts = []
            if spec.get("mutates_self"):
                if env.types.get(LOOKUP) != TRIE or LOOKUP not in env.owned:
                    self.fail(s, "internal: the trie is not available")
                parts.append(LOOKUP)
            for i in spec.get("mutates", []):
                parts.append(self.params[i])
            text = "tt" if not parts else parts[0] if len(parts) == 1 else "(" + ", ".join(parts) + ")"
            if getattr(s, "synthetic", False):
                return self.line(ind, "Return %s" % _paren(text))          # the end of the function
            return self.line(ind, "Return %s" % _paren(text), s)
        if spec.get("mutates_self"):
            self.fail(s, "internal: a function that changes the trie and returns a value")
        return super().return_(s, env, ind)

    def assign(self, s, rest, env, ctx, ind, at):
        if len(s.targets) != 1:
            self.fail(s, "multiple assignment targets")
        t, v = s.targets[0], s.value
        # x = self.method(...) / a, b = self.method(...)
        if self.method_spec(v) is not None:
            H = []
            head, ret, fresh = self.method_call(v, env, H)
            targets = list(t.elts) if isinstance(t, ast.Tuple) else [t]
            rets = list(ret[1:]) if is_tup(ret) else [ret]
            if len(targets) != len(rets):
                self.fail(s, "%d targets for %d returned values" % (len(targets), len(rets)))
            names = []
            for x, ty in zip(targets, rets):
                if not isinstance(x, ast.Name) or x.id in names:
                    self.fail(s, "unsupported assignment target")
                self.bind_var(s, x.id, ty, env, owned=fresh)
                names.append(x.id)
            text = self.line(ind, "call (%s) (fun %s =>" % (head, tuple_text(names)[1]), s)
            text += _close(self.block(rest, env, ctx, ind, at), ")")
            return self.wrap(H, ind, text)
        if isinstance(t, ast.Name):
            x = t.id
            # x = self.lookup
            if self.is_self_attr(v, "lookup"):
                if LOOKUP not in env.types:
                    self.fail(s, "self.lookup is not available in this function")
                if self.cursor not in (None, x):
                    self.fail(s, "a second variable that points into the trie (%r and %r)" % (self.cursor, x))
                self.cursor = x
                self.bind_var(s, x, CURSOR, env)
                return self.line(ind, "let %s := c_root in" % x, s) + self.block(rest, env, ctx, ind, at)
            # x = x[key]
            if isinstance(v, ast.Subscript) and self.is_cursor(v.value, env):
                if v.value.id != x or isinstance(v.slice, ast.Slice):
                    self.fail(s, "a trie cursor may only be moved by `x = x[key]`")
                H = []
                k, tk = self.expr(v.slice, env, H)
                if tk not in (CHAR, STR):
                    self.fail(s, "a trie node subscripted by a %s" % tname(tk))
                if isinstance(v.slice, ast.Constant):
                    self.fail(s, "a trie node subscripted by a constant (only x['count'] as a value)")
                op = "t_step" if tk == CHAR else "t_step_s"
                text = self.line(ind, "%s (fun %s =>" % (self.hoist_head(s, "call (%s %s %s %s)" % (op, LOOKUP, x, _paren(k))), x), s)
                text += _close(self.block(rest, env, ctx, ind, at), ")")
                return self.wrap(H, ind, text)
            if self.is_cursor(t, env) or (isinstance(v, ast.Name) and env.types.get(v.id) == CURSOR):
                self.fail(s, "a trie cursor may only be bound by `x = self.lookup` and moved by `x = x[key]`")
            # x = get_tld_list(): the value of a table function (a fresh list nobody else refers to, but
            # the function only reads it: not owned)
            if isinstance(v, ast.Call) and isinstance(v.func, ast.Name) and v.func.id in self.externals \
                    and v.func.id not in env.types:
                text, ty = self.expr(v, env, None)
                self.bind_var(s, x, ty, env)
                return self.line(ind, "let %s := %s in" % (x, text), s) + self.block(rest, env, ctx, ind, at)
            # x = None
            if isinstance(v, ast.Constant) and v.value is None:
                ty = self.opttypes.get(x)
                old = env.types.get(x)
                if ty is None:
                    if old is not None and is_opt(old):
                        ty = old
                    else:
                        ty = NONE
                if old is not None and old != ty and old != NONE:
                    self.fail(s, "%r changes its type from %s to None" % (x, tname(old)))
                self.check_name(s, x)
                env.types[x] = ty
                env.owned.discard(x)
                what = "None" if ty == NONE else "@None %s" % _paren(coq_type(ty[1]))
                return self.line(ind, "let %s := %s in" % (x, what), s) + self.block(rest, env, ctx, ind, at)
            # x = e for a variable that is "T or None"
            old = env.types.get(x)
            if old == NONE or is_opt(old):
                H = []
                text, ty = self.expr(v, env, H)
                if ty in LISTS or ty == PV or is_tup(ty) or ty in (MWD, CURSOR, TRIE):
                    self.fail(s, "assignment of a %s to a variable initialised to None is not supported" % tname(ty))
                if ty == CHAR:
                    text, ty = self.coerce(s, text, ty, STR, H), STR
                if is_opt(ty) or ty == NONE:
                    self.fail(s, "unsupported assignment to a variable initialised to None")
                if old == NONE:
                    if self.opttypes.get(x, OPT(ty)) != OPT(ty):
                        self.fail(s, "%r is None or values of different types" % x)
                    self.opttypes[x] = OPT(ty)
                    self.retry = True
                elif old != OPT(ty):
                    self.fail(s, "%r changes its type from %s to %s" % (x, tname(old), tname(ty)))
                env.types[x] = OPT(ty)
                out = self.line(ind, "let %s := Some %s in" % (x, _paren(text)), s)
                return self.wrap(H, ind, out + self.block(rest, env, ctx, ind, at))
        # stores through a cursor
        if isinstance(t, ast.Subscript) and self.is_cursor(t.value, env):
            x = t.value.id
            if LOOKUP not in env.owned:
                self.fail(s, "the trie is changed in a function the translator treats as read-only")
            if self.in_try:
                self.fail(s, "a store into the trie inside `try`")
            H = []
            if self.is_count_key(t.slice):
                e, te = self.expr(v, env, H)
                if te != Z:
                    self.fail(s, "x['count'] = a %s" % tname(te))
                out = self.line(ind, "let %s := t_set_count %s %s %s in" % (LOOKUP, LOOKUP, x, _paren(e)), s)
                return self.wrap(H, ind, out + self.block(rest, env, ctx, ind, at))
            if isinstance(t.slice, (ast.Slice, ast.Constant)):
                self.fail(s, "unsupported store into a trie node")
            if not (isinstance(v, ast.Dict) and not v.keys):
                self.fail(s, "only `x[key] = {}` and `x['count'] = e` are supported on a trie node")
            k, tk = self.expr(t.slice, env, H)
            if tk != CHAR:
                self.fail(s, "a trie node keyed by a %s" % tname(tk))
            out = self.line(ind, "let %s := t_new %s %s %s in" % (LOOKUP, LOOKUP, x, _paren(k)), s)
            return self.wrap(H, ind, out + self.block(rest, env, ctx, ind, at))
        return super().assign(s, rest, env, ctx, ind, at)

    def hoist_head(self, node, head):
        if self.in_try and not head.startswith(KEYERROR_HEADS):
            self.fail(node, "inside `try ... except KeyError` only subscripts of a trie cursor may raise")
        return head

    def augassign(self, s, rest, env, ctx, ind, at):
        t = s.target
        if isinstance(t, ast.Subscript) and self.is_cursor(t.value, env):
            x = t.value.id
            if not self.is_count_key(t.slice) or not isinstance(s.op, ast.Add):
                self.fail(s, "only `x['count'] += e` is supported on a trie node")
            if LOOKUP not in env.owned:
                self.fail(s, "the trie is changed in a function the translator treats as read-only")
            if self.in_try:
                self.fail(s, "a store into the trie inside `try`")
            H = []
            v = self.hoist(s, H, "call (t_get_count %s %s)" % (LOOKUP, x), "v")
            e, te = self.expr(s.value, env, H)
            if te != Z:
                self.fail(s, "x['count'] += a %s" % tname(te))
            out = self.line(ind, "let %s := t_set_count %s %s (%s + %s) in" % (LOOKUP, LOOKUP, x, v, _paren(e)), s)
            return self.wrap(H, ind, out + self.block(rest, env, ctx, ind, at))
        if isinstance(t, ast.Name) and env.types.get(t.id) == CURSOR:
            self.fail(s, "unsupported operation on a trie cursor")
        return super().augassign(s, rest, env, ctx, ind, at)

    def inline_helper(self, s, c):
        """self._helper(a, b, ...) as a statement, for a private method of the class that is not translated on its
        own and returns nothing: the statements of its body with the parameters replaced by the arguments (names
        or constants: evaluated once, no effect) and its early `return`s turned into the conditionals they
        abbreviate (`if c: return` + REST  ->  `if c: pass else: REST`).  The helper may not bind a name (it
        would leak into the caller) - stores through a trie cursor are what it is for."""
        fn = self.helpers[c.func.attr]
        a = fn.args
        if fn.decorator_list or a.vararg or a.kwarg or a.kwonlyargs or a.posonlyargs or a.defaults or fn.returns \
                or any(x.annotation for x in a.args) or not a.args or a.args[0].arg != "self":
            self.fail(fn, "unsupported signature of the helper %s" % fn.name)
        params = [x.arg for x in a.args][1:]
        if c.keywords or len(c.args) != len(params) or len(set(params)) != len(params):
            self.fail(s, "unsupported call of the helper %s" % fn.name)
        for x in c.args:
            if not (isinstance(x, ast.Name) or (isinstance(x, ast.Constant) and type(x.value) in (int, bool, str))):
                self.fail(s, "the arguments of the helper %s must be names or constants" % fn.name)
        for n in ast.walk(fn):
            if isinstance(n, ast.Name) and isinstance(n.ctx, (ast.Store, ast.Del)):
                self.fail(n, "the helper %s binds a name" % fn.name)
            if isinstance(n, ast.Return) and n.value is not None and not (isinstance(n.value, ast.Constant) and n.value.value is None):
                self.fail(n, "the helper %s returns a value" % fn.name)
            if isinstance(n, (ast.For, ast.While, ast.Try, ast.With, ast.Lambda, ast.FunctionDef, ast.ListComp, ast.GeneratorExp)) \
                    and n is not fn:
                self.fail(n, "unsupported construct in the helper %s" % fn.name)
            if isinstance(n, ast.Call) and self.is_self_attr(n.func) and n.func.attr in self.helpers:
                self.fail(n, "a helper that calls a helper")
        table = dict(zip(params, c.args))

        class Subst(ast.NodeTransformer):
            def visit_Name(self, node):
                if node.id in table:
                    return ast.copy_location(ast.parse(ast.unparse(table[node.id]), mode="eval").body, node)
                return node

        body = [Subst().visit(ast.parse(ast.unparse(st)).body[0]) for st in fn.body]
        for st, orig in zip(body, fn.body):
            for n in ast.walk(st):
                if hasattr(n, "lineno"):
                    n.lineno = n.lineno + orig.lineno - 1
        for st in body:
            ast.fix_missing_locations(st)

        def always_returns(stmts):
            if not stmts:
                return False
            t = stmts[-1]
            if isinstance(t, ast.Return):
                return True
            return isinstance(t, ast.If) and always_returns(t.body) and always_returns(t.orelse)

        def has_return(stmts):
            return any(isinstance(n, ast.Return) for st in stmts for n in ast.walk(st))

        def conv(stmts):
            out = []
            for i, st in enumerate(stmts):
                later = list(stmts[i + 1:])
                if isinstance(st, ast.Return):
                    if later:
                        self.fail(later[0], "unreachable statement in the helper %s" % fn.name)
                    return out
                if isinstance(st, ast.If) and has_return([st]):
                    tb, eb = list(st.body), list(st.orelse)
                    if always_returns(tb):
                        new = ast.If(test=st.test, body=conv(tb) or [ast.Pass()], orelse=conv(eb + later))
                    elif always_returns(eb):
                        new = ast.If(test=st.test, body=conv(tb + later) or [ast.Pass()], orelse=conv(eb))
                    else:
                        new = ast.If(test=st.test, body=conv(tb + later) or [ast.Pass()], orelse=conv(eb + later))
                    out.append(ast.fix_missing_locations(ast.copy_location(new, st)))
                    return out
                out.append(st)
            return out

        return conv(body)

    def effect(self, s, rest, env, ctx, ind, at):
        c = s.value
        if isinstance(c, ast.Call) and self.is_self_attr(c.func) and c.func.attr in getattr(self, "helpers", {}) \
                and self.method_spec(c) is None:
            stmts = self.inline_helper(s, c)
            text = self.line(ind, "(* %s inlined *)" % c.func.attr, s)
            return text + self.block(stmts + rest, env, ctx, ind, at)
        if isinstance(c, ast.Call) and isinstance(c.func, ast.Attribute) and c.func.attr == "insert" \
                and isinstance(c.func.value, ast.Name) and len(c.args) == 2 and not c.keywords:
            x = c.func.value.id
            tx = env.types.get(x)
            if tx not in TD.CONCRETE_LISTS or x not in env.owned:
                self.fail(s, "insert is supported on a list the function owns only")
            if not self.terminates(rest):
                self.fail(s, "insert is supported only where every path from there ends in `return`")
            H = []
            i, ti = self.expr(c.args[0], env, H)
            if ti != Z:
                self.fail(s, "insert at an index of type %s" % tname(ti))
            e, te = self.expr(c.args[1], env, H)
            e = self.coerce(s, e, te, ELEM[tx], H)
            out = self.line(ind, "let %s := linsert %s %s %s in" % (x, x, _paren(i), _paren(e)), s)
            return self.wrap(H, ind, out + self.block(rest, env, ctx, ind, at))
        if isinstance(c, ast.Call) and isinstance(c.func, ast.Attribute) and c.func.attr == "append" \
                and isinstance(c.func.value, ast.Name) and len(c.args) == 1 and not c.keywords:
            x = c.func.value.id
            tx = env.types.get(x)
            uid = self.uid
            try:
                _, te = self.expr(c.args[0], env, [])
            finally:
                self.uid = uid
            if te == OPT(STR) and tx in (EMPTYLIST, OSTRLIST) and x in env.owned:
                # a list that collects "str or None" values
                H = []
                e, te = self.expr(c.args[0], env, H)
                if tx == EMPTYLIST:
                    tx = self.refine_list(s, x, te, env)
                out = self.line(ind, "let %s := append %s %s in" % (x, x, _paren(e)), s)
                return self.wrap(H, ind, out + self.block(rest, env, ctx, ind, at))
            if tx == OSTRLIST and te == STR and x in env.owned:
                H = []
                e, te = self.expr(c.args[0], env, H)
                out = self.line(ind, "let %s := append %s (Some %s) in" % (x, x, _paren(e)), s)
                return self.wrap(H, ind, out + self.block(rest, env, ctx, ind, at))
        return super().effect(s, rest, env, ctx, ind, at)

    def try_(self, s, rest, env, ctx, ind, at):
        if rest:
            self.fail(rest[0], "`try` is supported as the last statement of a function only")
        if ctx.loop is not None or self.in_try:
            self.fail(s, "`try` inside a loop / a `try`")
        if len(s.handlers) != 1 or s.orelse or s.finalbody:
            self.fail(s, "only `try: ... except KeyError: ...` is supported")
        h = s.handlers[0]
        if not (isinstance(h.type, ast.Name) and h.type.id == "KeyError" and h.name is None):
            self.fail(h, "only `except KeyError:` is supported")
        if not self.terminates(list(s.body)) or not self.terminates(list(h.body)):
            self.fail(s, "the body and the handler of `try` must end in `return`")
        for n in ast.walk(ast.Module(body=list(s.body), type_ignores=[])):
            if isinstance(n, (ast.While, ast.Try)) and n is not s:
                self.fail(n, "unsupported construct inside `try`")
        changed = set(self.assigned(list(s.body)))
        if LOOKUP in changed or any(self.params[i] in changed for i in self.spec.get("mutates", [])):
            self.fail(s, "the body of `try` changes an object the caller sees")
        for n in ast.walk(ast.Module(body=list(h.body), type_ignores=[])):
            if isinstance(n, ast.Name) and n.id in changed:
                self.fail(n, "the handler reads %r, which the body of `try` assigns" % n.id)
        text = self.line(ind, "try_keyerror (", s)
        self.in_try = True
        try:
            text += self.block(list(s.body), env.copy(), ctx, ind + 1, s)
        finally:
            self.in_try = False
        text += self.line(ind, ") (", h)
        text += _close(self.block(list(h.body), env.copy(), ctx, ind + 1, h), ")")
        return text

    def for_(self, s, rest, env, ctx, ind, at):
        """as translate_detect's, plus loops over range(...) and remembering the loop variables"""
        names = []
        tg = s.target
        for x in ([tg] if isinstance(tg, ast.Name) else list(tg.elts) if isinstance(tg, ast.Tuple) else []):
            if isinstance(x, ast.Name):
                names.append(x.id)
        self.loopvars.extend(names)
        try:
            it = s.iter
            if isinstance(it, ast.Call) and isinstance(it.func, ast.Name) and it.func.id == "range" \
                    and "range" not in env.types:
                return self.for_range(s, rest, env, ctx, ind, at)
            return super().for_(s, rest, env, ctx, ind, at)
        finally:
            del self.loopvars[len(self.loopvars) - len(names):]

    def for_range(self, s, rest, env, ctx, ind, at):
        if s.orelse:
            self.fail(s, "for ... else")
        if not isinstance(s.target, ast.Name):
            self.fail(s, "unsupported loop target")
        H = []
        names = self.loop_state(s, env)
        l, tl = self.expr(s.iter, env, H)
        x = s.target.id
        if x in env.types:
            self.fail(s, "the loop variable %r is already bound" % x)
        self.check_name(s, x)
        inner = env.copy()
        inner.types[x] = Z
        tup, pat = tuple_text(names)
        text = self.line(ind, "bind (for_each %s %s (fun %s %s =>" % (_paren(l), _paren(tup), x, pat), s)
        text += _close(self.block(list(s.body), inner, Ctx(names, names), ind + 2, s), ")) (fun %s =>" % pat)
        self.after_loop(s, names, env, inner)
        text += _close(self.block(rest, env, ctx, ind, at), ")")
        return self.wrap(H, ind, text)

    # -------------------------------------------------------------- function
    @staticmethod
    def terminates(stmts):
        if not stmts:
            return False
        s = stmts[-1]
        if isinstance(s, ast.Return):
            return True
        if isinstance(s, ast.If):
            return FT2.terminates(s.body) and FT2.terminates(s.orelse)
        if isinstance(s, ast.Try):
            return FT2.terminates(s.body) and all(FT2.terminates(h.body) for h in s.handlers) \
                and not s.orelse and not s.finalbody
        return False

    def result_type(self):
        spec = self.spec
        rets = [] if spec["ret"] == UNIT else list(spec["ret"][1:]) if is_tup(spec["ret"]) else [spec["ret"]]
        ts = ([TRIE] if spec.get("mutates_self") else []) + [spec["params"][i] for i in spec.get("mutates", [])] + rets
        if not ts:
            return "unit"
        return coq_type(ts[0]) if len(ts) == 1 else coq_type(TUP(*ts))

    def translate_once(self):
        fn, spec = self.fn, self.spec
        self.uid = 0
        self.uses_fuel = False
        self.uses_rec = False
        self.loopvars = []
        self.cursor = None
        self.in_try = False
        self.params = self.check_signature()
        # the variables bound to self.lookup somewhere in the function (at most one)
        self.cursor_names = {n.targets[0].id for n in ast.walk(fn) if isinstance(n, ast.Assign) and len(n.targets) == 1
                             and isinstance(n.targets[0], ast.Name) and self.is_self_attr(n.value, "lookup")}
        if len(self.cursor_names) > 1:
            self.fail(fn, "several variables point into the trie: %r" % sorted(self.cursor_names))
        env = Env()
        if spec.get("method"):
            env.types[LOOKUP] = TRIE
            if spec.get("mutates_self"):
                env.owned.add(LOOKUP)
        for i, (n, ty) in enumerate(zip(self.params, spec["params"])):
            env.types[n] = ty
            if i in spec.get("mutates", []):
                env.owned.add(n)
        stmts = list(fn.body)
        if spec["ret"] == UNIT:
            if not self.terminates(stmts):
                end = ast.Return(value=None)
                end.lineno = end.end_lineno = fn.end_lineno
                end.col_offset = end.end_col_offset = 0
                end.synthetic = True
                stmts.append(end)
        elif not self.terminates(stmts):
            self.fail(fn, "the function can end without a return statement")
        ind = 2 if spec.get("recursive") else 1
        body = self.block(stmts, env, Ctx([], None), ind, fn)
        plist = ([(LOOKUP, TRIE)] if spec.get("method") else []) + \
            [(n, ty) for n, ty in zip(self.params, spec["params"]) if ty != MWD]
        params = " ".join("(%s : %s)" % (n, coq_type(ty)) for n, ty in plist)
        rt = _paren(self.result_type())
        if spec.get("recursive"):
            if self.uses_fuel:
                self.fail(fn, "a `while` loop in a recursive function")
            out = "Fixpoint %s (fuel_ : nat) %s {struct fuel_} : option %s :=\n" % (spec["coq"], params, rt)
            out += "  match fuel_ with\n  | O => None      (* recursion deeper than the fuel: RecursionError *)\n  | S fuel_ =>\n"
            out += "    run (\n" + _close(body, ")") + "  end.\n"
            return out
        out = "Definition %s %s : option %s :=\n" % (spec["coq"], params, rt)
        if self.uses_fuel:
            out += "  let fuel_ := %s in\n" % spec["fuel"].format(*self.params)
        out += "  run (\n" + _close(body, ").")
        return out


def defaults_text(fn, spec, cls=None):
    """the default values of the trailing parameters, as definitions a caller that omits them uses"""
    out = ""
    names = [a.arg for a in fn.args.args][1 if cls else 0:]
    ds = spec.get("defaults", [])
    for n, d in zip(names[len(names) - len(ds):], ds):
        val = {True: "true", False: "false"}[d] if type(d) is bool else "%d" % d
        ty = "bool" if type(d) is bool else "Z"
        out += "(* the default value of the parameter %s of %s *)\nDefinition %s_default_%s : %s := %s.\n" % (
            n, spec["py"], spec["coq"], n, ty, val)
    return out


# ------------------------------------------------------------------ the multi-word detector
MW_FILE = D + "multiword_detector.py"
MW_CLASS = "MultiWordDetector"
MW_INIT_PARAMS = ["threshold", "min_len", "max_len"]
MW_SPECS = [
    dict(file=MW_FILE, py="train", coq="py_mw_train", method=True, mutates_self=True,
         params=[STR, BOOL], defaults=[False], ret=UNIT),
    dict(file=MW_FILE, py="_get_count", coq="py_mw_get_count", method=True, params=[STR], ret=Z),
    dict(file=MW_FILE, py="_identify_multi", coq="py_mw_identify_multi", method=True, recursive=True,
         fuel="S (length {0})", params=[STR], ret=OPT(STRLIST), fresh_result=True),
    dict(file=MW_FILE, py="parse", coq="py_mw_parse", method=True, params=[STR], ret=TUP(BOOL, STRLIST)),
]


def mw_attrs(path, init):
    """the attributes __init__ defines: name -> (Gallina text over threshold / min_len / max_len, type).
    Accepted: def __init__(self, threshold=.., min_len=.., max_len=..) with literal defaults, a docstring,
    `self.a = <int expression over the parameters>` and `self.lookup = {}` (exactly once)."""
    a = init.args

    def fail(node, msg):
        raise TranslateError("%s:%d: %s.__init__: %s  [%s]" % (path, getattr(node, "lineno", init.lineno), MW_CLASS, msg,
                                                              _comment(ast.unparse(node)).split("\n")[0][:100]))
    if init.decorator_list or a.vararg or a.kwarg or a.kwonlyargs or a.posonlyargs or init.returns \
            or [x.arg for x in a.args] != ["self"] + MW_INIT_PARAMS or any(x.annotation for x in a.args):
        fail(init, "the parameters must be (self, %s)" % ", ".join(MW_INIT_PARAMS))
    for d in a.defaults:
        if not (isinstance(d, ast.Constant) and type(d.value) is int):
            fail(d, "a default value that is not an int literal")
    ft = FT2(path, MW_FILE, init, dict(py="__init__", coq="py_mw_init", params=[Z, Z, Z], ret=UNIT), {}, MW_CLASS)
    ft.uid, ft.loopvars = 0, []
    env = Env()
    for p in MW_INIT_PARAMS:
        env.types[p] = Z
    attrs, lookup = {}, 0
    for s in init.body:
        if isinstance(s, ast.Expr) and isinstance(s.value, ast.Constant) and type(s.value.value) is str:
            continue
        if not (isinstance(s, ast.Assign) and len(s.targets) == 1 and ft.is_self_attr(s.targets[0])):
            fail(s, "only `self.attribute = expression` is supported")
        name = s.targets[0].attr
        if name in attrs or (name == "lookup" and lookup):
            fail(s, "self.%s is assigned twice" % name)
        if name == "lookup":
            if not (isinstance(s.value, ast.Dict) and not s.value.keys):
                fail(s, "self.lookup must be initialised to {}")
            lookup += 1
            continue
        for n in ast.walk(s.value):
            if isinstance(n, ast.Attribute):
                fail(s, "an attribute defined from another attribute")
        text, ty = ft.expr(s.value, env, None)
        if ty != Z:
            fail(s, "an attribute of type %s" % tname(ty))
        attrs[name] = (_paren(text), Z)
    if lookup != 1:
        fail(init, "self.lookup = {} not found")
    return attrs


MW_HEAD = """(* GENERATED by harness/translate_detect2.py from the Python source of the current
   working tree (lib_trainer/detection_rules/multiword_detector.py, class MultiWordDetector)
   on every run of a check.  Do not edit.
   Each definition is the line-by-line image of one method in the subset documented in
   the translator; the numbers in the comments are source lines.  The methods are
   functions of the trie self.lookup (self_lookup; train returns its final value) and of
   the constructor arguments.  theories/DetectGenProofsMw.v proves these definitions
   equal to the hand-written model of theories/Multiword.v. *)
From Coq Require Import List ZArith NArith Bool.
From Pcfg Require Import Str Multiword Detect DetectRt DetectRt2.
Import ListNotations.
Open Scope Z_scope.

Section DetectMwGen.
(* what the Python runtime decides about one character (oracles, as in Multiword.v) *)
Variable isalpha : N -> bool.
Variable lower_c : N -> Str.str.
Notation lower := (Multiword.lower lower_c).
(* MultiWordDetector(threshold, min_len, max_len) *)
Variables threshold min_len max_len : Z.

"""


def render_mw(repo=None):
    repo = repo or common.REPO
    path, tree = load(repo, MW_FILE)
    names = [s["py"] for s in MW_SPECS] + ["__init__"]
    old = set(TD.BUILTINS_USED)
    TD.BUILTINS_USED.add("range")
    try:
        defs = check_module(path, tree, names, MW_CLASS)
    finally:
        TD.BUILTINS_USED.clear()
        TD.BUILTINS_USED.update(old)
    # methods besides the known ones: private helpers, read where they are called (inlined)
    helpers = {n: f for n, f in defs.items() if n not in names}
    if not set(names) <= set(defs) or any(not n.startswith("_") or n.startswith("__") for n in helpers):
        raise TranslateError("%s: class %s has the methods %r, the translator knows %r (and private helpers)"
                             % (path, MW_CLASS, sorted(defs), sorted(names)))
    attrs = mw_attrs(path, defs["__init__"])
    head = "(* %s  class %s  def __init__: the attributes are inlined as\n   %s *)\n" % (
        MW_FILE, MW_CLASS, ";  ".join("self.%s = %s" % (k, v[0]) for k, v in attrs.items()))
    parts, done = [head], {}
    for spec in MW_SPECS:
        fn = defs[spec["py"]]
        ft = FT2(path, MW_FILE, fn, spec, dict(done), MW_CLASS, attrs=attrs)
        ft.helpers = helpers
        parts.append(ft.translate() + defaults_text(fn, spec, MW_CLASS))
        done[spec["py"]] = spec
    return MW_HEAD + "\n".join(parts) + "\nEnd DetectMwGen.\n"


# ------------------------------------------------------------------ e-mail and website detectors
DRIVE_FUEL = "drive_fuel {0}"
EMAIL_FILE = D + "email_detection.py"
EMAIL_SPECS = [
    dict(file=EMAIL_FILE, py="detect_email", coq="py_detect_email",
         params=[SECTION], ret=TUP(PV, OPT(STR), OPT(STR))),
    dict(file=EMAIL_FILE, py="email_detection", coq="py_email_detection",
         params=[SECLIST], mutates=[0], ret=TUP(STRLIST, OSTRLIST), fuel=DRIVE_FUEL),
]
WEB_FILE = D + "website_detection.py"
WEB_SPECS = [
    dict(file=WEB_FILE, py="detect_website", coq="py_detect_website",
         params=[SECTION], ret=TUP(PV, OPT(STR), OPT(STR), OPT(STR)), fuel="S (S (length (fst {0})))"),
    dict(file=WEB_FILE, py="website_detection", coq="py_website_detection",
         params=[SECLIST], mutates=[0], ret=TUP(STRLIST, OSTRLIST, OSTRLIST), fuel=DRIVE_FUEL),
]
TLD_EXTERNALS = {"get_tld_list": ("get_tld_list", STRLIST)}
TLD_IMPORTS = {"get_tld_list": ".tld_list"}

FN_HEAD = """(* GENERATED by harness/translate_detect2.py from the Python source of the current
   working tree (%(file)s) on every run of a check.  Do not edit.
   Each definition is the line-by-line image of one Python function in the subset
   documented in the translator; the numbers in the comments are source lines.
   theories/%(proofs)s proves these definitions equal to the hand-written
   models of theories/Detect.v. *)
From Coq Require Import List ZArith NArith Bool.
From Pcfg Require Import Str Multiword Detect DetectRt DetectRt2.
Import ListNotations.
Open Scope Z_scope.

Section %(section)s.
(* what the Python runtime decides about one character (oracles, as in Detect.v) *)
Variables isalpha isdigit isupper : N -> bool.
Variable lower_c : N -> Str.str.
Notation lower := (Multiword.lower lower_c).
%(extra)s
"""
TLD_VAR = "(* the value of get_tld_list() (lib_trainer/detection_rules/tld_list.py; gen/Consts_gen.tld_list) *)\nVariable get_tld_list : list Str.str.\n"


def render_functions(repo, rel, specs, section, proofs, extra, externals, imports):
    repo = repo or common.REPO
    path, tree = load(repo, rel)
    names = [s["py"] for s in specs]
    old = set(TD.BUILTINS_USED)
    TD.BUILTINS_USED.add("range")
    try:
        defs = check_module(path, tree, names)
    finally:
        TD.BUILTINS_USED.clear()
        TD.BUILTINS_USED.update(old)
    if imports:
        check_imports(path, tree, imports)
    parts, done = [], {}
    for spec in specs:
        fn = defs.get(spec["py"])
        if not isinstance(fn, ast.FunctionDef):
            raise TranslateError("%s: def %s not found" % (path, spec["py"]))
        parts.append(FT2(path, rel, fn, spec, dict(done), externals=externals).translate())
        done[spec["py"]] = spec
    head = FN_HEAD % dict(file=rel, proofs=proofs, section=section, extra=extra)
    return head + "\n".join(parts) + "\nEnd %s.\n" % section


def render_email(repo=None):
    return render_functions(repo, EMAIL_FILE, EMAIL_SPECS, "DetectEmailGen", "DetectGenProofsEmail.v", TLD_VAR,
                            TLD_EXTERNALS, TLD_IMPORTS)


def render_web(repo=None):
    return render_functions(repo, WEB_FILE, WEB_SPECS, "DetectWebGen", "DetectGenProofsWeb.v", TLD_VAR,
                            TLD_EXTERNALS, TLD_IMPORTS)


# ------------------------------------------------------------------ the keyboard-walk detector
BOARD, BOARDLIST, CHARLIST, EMPTYDICT = "board", "boardlist", "charlist", "emptydict"
ROW_KEYS = ["row1", "s_row1", "row2", "s_row2", "row3", "s_row3", "row4", "s_row4"]


def REC(*fields):
    """a dict literal with these constant keys and int values (in the order of the literal)"""
    return ("rec",) + tuple(fields)


def DICT(v):
    """a dict keyed by strings (layout names) with values of type v"""
    return ("dict", v)


def KV(v):
    return ("kv", v)


def is_rec(t):
    return isinstance(t, tuple) and t[0] == "rec"


def is_dict(t):
    return isinstance(t, tuple) and t[0] == "dict"


POS = REC("row", "pos")
RUN = REC("past_row", "past_pos", "cur_row", "cur_pos")
RECORDS = [POS, RUN]


def _coq_struct(t):
    if is_rec(t):
        return "(" + " * ".join("Z" for _ in t[1:]) + ")"
    if is_dict(t):
        return "dict %s" % _paren(coq_type(t[1]))
    if isinstance(t, tuple) and t[0] == "kv":
        return "(Str.str * %s)" % coq_type(t[1])
    return None


TD.EXTRA_COQ_TYPE_FUNS.append(_coq_struct)
STRLISTLIST = "strlistlist"        # a list of lists of strings (detected_per_part)
TD.EXTRA_COQ_TYPES.update({BOARD: "pyboard", BOARDLIST: "list pyboard", CHARLIST: "Str.str",
                           STRLISTLIST: "list (list Str.str)"})
TD.TYPE_RANK[STRLISTLIST] = 7.7
TD.LIST_OF[STRLIST] = STRLISTLIST
TD.ELEM[STRLISTLIST] = STRLIST
TD.CONCRETE_LISTS.append(STRLISTLIST)
TD.LISTS = tuple(TD.LISTS) + (STRLISTLIST,)
TD.TYPE_RANK.update({CHARLIST: 3.2, BOARDLIST: 8.7})
TD.LIST_OF[BOARD] = BOARDLIST
TD.ELEM[BOARDLIST] = BOARD
TD.CONCRETE_LISTS.append(BOARDLIST)
TD.LISTS = tuple(TD.LISTS) + (BOARDLIST,)
LISTS = TD.LISTS
for _v in RECORDS:
    TD.ELEM[DICT(_v)] = KV(_v)

RESERVED3 = set("""pyboard b_name b_rows brow dict d_get d_set d_has d_keys d_pop row_index mem_c mem_str filter
existsb kb_us kb_jcuken lpop""".split())


def proj(text, i, n):
    """component i of the n-tuple text ((a, b), c), ... as Gallina"""
    t = _paren(text)
    for _ in range(n - 1 - i if i > 0 else n - 1):
        t = "(fst %s)" % t
    return "snd %s" % t if i > 0 else t[1:-1] if n > 1 else text


class FT3(FT2):
    """FT2 plus what keyboard_walk.py needs:
    types      board (the value of a zero-argument function that returns a dict literal
               {'name': str, 'row1': [one-character strings], ..., 's_row4': [...]}), list of
               boards, charlist (a list of one-character strings: `[]` / `[c]` / appended
               characters), records (a dict literal with the constant keys of POS / RUN and int
               values: a tuple of ints), dict (a dict keyed by strings whose values are records).
    expressions board['name'], board['rowN'];  c in row, row.index(c) (ValueError -> raises);
               record['field'];  k in d / k not in d, d[k] (KeyError -> raises), d.copy(),
               list(d) for a dict d;  c in ['x', 'y'] for one character c;  ''.join(l), len(l),
               l[i] for a charlist l;  [k for k in l if cond] for a list of strings l;
               f(args) for a function of SPECS translated before (defaults filled in; the
               function itself: recursion with fuel), evaluated before the statement;
               `x is None` for a variable that is never None is False, and an `if` whose test
               is then statically False is not translated (dead code).
               a list of lists of strings (l.append(list of strings) on an owned `[]`).
    statements x = l.pop() on a list the function owns (IndexError -> raises);  a variable bound to
               a T first and to "T or None" later (by a call that returns one) is "T or None" from
               its first binding on;  `x is not None` / `x is None` of a variable that is never None
               are True / False;
               d = {} ; d[k] = record;  d.pop(k, None);  for k in d / for k in list(d) /
               for k, v in d.items() (the dict iterated directly must not change in the body);
               l.append(c) for a charlist;  boards.append(f()) for a list of boards."""

    REFUSED = tuple(x for x in TD.FunctionTranslator.REFUSED if x is not ast.ListComp)
    MAX_PASSES = 12

    def translate_once(self):
        try:
            return super().translate_once()
        except TranslateError:
            if self.retry:
                return ""          # the type of a `[]` / `{}` was learnt in this pass: once more, with it
            raise

    def check_name(self, node, name):
        super().check_name(node, name)
        if name in RESERVED3:
            self.fail(node, "the variable name %r collides with the generated code" % name)

    # -------------------------------------------------------------- static tests
    def static_false(self, e, env):
        """the test is False whatever the values (only: `x is None` for x never None, and `or` of such)"""
        if isinstance(e, ast.Compare) and len(e.ops) == 1 and isinstance(e.ops[0], ast.Is) \
                and isinstance(e.comparators[0], ast.Constant) and e.comparators[0].value is None \
                and isinstance(e.left, ast.Name):
            t = env.types.get(e.left.id)
            return t is not None and not is_opt(t) and t not in (NONE, LABEL, PV)
        if isinstance(e, ast.BoolOp) and isinstance(e.op, ast.Or):
            return all(self.static_false(v, env) for v in e.values)
        return False

    def if_(self, s, rest, env, ctx, ind, at):
        if self.static_false(s.test, env):
            text = self.line(ind, "(* dead code: the test is False for values of these types *)", s)
            return text + self.block(list(s.orelse) + rest, env, ctx, ind, at)
        return super().if_(s, rest, env, ctx, ind, at)

    # -------------------------------------------------------------- calls of plain functions
    def fun_spec(self, e, env):
        if isinstance(e, ast.Call) and isinstance(e.func, ast.Name) and e.func.id not in env.types:
            if e.func.id == self.fn.name and self.spec.get("recursive"):
                return self.spec
            sp = self.done.get(e.func.id)
            if sp is not None and not sp.get("method") and (sp.get("defaults") or sp.get("recursive") or sp.get("expr_call")):
                return sp
        return None

    def fun_call(self, e, env, H):
        sp = self.fun_spec(e, env)
        if e.keywords or any(isinstance(a, ast.Starred) for a in e.args):
            self.fail(e, "keyword / starred arguments")
        if sp.get("mutates"):
            self.fail(e, "internal: a callee that mutates its argument")
        nreq = len(sp["params"]) - len(sp.get("defaults", []))
        if not nreq <= len(e.args) <= len(sp["params"]):
            self.fail(e, "%d arguments, %s takes %d" % (len(e.args), sp["py"], len(sp["params"])))
        args = []
        for a, ty in zip(e.args, sp["params"]):
            t, ta = self.expr(a, env, H)
            if ta in (EMPTYDICT, EMPTYLIST) and (is_dict(ty) or ty == CHARLIST) and isinstance(a, ast.Name):
                # a `{}` / `[]` whose type is given by the parameter it is passed for
                if self.listtypes.get(a.id, ty) != ty:
                    self.fail(a, "%r is used as containers of different types" % a.id)
                self.listtypes[a.id] = ty
                self.retry = True
                env.types[a.id] = ta = ty
            args.append(_paren(self.coerce(a, t, ta, ty, H)))
        for d in sp.get("defaults", [])[len(e.args) - nreq:]:
            args.append({True: "true", False: "false"}[d] if type(d) is bool else "%d" % d)
        fuel = ""
        if sp is self.spec:
            fuel = "fuel_ "
            self.uses_rec = True
        elif sp.get("recursive"):
            fuel = _paren(sp["fuel"].format(*args)) + " "
        return "%s %s%s" % (sp["coq"], fuel, " ".join(args)), sp["ret"]

    # -------------------------------------------------------------- expressions
    def const_key(self, e):
        return e.value if isinstance(e, ast.Constant) and type(e.value) is str else None

    def expr(self, e, env, H):
        if id(e) in getattr(self, "as_iter", {}):
            return self.as_iter[id(e)]
        # `x is None` / `x is not None` for a variable that is never None
        if isinstance(e, ast.Compare) and len(e.ops) == 1 and isinstance(e.ops[0], (ast.Is, ast.IsNot)) \
                and isinstance(e.comparators[0], ast.Constant) and e.comparators[0].value is None \
                and isinstance(e.left, ast.Name):
            t = env.types.get(e.left.id)
            if t is not None and not is_opt(t) and t not in (NONE, LABEL, PV):
                return ("false" if isinstance(e.ops[0], ast.Is) else "true"), BOOL
        # f(args)
        if self.fun_spec(e, env) is not None:
            head, ret = self.fun_call(e, env, H)
            if is_tup(ret) or ret in LISTS:
                self.fail(e, "a call that returns a tuple / a list must be a statement of its own")
            return self.hoist(e, H, "call (%s)" % head, "v"), ret
        # the zero-argument functions that return a layout
        if isinstance(e, ast.Call) and isinstance(e.func, ast.Name) and e.func.id in self.boards \
                and e.func.id not in env.types and not e.args and not e.keywords:
            return self.boards[e.func.id], BOARD
        if isinstance(e, ast.Dict):
            keys = [self.const_key(k) for k in e.keys]
            if not keys:
                return "[]", EMPTYDICT
            for r in RECORDS:
                if tuple(keys) == r[1:] or sorted(keys) == sorted(r[1:]):
                    vals = {}
                    for k, v in zip(keys, e.values):
                        t, ty = self.expr(v, env, H)
                        if ty != Z:
                            self.fail(e, "the field %r has type %s" % (k, tname(ty)))
                        vals[k] = t
                    return "(" + ", ".join(vals[k] for k in r[1:]) + ")", r
            self.fail(e, "a dict literal with the keys %r is not a known record" % keys)
        if isinstance(e, ast.Call) and isinstance(e.func, ast.Attribute) and not e.keywords:
            f = e.func
            if f.attr == "join" and isinstance(f.value, ast.Constant) and f.value.value == "" and len(e.args) == 1 \
                    and not isinstance(e.args[0], ast.GeneratorExp):
                v, tv = self.expr(e.args[0], env, H)
                if tv == CHARLIST:
                    return v, STR
                if tv != STR:
                    self.fail(e, "''.join of a value of type %s" % tname(tv))
                return v, STR
            if f.attr in ("copy", "index", "items"):
                v, tv = self.expr(f.value, env, H)
                if f.attr == "copy" and not e.args and is_dict(tv):
                    return v, tv
                if f.attr == "index" and len(e.args) == 1 and tv == STR:
                    c, tc = self.expr(e.args[0], env, H)
                    if tc != CHAR:
                        self.fail(e, "index of a %s in a row" % tname(tc))
                    return self.hoist(e, H, "call (row_index %s %s)" % (_paren(c), _paren(v)), "v"), Z
                self.fail(e, "unsupported method .%s on a value of type %s" % (f.attr, tname(tv)))
        if isinstance(e, ast.Call) and isinstance(e.func, ast.Name) and e.func.id == "len" and len(e.args) == 1 \
                and not e.keywords and "len" not in env.types:
            uid = self.uid
            v, tv = self.expr(e.args[0], env, H)
            if tv == CHARLIST:
                return "len %s" % _paren(v), Z
            self.uid = uid
        if isinstance(e, ast.Call) and isinstance(e.func, ast.Name) and e.func.id == "list" and len(e.args) == 1 \
                and not e.keywords and "list" not in env.types:
            v, tv = self.expr(e.args[0], env, H)
            if is_dict(tv):
                return "d_keys %s" % _paren(v), STRLIST
            self.fail(e, "list(...) of a value of type %s" % tname(tv))
        if isinstance(e, ast.ListComp):
            return self.list_comp(e, env, H)
        if isinstance(e, ast.List) and len(e.elts) == 1:
            uid = self.uid
            t, ty = self.expr(e.elts[0], env, H)
            if ty == CHAR:
                return "[%s]" % t, CHARLIST
            self.uid = uid
        if isinstance(e, ast.Compare) and len(e.ops) == 1 and type(e.ops[0]) in (ast.In, ast.NotIn):
            neg = (lambda t: "negb %s" % _paren(t)) if isinstance(e.ops[0], ast.NotIn) else (lambda t: t)
            r = e.comparators[0]
            uid = self.uid
            a, ta = self.expr(e.left, env, H)
            # c in ['q', 'Q']
            if ta == CHAR and isinstance(r, ast.List) and r.elts and all(
                    isinstance(x, ast.Constant) and type(x.value) is str and len(x.value) == 1 for x in r.elts):
                return neg(" || ".join("(N.eqb %s %d%%N)" % (_paren(a), ord(x.value)) for x in r.elts)), BOOL
            b, tb = self.expr(r, env, H)
            if ta == CHAR and tb == STR:
                return neg("mem_c %s %s" % (_paren(a), _paren(b))), BOOL
            if ta == STR and is_dict(tb):
                return neg("d_has %s %s" % (_paren(b), _paren(a))), BOOL
            self.uid = uid
        return super().expr(e, env, H)

    def list_comp(self, e, env, H):
        """[x for x in l if cond]  ->  filter (fun x => cond) l"""
        if len(e.generators) != 1:
            self.fail(e, "nested comprehension")
        g = e.generators[0]
        if g.is_async or not isinstance(g.target, ast.Name) or len(g.ifs) != 1 \
                or not (isinstance(e.elt, ast.Name) and e.elt.id == g.target.id):
            self.fail(e, "only [x for x in l if cond] is supported")
        l, tl = self.expr(g.iter, env, H)
        if tl != STRLIST:
            self.fail(e, "comprehension over a value of type %s" % tname(tl))
        x = g.target.id
        self.check_name(e, x)
        if x in env.types:
            self.fail(e, "the comprehension variable %r is already bound" % x)
        inner = env.copy()
        inner.types[x] = STR
        c = self.truth(g.ifs[0], inner, None)
        return "filter (fun %s => %s) %s" % (x, c, _paren(l)), STRLIST

    def truth(self, e, env, H):
        if isinstance(e, ast.Name) and (is_dict(env.types.get(e.id))
                                        or env.types.get(e.id) in (CHARLIST, OSTRLIST, BOARDLIST, STRLISTLIST, EMPTYLIST, EMPTYDICT)):
            return "nonempty %s" % e.id
        return super().truth(e, env, H)

    def subscript(self, e, env, H):
        if isinstance(e.ctx, ast.Load):
            uid = self.uid
            v, tv = self.expr(e.value, env, H)
            key = self.const_key(e.slice)
            if tv == BOARD:
                if key == "name":
                    return "b_name %s" % _paren(v), STR
                if key in ROW_KEYS:
                    return "brow %s %d%%nat" % (_paren(v), ROW_KEYS.index(key)), STR
                self.fail(e, "a layout may only be subscripted by 'name' and the row keys")
            if is_rec(tv):
                if key not in tv[1:]:
                    self.fail(e, "the record has no field %r" % (key,))
                return proj(v, tv[1:].index(key), len(tv) - 1), Z
            if is_dict(tv):
                k, tk = self.expr(e.slice, env, H)
                if tk != STR:
                    self.fail(e, "a dict subscripted by a %s" % tname(tk))
                return self.hoist(e, H, "call (d_get %s %s)" % (_paren(v), _paren(k)), "v"), tv[1]
            if tv == CHARLIST and not isinstance(e.slice, ast.Slice):
                i, ti = self.expr(e.slice, env, H)
                if ti != Z:
                    self.fail(e, "index of type %s" % tname(ti))
                return self.hoist(e, H, "sub_s %s %s" % (_paren(v), _paren(i)), "c"), CHAR
            self.uid = uid
        return super().subscript(e, env, H)

    # -------------------------------------------------------------- statements
    def bind_var(self, node, name, ty, env, owned=False):
        old = env.types.get(name)
        if old in (EMPTYLIST, EMPTYDICT) and (is_dict(ty) or ty == CHARLIST):
            # `x = []` / `x = {}` that turns out to hold a dict / characters
            if self.listtypes.get(name, ty) != ty:
                self.fail(node, "%r is used as containers of different types" % name)
            if self.listtypes.get(name) != ty:
                self.listtypes[name] = ty
                self.retry = True
            del env.types[name]
        super().bind_var(node, name, ty, env, owned)

    def assign(self, s, rest, env, ctx, ind, at):
        if len(s.targets) != 1:
            self.fail(s, "multiple assignment targets")
        t, v = s.targets[0], s.value
        # a, b, c = f(...) / x = f(...) for a function with defaults / recursion
        if self.fun_spec(v, env) is not None:
            H = []
            head, ret = self.fun_call(v, env, H)
            targets = list(t.elts) if isinstance(t, ast.Tuple) else [t]
            rets = list(ret[1:]) if is_tup(ret) else [ret]
            if len(targets) != len(rets):
                self.fail(s, "%d targets for %d returned values" % (len(targets), len(rets)))
            names = []
            for x, ty in zip(targets, rets):
                if not isinstance(x, ast.Name) or x.id in names:
                    self.fail(s, "unsupported assignment target")
                old = env.types.get(x.id)
                if is_opt(ty) and old == ty[1]:
                    # the variable was bound to a T before and is "T or None" now: it is "T or None" from its
                    # first binding on (next pass)
                    if self.opttypes.get(x.id, ty) != ty:
                        self.fail(s, "%r is None or values of different types" % x.id)
                    self.opttypes[x.id] = ty
                    self.retry = True
                    del env.types[x.id]
                self.bind_var(s, x.id, ty, env)
                names.append(x.id)
            text = self.line(ind, "call (%s) (fun %s =>" % (head, tuple_text(names)[1]), s)
            text += _close(self.block(rest, env, ctx, ind, at), ")")
            return self.wrap(H, ind, text)
        # x = e for a variable that a later statement binds to "T or None" (learnt in an earlier pass):
        # the variable is "T or None" from here on
        if isinstance(t, ast.Name) and t.id in self.opttypes and is_opt(self.opttypes[t.id]) \
                and env.types.get(t.id) is None and not (isinstance(v, ast.Constant) and v.value is None) \
                and self.fun_spec(v, env) is None:
            H = []
            uid = self.uid
            text, ty = self.expr(v, env, H)
            if ty == self.opttypes[t.id][1] and ty in (STR, Z, BOOL):
                self.check_name(s, t.id)
                env.types[t.id] = self.opttypes[t.id]
                out = self.line(ind, "let %s := Some %s in" % (t.id, _paren(text)), s)
                return self.wrap(H, ind, out + self.block(rest, env, ctx, ind, at))
            self.uid = uid
        # x = l.pop(): the last element of a list the function owns (IndexError -> raises)
        if isinstance(t, ast.Name) and isinstance(v, ast.Call) and isinstance(v.func, ast.Attribute) \
                and v.func.attr == "pop" and not v.args and not v.keywords and isinstance(v.func.value, ast.Name) \
                and env.types.get(v.func.value.id) in TD.CONCRETE_LISTS:
            l = v.func.value.id
            tl = env.types[l]
            if l not in env.owned:
                self.fail(s, "pop on a list the function does not own")
            if t.id == l:
                self.fail(s, "unsupported assignment target")
            self.bind_var(s, t.id, TD.ELEM[tl], env)
            text = self.line(ind, "call (lpop %s) (fun '(%s, %s) =>" % (l, l, t.id), s)
            return text + _close(self.block(rest, env, ctx, ind, at), ")")
        if isinstance(t, ast.Name) and isinstance(v, ast.Name):
            tv = env.types.get(v.id)
            if is_dict(tv) or tv in (CHARLIST, BOARDLIST, EMPTYDICT, OSTRLIST, STRLISTLIST):
                self.fail(s, "assignment of a %s to another name (aliasing) is not supported" % tname(tv))
        if isinstance(t, ast.Name):
            x = t.id
            # x = {} / x = [] with a learnt type
            if (isinstance(v, ast.Dict) and not v.keys) or (isinstance(v, ast.List) and not v.elts):
                lt = self.listtypes.get(x)
                if lt is not None and (is_dict(lt) or lt == CHARLIST):
                    self.check_name(s, x)
                    env.types.pop(x, None)
                    self.bind_var(s, x, lt, env, owned=True)
                    return self.line(ind, "let %s := @nil %s in" % (x, _paren(coq_type(KV(lt[1])) if is_dict(lt) else "N")), s) + \
                        self.block(rest, env, ctx, ind, at)
                if isinstance(v, ast.Dict):
                    self.check_name(s, x)
                    self.bind_var(s, x, EMPTYDICT, env, owned=True)
                    return self.line(ind, "let %s := [] in" % x, s) + self.block(rest, env, ctx, ind, at)
            # x = <dict / charlist / list of strings expression> (a copy, a comprehension, [c]): a fresh object
            if isinstance(v, (ast.ListComp, ast.List, ast.Call)) and not self.callee(v, env):
                H = []
                uid = self.uid
                try:
                    text, ty = self.expr(v, env, H)
                except TranslateError:
                    ty = None
                if ty is not None and (is_dict(ty) or ty == CHARLIST or (ty == STRLIST and isinstance(v, ast.ListComp))):
                    self.bind_var(s, x, ty, env, owned=True)
                    out = self.line(ind, "let %s := %s in" % (x, text), s)
                    return self.wrap(H, ind, out + self.block(rest, env, ctx, ind, at))
                self.uid = uid
            # x = d[k]: a record (immutable here: nothing can store into it)
            if isinstance(v, ast.Subscript):
                H = []
                uid = self.uid
                try:
                    text, ty = self.expr(v, env, H)
                except TranslateError:
                    ty = None
                if ty is not None and is_rec(ty):
                    self.bind_var(s, x, ty, env)
                    out = self.line(ind, "let %s := %s in" % (x, text), s)
                    return self.wrap(H, ind, out + self.block(rest, env, ctx, ind, at))
                self.uid = uid
        # d[k] = record
        if isinstance(t, ast.Subscript) and isinstance(t.value, ast.Name) and not isinstance(t.slice, ast.Slice):
            x = t.value.id
            tx = env.types.get(x)
            if tx == EMPTYDICT or is_dict(tx):
                if x not in env.owned:
                    self.fail(s, "a store into a dict the function does not own")
                H = []
                k, tk = self.expr(t.slice, env, H)
                if tk != STR:
                    self.fail(s, "a dict keyed by a %s" % tname(tk))
                e, te = self.expr(v, env, H)
                if not is_rec(te):
                    self.fail(s, "a dict value of type %s" % tname(te))
                if tx == EMPTYDICT:
                    self.bind_var(s, x, DICT(te), env, owned=True)
                elif tx != DICT(te):
                    self.fail(s, "%r holds values of different types" % x)
                out = self.line(ind, "let %s := d_set %s %s %s in" % (x, x, _paren(k), _paren(e)), s)
                return self.wrap(H, ind, out + self.block(rest, env, ctx, ind, at))
        return super().assign(s, rest, env, ctx, ind, at)

    def effect(self, s, rest, env, ctx, ind, at):
        c = s.value
        if isinstance(c, ast.Call) and isinstance(c.func, ast.Attribute) and isinstance(c.func.value, ast.Name) \
                and not c.keywords:
            x, attr = c.func.value.id, c.func.attr
            tx = env.types.get(x)
            # d.pop(k, None)
            if attr == "pop" and is_dict(tx):
                if len(c.args) != 2 or not (isinstance(c.args[1], ast.Constant) and c.args[1].value is None):
                    self.fail(s, "only d.pop(key, None) is supported")
                if x not in env.owned:
                    self.fail(s, "pop on a dict the function does not own")
                H = []
                k, tk = self.expr(c.args[0], env, H)
                if tk != STR:
                    self.fail(s, "a dict keyed by a %s" % tname(tk))
                out = self.line(ind, "let %s := d_pop %s %s in" % (x, x, _paren(k)), s)
                return self.wrap(H, ind, out + self.block(rest, env, ctx, ind, at))
            if attr == "append" and len(c.args) == 1 and x in env.owned:
                uid = self.uid
                try:
                    _, te = self.expr(c.args[0], env, [])
                except TranslateError:
                    te = None
                finally:
                    self.uid = uid
                # l.append(c): a list of characters
                if te == CHAR and tx in (EMPTYLIST, CHARLIST):
                    H = []
                    e, _ = self.expr(c.args[0], env, H)
                    if tx == EMPTYLIST:
                        self.bind_var(s, x, CHARLIST, env, owned=True)
                    out = self.line(ind, "let %s := %s ++ [%s] in" % (x, x, e), s)
                    return self.wrap(H, ind, out + self.block(rest, env, ctx, ind, at))
        return super().effect(s, rest, env, ctx, ind, at)

    def assigned(self, stmts):
        out = super().assigned(stmts)
        for s in stmts:
            for n in ast.walk(s):
                if isinstance(n, ast.Call) and isinstance(n.func, ast.Attribute) and n.func.attr == "pop" \
                        and isinstance(n.func.value, ast.Name) and n.func.value.id not in out:
                    out.append(n.func.value.id)
        return out

    def for_(self, s, rest, env, ctx, ind, at):
        it = s.iter
        # for k, v in d.items()
        if isinstance(it, ast.Call) and isinstance(it.func, ast.Attribute) and it.func.attr == "items" \
                and not it.args and not it.keywords:
            return self.for_items(s, rest, env, ctx, ind, at)
        uid = self.uid
        try:
            text, ty = self.expr(it, env, [])
        except TranslateError:
            ty = None
        finally:
            self.uid = uid
        if ty == CHARLIST or is_dict(ty):
            if is_dict(ty):
                if not isinstance(it, ast.Name):
                    self.fail(s, "unsupported iteration over a dict expression")
                if it.id in self.assigned(list(s.body)):
                    self.fail(s, "the iterated dict is changed in the loop")
            self.as_iter = getattr(self, "as_iter", {})
            self.as_iter[id(it)] = (text, STR) if ty == CHARLIST else ("d_keys %s" % _paren(text), STRLIST)
            try:
                return super().for_(s, rest, env, ctx, ind, at)
            finally:
                del self.as_iter[id(it)]
        return super().for_(s, rest, env, ctx, ind, at)

    def for_items(self, s, rest, env, ctx, ind, at):
        if s.orelse:
            self.fail(s, "for ... else")
        tg = s.target
        if not (isinstance(tg, ast.Tuple) and len(tg.elts) == 2 and all(isinstance(x, ast.Name) for x in tg.elts)):
            self.fail(s, "`for k, v in d.items()` needs two plain targets")
        H = []
        names = self.loop_state(s, env)
        d, td = self.expr(s.iter.func.value, env, H)
        if not is_dict(td):
            self.fail(s, ".items() of a value of type %s" % tname(td))
        if isinstance(s.iter.func.value, ast.Name) and s.iter.func.value.id in self.assigned(list(s.body)):
            self.fail(s, "the iterated dict is changed in the loop")
        k, v = tg.elts[0].id, tg.elts[1].id
        inner = env.copy()
        for n, ty in ((k, STR), (v, td[1])):
            if n in env.types:
                self.fail(s, "the loop variable %r is already bound" % n)
            self.check_name(s, n)
            inner.types[n] = ty
        if k == v:
            self.fail(s, "loop variables collide")
        self.loopvars.extend([k, v])
        try:
            tup, pat = tuple_text(names)
            text = self.line(ind, "bind (for_each %s %s (fun '(%s, %s) %s =>" % (_paren(d), _paren(tup), k, v, pat), s)
            text += _close(self.block(list(s.body), inner, Ctx(names, names), ind + 2, s), ")) (fun %s =>" % pat)
        finally:
            del self.loopvars[-2:]
        self.after_loop(s, names, env, inner)
        text += _close(self.block(rest, env, ctx, ind, at), ")")
        return self.wrap(H, ind, text)


KB_FILE = D + "keyboard_walk.py"
KB_BOARDS = [("_get_us_keyboard", "kb_us"), ("_get_jcuken_keyboard", "kb_jcuken")]
KB_SPECS = [
    dict(file=KB_FILE, py="find_keyboard_row_column", coq="py_find_keyboard_row_column",
         params=[CHAR, BOARDLIST], ret=DICT(POS), expr_call=True),
    dict(file=KB_FILE, py="is_next_on_keyboard", coq="py_is_next_on_keyboard",
         params=[DICT(POS), DICT(POS)], ret=DICT(RUN), expr_call=True),
    dict(file=KB_FILE, py="interesting_keyboard", coq="py_interesting_keyboard",
         params=[CHARLIST], ret=BOOL, expr_call=True),
    # the first walk of a password: (sections, found, detected keyboards, what remains to be parsed or None)
    dict(file=KB_FILE, py="_detect_first_keyboard_walk", coq="py_detect_first_keyboard_walk",
         params=[STR, Z], ret=TUP(SECLIST, STRLIST, STRLIST, OPT(STR)), expr_call=True),
    # the loop over the walks (`while remaining is not None`) and the fold of the detected keyboards
    # (`while detected_per_part`): fuel = one more than the length of the password (the proofs show it suffices)
    dict(file=KB_FILE, py="detect_keyboard_walk", coq="py_detect_keyboard_walk",
         fuel="S (length {0})", params=[STR, Z], defaults=[4], ret=TUP(SECLIST, STRLIST, STRLIST)),
]


def board_literal(path, fn, coq):
    """def f(): \"\"\"doc\"\"\"; x = {'name': str, 'row1': [chars], ...}; return x   ->   a pyboard"""
    def fail(node, msg):
        raise TranslateError("%s:%d: %s: %s  [%s]" % (path, getattr(node, "lineno", fn.lineno), fn.name, msg,
                                                      _comment(ast.unparse(node)).split("\n")[0][:100]))
    a = fn.args
    if fn.decorator_list or a.args or a.vararg or a.kwarg or a.kwonlyargs or a.posonlyargs or fn.returns:
        fail(fn, "the function must take no argument")
    body = [s for s in fn.body if not (isinstance(s, ast.Expr) and isinstance(s.value, ast.Constant)
                                       and type(s.value.value) is str)]
    lit = None
    if len(body) == 1 and isinstance(body[0], ast.Return) and isinstance(body[0].value, ast.Dict):
        lit = body[0].value
    elif len(body) == 2 and isinstance(body[0], ast.Assign) and len(body[0].targets) == 1 \
            and isinstance(body[0].targets[0], ast.Name) and isinstance(body[0].value, ast.Dict) \
            and isinstance(body[1], ast.Return) and isinstance(body[1].value, ast.Name) \
            and body[1].value.id == body[0].targets[0].id:
        lit = body[0].value
    if lit is None:
        fail(fn, "the function must return a dict literal")
    try:
        d = ast.literal_eval(lit)
    except Exception:
        fail(lit, "the dict literal is not constant")
    if len(d) != len(lit.keys) or sorted(d) != sorted(["name"] + ROW_KEYS):
        fail(lit, "the keys must be 'name' and %s" % ", ".join(ROW_KEYS))
    if type(d["name"]) is not str:
        fail(lit, "'name' must be a string")
    rows = []
    for k in ROW_KEYS:
        if type(d[k]) is not list or not all(type(x) is str and len(x) == 1 for x in d[k]):
            fail(lit, "%r must be a list of one-character strings" % k)
        rows.append(cstr("".join(d[k])))
    sha = hashlib.sha256(ast.dump(fn, include_attributes=False).encode("utf-8")).hexdigest()
    return ("(* %s  def %s  lines %d-%d\n   sha256 of ast.dump: %s *)\n"
            "Definition %s : pyboard :=\n  {| b_name := %s;\n     b_rows := [%s] |}.\n"
            % (KB_FILE, fn.name, fn.lineno, fn.end_lineno, sha, coq, cstr(d["name"]), ";\n                ".join(rows)))


KB_HEAD = """(* GENERATED by harness/translate_detect2.py from the Python source of the current
   working tree (lib_trainer/detection_rules/keyboard_walk.py) on every run of a check.
   Do not edit.  Each definition is the line-by-line image of one Python function in the
   subset documented in the translator; the numbers in the comments are source lines.
   theories/DetectGenProofsKbd.v proves these definitions equal to the hand-written
   model of theories/Detect.v. *)
From Coq Require Import List ZArith NArith Bool.
From Pcfg Require Import Str Multiword Detect DetectRt DetectRt2.
Import ListNotations.
Open Scope Z_scope.

"""
KB_SECTION = """Section DetectKbdGen.
(* what the Python runtime decides about one character (oracles, as in Detect.v) *)
Variables isalpha isdigit : N -> bool.
Variable lower_c : N -> Str.str.
Notation lower := (Multiword.lower lower_c).

"""


def render_kbd(repo=None):
    repo = repo or common.REPO
    path, tree = load(repo, KB_FILE)
    names = [s["py"] for s in KB_SPECS] + [b for b, _ in KB_BOARDS]
    # the module may end with an `if __name__ == "__main__":` block (a script entry point that only runs
    # when the file is executed, never when it is imported): it is not looked at
    body = list(tree.body)
    if body and isinstance(body[-1], ast.If) and ast.unparse(body[-1].test) in ("__name__ == '__main__'",):
        tree = ast.Module(body=body[:-1], type_ignores=[])
    old = set(TD.BUILTINS_USED)
    TD.BUILTINS_USED.update({"range", "list"})
    try:
        defs = check_module(path, tree, names)
    finally:
        TD.BUILTINS_USED.clear()
        TD.BUILTINS_USED.update(old)
    extra = sorted(set(defs) - set(names))
    if extra:
        raise TranslateError("%s: functions the translator does not know: %r" % (path, extra))
    parts, done = [], {}
    boards = {}
    for py, coq in KB_BOARDS:
        fn = defs.get(py)
        if not isinstance(fn, ast.FunctionDef):
            raise TranslateError("%s: def %s not found" % (path, py))
        parts.append(board_literal(path, fn, coq))
        boards[py] = coq
    parts.append(KB_SECTION.rstrip("\n") + "\n")
    for spec in KB_SPECS:
        fn = defs.get(spec["py"])
        if not isinstance(fn, ast.FunctionDef):
            raise TranslateError("%s: def %s not found" % (path, spec["py"]))
        ft = FT3(path, KB_FILE, fn, spec, dict(done))
        ft.boards = boards
        parts.append(ft.translate() + defaults_text(fn, spec))
        done[spec["py"]] = spec
    return KB_HEAD + "\n".join(parts) + "\nEnd DetectKbdGen.\n"


# ------------------------------------------------------------------ output
GROUPS = {
    "mw": (os.path.join("gen", "DetectMw_gen.v"), render_mw),
    "email": (os.path.join("gen", "DetectEmail_gen.v"), render_email),
    "web": (os.path.join("gen", "DetectWeb_gen.v"), render_web),
    "kbd": (os.path.join("gen", "DetectKbd_gen.v"), render_kbd),
}


def failure_text(key, err):
    """text written instead of the definitions when the translation fails: it must not
    compile, so that no stale generated definition survives"""
    return ("(* GENERATED by harness/translate_detect2.py.  The translation of the current sources FAILED:\n"
            "   %s\n   The line below does not type-check on purpose. *)\n"
            "Definition detect_%s_translation_failed : False := I.\n" % (_comment(str(err)), key))


def write(repo=None):
    """writes every group; raises (after writing all of them) the first error"""
    import extract_consts as X
    first = None
    for key, (out, render) in GROUPS.items():
        path = os.path.join(common.COQ, out)
        try:
            X.write(path, render(repo))
        except Exception as e:
            X.write(path, failure_text(key, "%s: %s" % (type(e).__name__, e)))
            if first is None:
                first = e
    if first is not None:
        raise first


if __name__ == "__main__":
    args = sys.argv[1:]
    if "--write" in args:
        write()
        print("written")
    else:
        for key in (args or list(GROUPS)):
            sys.stdout.write(GROUPS[key][1]())
