"""Status of the translator tie of the OMEN TRAINER (harness/translate_omen_trainer.py), as
correspondence-style obligations of C11 / C18: each generated file must compile and the file with its
equality proofs (generated definition = hand-written model of OmenTrainer.v) must have been built by
`make` from the current generated text; when it was not, the proofs file is compiled once more on its
own to name the lemma that no longer checks (the theorem a `no-failing-input-found` verdict names).

  core   gen/OmenTrainer_gen.v       smoothing.py + AlphabetLookup        OmenTrainerGenProofs.v       C11
  out    gen/OmenTrainerOut_gen.v    omen_file_output.py (the writer)     OmenTrainerGenProofsOut.v    C11 C18
  alpha  gen/OmenTrainerAlpha_gen.v  alphabet_generator.py                OmenTrainerGenProofsAlpha.v  C11
  inst   theories/OmenTrainerGenInst.v: the C11 / C18 theorems over the translated trainer / writer"""
import os

import common
import omen_gen_tie

GROUPS = {
    "core": ("gen/OmenTrainer_gen.v", "theories/OmenTrainerGenProofs.v"),
    "out": ("gen/OmenTrainerOut_gen.v", "theories/OmenTrainerGenProofsOut.v"),
    "alpha": ("gen/OmenTrainerAlpha_gen.v", "theories/OmenTrainerGenProofsAlpha.v"),
}
BY_PROP = {"C11": ("core", "out", "alpha"), "C18": ("out",)}


def obligations(prop):
    out = []
    ok_all = True
    for g in BY_PROP[prop]:
        gen, proofs = GROUPS[g]
        st = omen_gen_tie.status("omen-trainer:translator-tie:%s" % g, gen, proofs)
        ok_all &= st[1]
        out.append(st)
    # the transported theorems: only looked at when the equalities hold (otherwise they fail for that reason)
    if ok_all:
        inst = "theories/OmenTrainerGenInst.v" if prop == "C11" else "theories/OmenTrainerGenInstOut.v"
        vo = os.path.join(common.COQ, inst[:-2] + ".vo")
        src = os.path.join(common.COQ, inst)
        if os.path.exists(vo) and os.path.getmtime(vo) >= os.path.getmtime(src):
            out.append(("omen-trainer:translator-tie:inst", True, ""))
        else:
            fd = common._lock()
            try:
                e = omen_gen_tie._first_error(inst)
            finally:
                os.close(fd)
            if e is None:
                out.append(("omen-trainer:translator-tie:inst", True, ""))
            else:
                where = e[1]
                lemma = omen_gen_tie._enclosing(where[0], where[1]) if where else "?"
                out.append(("omen-trainer:translator-tie:inst", False,
                            "the theorems over the translated trainer no longer check: %s (%s): %s"
                            % (lemma, inst, " ".join(e[0].split())[:500])))
    return out
