"""Tie of the guesser's command line / save-file glue (pcfg_guesser.py: parse_command_line, main,
create_save_config, load_save) for C14 / C08 / C09.

* `obligations(prop)`: the translator tie (gen/Cli_gen.v regenerated from the current source by
  harness/translate_cli.py must equal the hand-written model, theories/CliGenProofs.v), as a
  correspondence-style entry that names the lemma that no longer checks or the construct the
  translator refused.
* `run(ctx, prop, ...)`: correspondence + direct oracles.  The REAL functions of the tree under check
  are run in this process (sys.argv patched, SystemExit = the error outcome; main() with
  PcfgGrammar / CrackingSession / HoneywordSession / print_banner / __file__ of the imported module
  replaced by recording stand-ins, the save files in a scratch directory - nothing is written to the
  repository) on generated command lines and save files; what happened is written as Gallina
  literals and compared with the model (CliModel.m_parse / m_create_save_config / m_load_save /
  m_main) by vm_compute (theories/CliCorr.v).  The direct oracles check the property clauses on
  what the real code did, independently of the model: the grammar of a restored session is built
  with the saved rule name / skip_brute / skip_case; without --load with the typed ones; the limit
  and load flag reach the session; a different uuid runs no session; load_save(create_save_config)
  round trip; nothing on stdout."""
import ast
import configparser
import contextlib
import inspect
import io
import json
import os
import sys
import warnings

import common
import omen_gen_tie

NAME = ("translator-tie:translated pcfg_guesser.main / parse_command_line / create_save_config / load_save = model "
        "CliModel.m_main, m_parse, m_create_save_config, m_load_save (gen/Cli_gen.v, CliGenProofs.v)")


TRUSTED = ("harness/translate_cli.py: fail-closed ast translator of pcfg_guesser.main / parse_command_line / create_save_config / "
           "load_save over coq/theories/CliRt.v; argparse is the model CliModel.ap_parse (CPython 3.12 _parse_optional / "
           "consume_optional for a parser of optionals; int() on ASCII), configparser a string map without interpolation / key "
           "folding, the file system, os.path.join, datetime and PcfgGrammar are oracles of the record env; the text of messages "
           "and what goes to sys.stderr are not modelled")


def obligations(prop=None):
    return [omen_gen_tie.status(NAME, "gen/Cli_gen.v", "theories/CliGenProofs.v")]


# ----------------------------------------------------------------------------- the implementation

_mod = None


def module():
    global _mod
    if _mod is None:
        common.repo_on_path()
        with warnings.catch_warnings():
            warnings.simplefilter("ignore")
            import pcfg_guesser
        _mod = pcfg_guesser
    return _mod


def initial_program_info():
    """the dict display of main(), read by ast (main's dict is a local)"""
    p = os.path.join(common.REPO, "pcfg_guesser.py")
    tree = ast.parse(open(p, encoding="utf-8").read(), filename=p)
    for n in tree.body:
        if isinstance(n, ast.FunctionDef) and n.name == "main":
            for s in ast.walk(n):
                if isinstance(s, ast.Assign) and isinstance(s.value, ast.Dict):
                    return ast.literal_eval(s.value)
    raise RuntimeError("pcfg_guesser.main: no dict display found")


OPT_KEYS = ("rule_name", "session_name", "load_session", "limit", "skip_brute", "skip_case", "cracking_mode", "debug")


def real_parse(argv):
    """-> None (SystemExit) | (returned, {key: value}) | ('raised', type name)"""
    m = module()
    pi = initial_program_info()
    old = sys.argv
    sys.argv = ["pcfg_guesser.py"] + list(argv)
    try:
        with contextlib.redirect_stdout(io.StringIO()), contextlib.redirect_stderr(io.StringIO()):
            r = m.parse_command_line(pi)
        return (r, {k: pi.get(k) for k in OPT_KEYS})
    except SystemExit:
        return None
    except Exception as e:            # anything else is not an outcome the model has
        return ("raised", type(e).__name__)
    finally:
        sys.argv = old


# ----------------------------------------------------------------------------- generators

WORDS = ["R1", "Default", "my rule", "x", "Ru-le", "été", "a=b", "s1", "run_2", "A", "zz top"]
ODD_VALUES = ["-5", "-1.5", "-a b", "", "-"]
MODES = ["true_prob_order", "random_walk", "honeywords"]
INTS_OK = ["5", "0", "-3", "+7", " 12 ", "1_000", "007", "1", "25"]
INTS_BAD = ["x", "3.0", "", "1__0", "_1", "5_", "0x10"]
ERRORS = [["--s"], ["--l"], ["--bogus"], ["-x"], ["stray"], ["--"], ["-"], ["--load=1"], ["-d=1"], ["-l5"], ["-h"],
          ["--help"], ["--he"], ["-dh"], ["-r"], ["--rule", "--load"], ["--rule", "-x"], ["-n", "x"], ["-m", "bogus"],
          ["--mode=fast"], ["--limit="], ["-n", "3.0"], ["--skip_brute=yes"], ["-dx"], ["--s=1"], ["--li"], ["-m"]]


def gen_items(rng, simple_names=False):
    """-> [(argv tokens, (dest, value) or None)]: one command line as a list of option uses"""
    items = []
    for _ in range(rng.choice([0, 1, 1, 2, 2, 3, 3, 4, 5])):
        kind = rng.choice(["rule", "session", "limit", "mode", "toggle", "toggle", "toggle", "cluster"])
        if kind in ("rule", "session"):
            v = rng.choice(WORDS if simple_names or rng.random() < 0.85 else ODD_VALUES)
            if simple_names:
                v = rng.choice(["R1", "Default", "x", "s1", "run_2", "A", "v1.2"])
            long, short, dest = ("--rule", "-r", "rule_name") if kind == "rule" else ("--session", "-s", "session_name")
            form = rng.choice(["long", "short", "long=", "glued", "abbrev", "abbrev="])
            if form == "glued" and (v == "" or v.startswith("=")):
                form = "short"
            ab = long[:rng.randint(4, len(long))]
            toks = {"long": [long, v], "short": [short, v], "long=": [long + "=" + v], "glued": [short + v],
                    "abbrev": [ab, v], "abbrev=": [ab + "=" + v]}[form]
            # a separate value token that looks like an option is an error, not a value
            looks_opt = v.startswith("-") and len(v) > 1 and " " not in v and not _neg_number(v)
            items.append((toks, None if (looks_opt and form in ("long", "short", "abbrev")) else (dest, v)))
        elif kind == "limit":
            ok = rng.random() < 0.85
            v = rng.choice(INTS_OK if ok else INTS_BAD)
            form = rng.choice(["-n", "--limit", "--li", "--limit=", "-n+"])
            if form == "-n+" and v == "":
                form = "-n"
            toks = {"-n": ["-n", v], "--limit": ["--limit", v], "--li": ["--lim", v], "--limit=": ["--limit=" + v],
                    "-n+": ["-n" + v]}[form]
            items.append((toks, ("limit", int(v)) if ok else None))
        elif kind == "mode":
            v = rng.choice(MODES)
            toks = rng.choice([["-m", v], ["--mode", v], ["--mo", v], ["--mode=" + v], ["-m" + v]])
            items.append((toks, ("cracking_mode", v)))
        elif kind == "toggle":
            dest, forms = rng.choice([("load_session", ["--load", "-l", "--lo", "--loa"]),
                                      ("skip_brute", ["--skip_brute", "--sk", "--skip_b"]),
                                      ("skip_case", ["--all_lower", "--al", "--all"]),
                                      ("debug", ["--debug", "-d", "--de"])])
            items.append(([rng.choice(forms)], (dest, True)))
        else:
            c = rng.choice(["-dl", "-ld", "-dld"])
            items.append(([c], ("cluster", c)))
    return items


def _neg_number(v):
    import re
    return re.match(r"^-\d+$|^-\d*\.\d+$", v) is not None


def gen_argv(rng, error_rate=0.25, simple_names=False):
    """-> (argv, expectation {key: value} or None when the line is not a clean one)"""
    items = gen_items(rng, simple_names)
    clean = all(e is not None for _, e in items)
    if rng.random() < error_rate:
        items.insert(rng.randint(0, len(items)), (rng.choice(ERRORS), None))
        clean = False
    argv = [t for toks, _ in items for t in toks]
    if not clean:
        return argv, None
    exp = {}
    for _, (d, v) in items:
        if d == "cluster":
            for ch in v[1:]:
                exp[{"d": "debug", "l": "load_session"}[ch]] = True
        else:
            exp[d] = v
    return argv, exp


# ----------------------------------------------------------------------------- literals

def cval(v):
    if v is None:
        return "VNone"
    if isinstance(v, bool):
        return "(VBool %s)" % common.cbool(v)
    if isinstance(v, int):
        return "(VInt (%d)%%Z)" % v
    if isinstance(v, str):
        return "(VStr %s)" % common.cstr(v)
    if isinstance(v, (list, tuple)):
        return "(VList %s)" % (common.clist([cval(x) for x in v]) if v else "(@nil pyval)")
    if isinstance(v, dict) and v.get("__cfg__"):
        return "(VCfg %s)" % ccfg(v["sections"])
    raise ValueError("value outside the model: %r" % (v,))


def ccfg(sections):
    """[(section, [(key, value)])]"""
    if not sections:
        return "(@nil (str * list (str * str)))"
    return common.clist(["(%s, %s)" % (common.cstr(s), common.clist(["(%s, %s)" % (common.cstr(k), common.cstr(x)) for k, x in kv])
                                         if kv else "(@nil (str * str))") for s, kv in sections])


def cz(n):
    return "(%d)%%Z" % n


def parse_obs_lit(r):
    if r is None:
        return "None"
    ret, o = r
    return "(Some (%s, (%s, %s, %s, %s, %s, %s, %s, %s)))" % (
        common.cbool(ret), common.cstr(o["rule_name"]), common.cstr(o["session_name"]), common.cbool(o["load_session"]),
        common.coption(o["limit"], cz), common.cbool(o["skip_brute"]), common.cbool(o["skip_case"]),
        common.cstr(o["cracking_mode"]), common.cbool(o["debug"]))


def typed_parse(r):
    """is the observed outcome one the model can express"""
    if r is None:
        return True
    if r and r[0] == "raised":
        return False
    ret, o = r
    return (isinstance(ret, bool) and isinstance(o["rule_name"], str) and isinstance(o["session_name"], str)
            and isinstance(o["load_session"], bool) and (o["limit"] is None or (isinstance(o["limit"], int) and not isinstance(o["limit"], bool)))
            and isinstance(o["skip_brute"], bool) and isinstance(o["skip_case"], bool)
            and isinstance(o["cracking_mode"], str) and isinstance(o["debug"], bool))


def snapshot(cfg):
    return [(s, [(k, v) for k, v in cfg.items(s, raw=True)]) for s in cfg.sections()]


# ----------------------------------------------------------------------------- parse cases

def parse_one(prop, rep):
    """rep = {"cli": "parse", "argv": [...], "expect": {...} | None} -> (case literal or None, violations)"""
    argv, exp = rep["argv"], rep.get("expect")
    defaults = {k: initial_program_info()[k] for k in OPT_KEYS}
    vio = []
    r = real_parse(argv)
    if not typed_parse(r):
        return None, [{"sig": "%s:parse-outcome-outside-model" % prop, "what": "parse_command_line %r -> %r" % (argv, r), "replay": rep}]
    case = "(%s, %s)" % (common.clist([common.cstr(a) for a in argv]) if argv else "(@nil (list N))", parse_obs_lit(r))
    if exp is not None:
        want = dict(defaults)
        want.update(exp)
        if r is None:
            return case, [{"sig": "%s:parse-rejects-valid-line" % prop, "what": "parse_command_line exits on %r" % (argv,), "replay": rep}]
        ret, o = r
        for k in OPT_KEYS:
            mine = (prop == "C09") == (k == "limit")
            if o[k] != want[k] and (mine or prop == "C14"):
                vio.append({"sig": "%s:typed-option-not-stored:%s" % (prop, k),
                            "what": "parse_command_line %r stores %s = %r, the command line says %r" % (argv, k, o[k], want[k]),
                            "replay": rep})
        neg = want["limit"] is not None and want["limit"] < 0
        if prop in ("C09", "C14") and bool(ret) != (not neg):
            vio.append({"sig": "%s:limit-validation" % prop, "what": "parse_command_line %r returns %r with limit %r" % (argv, ret, want["limit"]),
                        "replay": rep})
    return case, vio


def parse_cases(ctx, prop, n):
    cases, vio, seen = [], [], set()
    nclean = 0
    for _ in range(n):
        argv, exp = gen_argv(ctx.rng)
        seen.add(json.dumps(argv))
        rep = {"cli": "parse", "argv": argv, "expect": exp}
        nclean += exp is not None
        case, v = parse_one(prop, rep)
        vio += v
        if case is not None:
            cases.append((case, rep))
    return cases, vio, len(seen), nclean


# ----------------------------------------------------------------------------- save / load cases

BOOL_WORDS = [("True", True), ("False", False), ("true", True), ("yes", True), ("0", False), ("off", False), ("ON", True), ("1", True), ("no", False)]


def file_fread(path):
    """what a save file holds, read independently of the code under check -> Gallina fread"""
    if not os.path.exists(path):
        return "FMissing", None
    c = configparser.ConfigParser()
    try:
        with open(path) as f:
            c.read_file(f)
    except configparser.Error:
        return "FGarbage", None
    return "(FCfg %s)" % ccfg(snapshot(c)), c


def real_load(path, pi):
    m = module()
    try:
        with contextlib.redirect_stdout(io.StringIO()) as so, contextlib.redirect_stderr(io.StringIO()):
            r = m.load_save(path, pi)
        return ("none",) if r is None else ("ok", r), so.getvalue()
    except Exception as e:
        return ("crash", type(e).__name__), ""


def saveload_cases(ctx, prop, n, sc):
    m = module()
    create, load, vio = [], [], []
    for i in range(n):
        rule = ctx.rng.choice(["R1", "Default", "my rule", "été", "x y z", "A"])
        sb, scase = ctx.rng.random() < 0.5, ctx.rng.random() < 0.5
        pi = initial_program_info()
        pi.update({"rule_name": rule, "skip_brute": sb, "skip_case": scase})
        rep = {"cli": "saveload", "rule": rule, "skip_brute": sb, "skip_case": scase}
        try:
            cfg = m.create_save_config(pi)
        except Exception as e:
            vio.append({"sig": "%s:create-save-config-raised" % prop, "what": "create_save_config(%r): %s: %s" % (rep, type(e).__name__, e), "replay": rep})
            continue
        snap = snapshot(cfg)
        now = dict(dict(snap).get("session_info", [])).get("first_started", "")
        create.append(("(%s, %s, %s, %s, %s)" % (common.cstr(now), common.cstr(rule), common.cbool(sb), common.cbool(scase), ccfg(snap)), rep))
        # what main and the session add, then a variant of the file
        variant = ctx.rng.choice(["plain", "plain", "plain", "words", "drop", "badbool", "missing", "garbage", "guessing"])
        rep["variant"] = variant
        if cfg.has_section("rule_info"):
            cfg.set("rule_info", "uuid", "uuid-%d" % i)
        if cfg.has_section("session_info"):
            cfg.set("session_info", "last_updated", "2026-01-01T00:00:00")
        want = (rule, sb, scase)
        if variant == "guessing" and cfg.has_section("guessing_info"):
            cfg.set("guessing_info", "max_probability", "0.25")
            cfg.set("guessing_info", "min_probability", "0.0")
        elif variant == "words" and cfg.has_section("rule_info"):
            w1, w2 = ctx.rng.choice(BOOL_WORDS), ctx.rng.choice(BOOL_WORDS)
            cfg.set("rule_info", "skip_brute", w1[0])
            cfg.set("rule_info", "skip_case", w2[0])
            want = (rule, w1[1], w2[1])
        elif variant == "drop":
            s, k = ctx.rng.choice([("rule_info", "rule_name"), ("rule_info", "uuid"), ("rule_info", "skip_brute"),
                                   ("rule_info", "skip_case"), ("session_info", "last_updated")])
            if cfg.has_section(s):
                cfg.remove_option(s, k)
            want = None
        elif variant == "badbool" and cfg.has_section("rule_info"):
            cfg.set("rule_info", ctx.rng.choice(["skip_brute", "skip_case"]), ctx.rng.choice(["maybe", "", "2", "Truee"]))
            want = "ValueError"
        path = os.path.join(sc, "sl_%d.sav" % i)
        if variant == "garbage":
            with open(path, "w") as f:
                f.write("this is not\na config file\n")
            want = None
        elif variant != "missing":
            with open(path, "w") as f:
                cfg.write(f)
        else:
            want = None
        fr, held = file_fread(path)
        pi2 = initial_program_info()
        pi2.update({"rule_name": "TYPED", "skip_brute": not sb, "skip_case": not scase})
        r, out = real_load(path, pi2)
        got = (pi2["rule_name"], pi2["skip_brute"], pi2["skip_case"])
        if r[0] == "none":
            obs = "OFail"
        elif r[0] == "crash":
            e = {"ValueError": "ValueError", "TypeError": "TypeError", "KeyError": "KeyError", "AttributeError": "AttributeError"}.get(r[1], "NotModelled")
            obs = "(OCrash %s)" % e
        else:
            if not (isinstance(got[0], str) and isinstance(got[1], bool) and isinstance(got[2], bool)):
                # e.g. getboolean replaced by get: the flags are strings, and 'False' is truthy
                vio.append({"sig": "%s:saved-flags-not-booleans" % prop,
                            "what": "load_save stores rule_name / skip_brute / skip_case = %r (file: %r)" % (got, dict(snapshot(held)).get("rule_info")),
                            "replay": rep})
                continue
            obs = "(OOk %s %s %s %s)" % (ccfg(snapshot(r[1])), common.cstr(got[0]), common.cbool(got[1]), common.cbool(got[2]))
        load.append(("(%s, %s)" % (fr, obs), rep))
        # direct oracle: the round trip
        if want == "ValueError":
            pass
        elif want is None:
            if r[0] == "ok":
                vio.append({"sig": "%s:load-save-accepts-unusable-file" % prop, "what": "load_save accepts a %s save file" % variant, "replay": rep})
        elif r[0] != "ok" or got != want:
            vio.append({"sig": "%s:save-load-round-trip" % prop,
                        "what": "create_save_config(rule %r, skip_brute %r, skip_case %r) written (%s) and read back by load_save gives %r / %r"
                        % (rule, sb, scase, variant, r[0], got), "replay": rep})
        if out:
            vio.append({"sig": "C09:stdout-noise:load_save", "what": "load_save writes to stdout: %r" % out[:80], "replay": rep})
    return create, load, vio


# ----------------------------------------------------------------------------- main cases

class _Raise(Exception):
    pass


def real_main(argv, scratch_dir, uuid, grammar_raises):
    """run the real main() with recording stand-ins -> dict"""
    m = module()
    rec = {"grammar": [], "crack": [], "honey": [], "end": "done", "stdout": ""}
    sig = inspect.signature(RealGrammar(m).__init__)

    class Grammar:
        def __init__(self, *a, **k):
            b = sig.bind(*a, **k)
            b.apply_defaults()
            self.args = dict(b.arguments)
            rec["grammar"].append(self.args)
            if grammar_raises:
                raise _Raise("stub grammar")
            self.ruleset_info = {"uuid": uuid}

    class Crack:
        def __init__(self, pcfg, save_config, save_filename):
            self.init = (pcfg, {"__cfg__": True, "sections": snapshot(save_config)} if isinstance(save_config, configparser.ConfigParser) else save_config,
                         save_filename)

        def run(self, load_session=False, limit=None):
            pcfg, cfg, fn = self.init
            if isinstance(cfg, dict):       # the config as it is when run() starts
                pass
            rec["crack"].append({"pcfg": pcfg, "cfg": cfg, "fname": fn, "load": load_session, "limit": limit})

    class Honey:
        def __init__(self, pcfg, mode):
            self.init = (pcfg, mode)

        def run(self, limit=0):
            rec["honey"].append({"pcfg": self.init[0], "mode": self.init[1], "limit": limit})

    saved = {k: getattr(m, k) for k in ("PcfgGrammar", "CrackingSession", "HoneywordSession", "print_banner", "__file__")}
    old_argv = sys.argv
    so = io.StringIO()
    try:
        m.PcfgGrammar, m.CrackingSession, m.HoneywordSession = Grammar, Crack, Honey
        m.print_banner = lambda: None
        m.__file__ = os.path.join(scratch_dir, "pcfg_guesser.py")
        sys.argv = ["pcfg_guesser.py"] + list(argv)
        with contextlib.redirect_stdout(so), contextlib.redirect_stderr(io.StringIO()):
            try:
                m.main()
            except SystemExit:
                rec["end"] = "SystemExit"
            except _Raise:
                rec["end"] = "ExternalError"
            except Exception as e:
                rec["end"] = type(e).__name__
    finally:
        sys.argv = old_argv
        for k, v in saved.items():
            setattr(m, k, v)
    rec["stdout"] = so.getvalue()
    return rec


def RealGrammar(m):
    """the real PcfgGrammar class, whatever the module attribute currently is"""
    common.repo_on_path()
    from lib_guesser.pcfg_grammar import PcfgGrammar
    return PcfgGrammar.__new__(PcfgGrammar)


GC_FIELDS = ["rule_name", "base_directory", "version", "save_file", "skip_brute", "skip_case", "debug"]


def gcall_lit(a):
    return "{| " + "; ".join("gc_%s := %s" % (f, cval(a.get(f))) for f in GC_FIELDS) + " |}"


def main_desc(ctx, prop):
    argv, exp = gen_argv(ctx.rng, error_rate=0.12, simple_names=True)
    # most command lines of the C08 / C14 runs restore a session
    if exp is not None and ctx.rng.random() < (0.7 if prop in ("C08", "C14") else 0.4) and not exp.get("load_session"):
        argv = argv + [ctx.rng.choice(["--load", "-l"])]
        exp["load_session"] = True
    # session names with a dot: the save file is <session>.sav whatever the name looks like
    if exp is not None and ctx.rng.random() < (0.25 if prop == "C08" else 0.1):
        name = ctx.rng.choice(["v1.2", "a.b", "run.sav", "x.y.z"])
        argv = argv + [ctx.rng.choice(["--session", "-s"]), name]
        exp["session_name"] = name
    w1, w2 = ctx.rng.choice(BOOL_WORDS[:4] + BOOL_WORDS[:2]), ctx.rng.choice(BOOL_WORDS[:4] + BOOL_WORDS[:2])
    return {"cli": "main", "argv": argv, "expect": exp,
            "save_file": ctx.rng.choice(["valid"] * 6 + ["missing", "garbage", "drop", "badbool"]),
            "saved": [ctx.rng.choice(["SavedRule", "R1", "Default", "other rule"]), w1[0], w2[0]],
            "drop": ctx.rng.choice([["rule_info", "uuid"], ["rule_info", "skip_case"], ["session_info", "last_updated"], ["rule_info", "rule_name"]]),
            "uuid": ctx.rng.choice(["uuid-A", "uuid-A", "uuid-A", "uuid-B"]),
            "grammar_raises": ctx.rng.random() < 0.08}


SAVED_STAMP = "2025-12-31T00:00:00"


def main_one(prop, rep, real_dir):
    """-> (case literal or None, violations, category)"""
    argv, exp, state = rep["argv"], rep.get("expect"), rep["save_file"]
    rule_saved, word1, word2 = rep["saved"]
    b1, b2 = dict(BOOL_WORDS)[word1], dict(BOOL_WORDS)[word2]
    uuid, graises = rep["uuid"], rep["grammar_raises"]
    vio = []
    session = (exp or {}).get("session_name", "default_run")
    path = os.path.join(real_dir, session + ".sav")
    for old in os.listdir(real_dir):
        if old.endswith(".sav"):
            os.remove(os.path.join(real_dir, old))
    cfg = configparser.ConfigParser()
    cfg.add_section("rule_info")
    cfg.set("rule_info", "rule_name", rule_saved)
    cfg.set("rule_info", "skip_brute", word1)
    cfg.set("rule_info", "skip_case", word2)
    cfg.set("rule_info", "uuid", "uuid-A")
    cfg.add_section("session_info")
    cfg.set("session_info", "first_started", SAVED_STAMP)
    cfg.set("session_info", "last_updated", "2026-01-01T00:00:00")
    cfg.add_section("guessing_info")
    cfg.set("guessing_info", "max_probability", "0.125")
    if state == "drop":
        cfg.remove_option(*rep["drop"])
    if state == "badbool":
        cfg.set("rule_info", "skip_brute", "maybe")
    if state == "garbage":
        with open(path, "w") as f:
            f.write("no section header\n")
    elif state != "missing":
        with open(path, "w") as f:
            cfg.write(f)
    fr, _held = file_fread(path)
    rec = real_main(argv, real_dir, uuid, graises)
    # ---- the case for the model
    case = None
    try:
        events = [("EGrammar %s" % gcall_lit(g)) for g in rec["grammar"]]
        now = ""
        version = rec["grammar"][0]["version"] if rec["grammar"] else None
        for c in rec["crack"]:
            if isinstance(c["cfg"], dict):
                fs_ = dict(dict(c["cfg"]["sections"]).get("session_info", [])).get("first_started", "")
                if fs_ != SAVED_STAMP:
                    now = fs_
            events.append("ECrackRun {| cs_pcfg := {| g_call := %s; g_uuid := %s |}; cs_save_config := %s; cs_save_filename := %s |} %s %s"
                          % (gcall_lit(c["pcfg"].args), cval(uuid), cval(c["cfg"]), cval(c["fname"]), cval(c["load"]), cval(c["limit"])))
        for h in rec["honey"]:
            events.append("EHoneyRun {| hs_pcfg := {| g_call := %s; g_uuid := %s |}; hs_mode := %s |} %s"
                          % (gcall_lit(h["pcfg"].args), cval(uuid), cval(h["mode"]), cval(h["limit"])))
        end = "MDone" if rec["end"] == "done" else "(MRaise %s)" % (
            rec["end"] if rec["end"] in ("SystemExit", "TypeError", "ValueError", "KeyError", "AttributeError", "ExternalError") else "NotModelled")
        files = common.clist(["(%s, %s)" % (common.cstr(path), fr)])
        case = "(%s, %s, %s, %s, %s, %s, (%s, %s))" % (
            common.clist([common.cstr(a) for a in argv]) if argv else "(@nil (list N))", common.cstr(now), common.cstr(real_dir), files,
            "None" if graises else "(Some %s)" % cval(uuid), cval(version), end,
            common.clist(events) if events else "(@nil event)")
    except ValueError as e:
        vio.append({"sig": "%s:main-value-outside-model" % prop, "what": "main %r: %s" % (argv, e), "replay": rep})
    # ---- direct oracles (clean command lines only)
    if rec["stdout"] and rec["end"] != "SystemExit":        # argparse prints --help to stdout and exits
        vio.append({"sig": "C09:stdout-noise:main", "what": "main %r writes to stdout: %r" % (argv, rec["stdout"][:80]), "replay": rep})
    if exp is None:
        return case, vio, "parse_refused"
    limit = exp.get("limit")
    mode = exp.get("cracking_mode", "true_prob_order")
    if limit is not None and limit < 0:
        if rec["grammar"] or rec["crack"] or rec["honey"]:
            vio.append({"sig": "C09:negative-limit-runs", "what": "main %r builds / runs something with a negative limit" % (argv,), "replay": rep})
        return case, vio, "parse_refused"
    resume = bool(exp.get("load_session")) and mode == "true_prob_order"
    typed = (exp.get("rule_name", "Default"), bool(exp.get("skip_brute")), bool(exp.get("skip_case")))
    if resume and state in ("missing", "garbage", "drop"):
        if rec["grammar"] or rec["crack"]:
            vio.append({"sig": "%s:unusable-save-file-runs" % prop, "what": "main %r with a %s save file builds a grammar / runs a session" % (argv, state), "replay": rep})
        return case, vio, "load_failed"
    if resume and state == "badbool":
        return case, vio, "load_failed"
    want = (rule_saved, b1, b2) if resume else typed
    if len(rec["grammar"]) != 1:
        vio.append({"sig": "%s:grammar-not-built-once" % prop, "what": "main %r: PcfgGrammar called %d times" % (argv, len(rec["grammar"])), "replay": rep})
        return case, vio, "other"
    g = rec["grammar"][0]
    got = (g["rule_name"], g["skip_brute"], g["skip_case"])
    if prop in ("C14", "C08") and (got != want or any(type(x) is not type(y) for x, y in zip(got, want))):
        vio.append({"sig": ("%s:flags-not-from-save" if resume else "%s:typed-flags-not-used") % prop,
                    "what": "main %r (%s): the grammar is built with rule / skip_brute / skip_case = %r, expected %r (save file: %r)"
                    % (argv, "--load" if resume else "new session", got, want, rep["saved"]), "replay": rep})
    wantname = os.path.join(real_dir, session + ".sav")
    if prop == "C08" and g["save_file"] != wantname:
        vio.append({"sig": "C08:save-file-name", "what": "main %r: save file %r, expected %r" % (argv, g["save_file"], wantname), "replay": rep})
    if graises:
        if rec["crack"] or rec["honey"]:
            vio.append({"sig": "%s:session-without-grammar" % prop, "what": "main %r runs a session although PcfgGrammar raised" % (argv,), "replay": rep})
        return case, vio, "other"
    if mode == "true_prob_order":
        if resume and uuid != "uuid-A":
            if rec["crack"] and prop == "C08":
                vio.append({"sig": "C08:uuid-not-checked", "what": "main %r runs the session although the saved uuid differs from the ruleset's" % (argv,), "replay": rep})
            return case, vio, "uuid_mismatch"
        if len(rec["crack"]) != 1:
            vio.append({"sig": "%s:session-not-run" % prop, "what": "main %r: CrackingSession.run called %d times" % (argv, len(rec["crack"])), "replay": rep})
            return case, vio, "other"
        c = rec["crack"][0]
        if prop in ("C09", "C14") and (c["limit"] != limit or (limit is not None and type(c["limit"]) is not int)):
            vio.append({"sig": "%s:limit-not-passed" % prop,
                        "what": "main %r (%s): CrackingSession.run gets limit %r, typed %r" % (argv, "--load" if resume else "new session", c["limit"], limit), "replay": rep})
        if prop == "C08" and (c["load"] is not bool(exp.get("load_session")) or c["fname"] != wantname):
            vio.append({"sig": "C08:session-arguments", "what": "main %r: CrackingSession gets load_session %r, save file %r" % (argv, c["load"], c["fname"]), "replay": rep})
        if prop == "C08" and resume and isinstance(c["cfg"], dict) and \
                dict(dict(c["cfg"]["sections"]).get("guessing_info", [])).get("max_probability") != "0.125":
            vio.append({"sig": "C08:saved-position-lost", "what": "main %r: the restored session does not get the saved guessing_info" % (argv,), "replay": rep})
        return case, vio, "resumed" if resume else "fresh"
    if len(rec["honey"]) != 1:
        vio.append({"sig": "%s:session-not-run" % prop, "what": "main %r: HoneywordSession.run called %d times" % (argv, len(rec["honey"])), "replay": rep})
        return case, vio, "other"
    if prop == "C09" and rec["honey"][0]["limit"] != limit:
        vio.append({"sig": "C09:limit-not-passed", "what": "main %r: HoneywordSession.run gets limit %r, typed %r" % (argv, rec["honey"][0]["limit"], limit), "replay": rep})
    return case, vio, "honey"


def main_cases(ctx, prop, n, sc):
    cases, vio = [], []
    dist = {"resumed": 0, "uuid_mismatch": 0, "load_failed": 0, "honey": 0, "parse_refused": 0, "fresh": 0, "other": 0}
    real_dir = os.path.realpath(sc)
    for _ in range(n):
        rep = main_desc(ctx, prop)
        case, v, cat = main_one(prop, rep, real_dir)
        vio += v
        dist[cat] += 1
        if case is not None:
            cases.append((case, rep))
    return cases, vio, dist


def replay(ctx, prop, inp):
    """re-run the direct oracle on a stored case -> violations"""
    if inp.get("cli") == "parse":
        return parse_one(prop, inp)[1]
    if inp.get("cli") == "main":
        d = os.path.realpath(common.scratch())
        return main_one(prop, inp, d)[1]
    return []


# ----------------------------------------------------------------------------- shards

HEAD = ["From Coq Require Import List NArith ZArith Bool.", "From Pcfg Require Import Str Corr CliModel CliCorr.",
        "Import ListNotations.", "Open Scope N_scope."]


def shard(ty, check, cases):
    return "\n".join(HEAD + ["Definition cases : list (%s) := [" % ty, ";\n".join(c for c, _ in cases), "].",
                             "Eval vm_compute in (failing %s cases)." % check])


def run(ctx, prop, n_parse=0, n_saveload=0, n_main=0):
    """-> (corr entries, violations, stats)"""
    sc = common.scratch()
    shards, groups, vio = [], {}, []
    stats = {}
    if n_parse:
        cs, v, distinct, nclean = parse_cases(ctx, prop, n_parse)
        vio += v
        stats.update({"cli_parse_cases": len(cs), "cli_parse_distinct": distinct, "cli_parse_clean_lines": nclean,
                      "cli_parse_exits": sum(1 for c, _ in cs if c.endswith(", None)"))})
        if cs:
            groups["cli-parse"] = cs
            shards.append(("cli_parse", shard("list str * parse_obs", "check_parse", cs)))
    if n_saveload:
        os.makedirs(os.path.join(sc, "sl"), exist_ok=True)
        cr, ld, v = saveload_cases(ctx, prop, n_saveload, os.path.join(sc, "sl"))
        vio += v
        stats.update({"cli_create_cases": len(cr), "cli_load_cases": len(ld)})
        if cr:
            groups["cli-create"] = cr
            shards.append(("cli_create", shard("str * str * bool * bool * config", "check_create", cr)))
        if ld:
            groups["cli-load"] = ld
            shards.append(("cli_load", shard("fread * load_obs", "check_load", ld)))
    if n_main:
        os.makedirs(os.path.join(sc, "main"), exist_ok=True)
        cs, v, dist = main_cases(ctx, prop, n_main, os.path.join(sc, "main"))
        vio += v
        stats.update({"cli_main_cases": len(cs)})
        stats.update({"cli_main_" + k: x for k, x in dist.items()})
        if cs:
            groups["cli-main"] = cs
            shards.append(("cli_main", shard("main_case", "check_main", cs)))
    corr = []
    names = {"cli_parse": "cli-parse", "cli_create": "cli-create", "cli_load": "cli-load", "cli_main": "cli-main"}
    what = {"cli-parse": "model m_parse vs the real parse_command_line", "cli-create": "model m_create_save_config vs the real create_save_config",
            "cli-load": "model m_load_save vs the real load_save", "cli-main": "model m_main vs the real main (recording stand-ins)"}
    for name, idx, log in common.run_case_shards(prop + "_cli", shards):
        g = names[name]
        if idx is None:
            corr.append(("corr:" + g, False, log[-800:]))
        elif idx:
            corr.append(("corr:" + g, False, "%s differ on cases %s; first: %s" % (what[g], idx[:10], json.dumps(groups[g][idx[0]][1])[:500])))
        else:
            corr.append(("corr:" + g, True, ""))
    return corr, vio, stats
