"""Drive the real PcfgGrammar / PcfgQueue of /repo's working tree in-process."""
import configparser
import os

import common
import rulesets

common.repo_on_path()

_counter = [0]


def load_grammar(rs, scratch, skip_brute=False, skip_case=False, folder="Grammar"):
    from lib_guesser.pcfg_grammar import PcfgGrammar
    _counter[0] += 1
    d = os.path.join(scratch, "Rules", "R%d" % _counter[0])
    rulesets.write_ruleset(rs, d)
    (g, so, se) = common.quiet_call(PcfgGrammar, rs["name"], d, "4.7", None, skip_brute, skip_case, False, folder)
    g._verif_dir = d
    g._verif_stdout = so
    return g


def full_stream(pcfg, save_config=None, cap=5000, check_heap=True, queue_size=None):
    """Pop until exhaustion.  Returns (items, heap_problems, capped).
    queue_size: value given to the queue's existing attribute max_queue_size (the size above which the queue is meant
    to be trimmed one day; unused by the code as it is) - whatever the queue does about its size, the stream must not change."""
    from lib_guesser.priority_queue import PcfgQueue
    q = PcfgQueue(pcfg, save_config)
    if queue_size is not None and hasattr(q, "max_queue_size"):
        q.max_queue_size = queue_size
    items = []
    problems = []
    while len(items) < cap:
        it = q.next()
        if it is None:
            return items, problems, False, q
        items.append({"pt": [tuple(x) for x in it["pt"]], "prob": it["prob"], "base_prob": it["base_prob"]})
        if q.max_probability != it["prob"]:
            problems.append(("max_probability", len(items) - 1))
        if check_heap:
            # frontier invariant, on the real heap: nothing queued is more
            # probable than what was just popped
            for qi in q.p_queue:
                if qi.pt_item["prob"] > it["prob"]:
                    problems.append(("queued-more-probable", len(items) - 1))
                    break
    return items, problems, True, q


def resume_config(max_prob):
    cfg = configparser.ConfigParser()
    cfg.add_section("guessing_info")
    cfg.set("guessing_info", "min_probability", str(0.0))
    cfg.set("guessing_info", "max_probability", str(max_prob))
    return cfg


def coq_obs(vm, item):
    return "(%s, %s, %s)" % (
        common.clist(["(%d, %d)" % (vm.id(t), i) for t, i in item["pt"]]) + "%nat"
        if item["pt"] else "(@nil (nat*nat))",
        common.cfloat(item["base_prob"]), common.cfloat(item["prob"]))


def coq_rs(table, bases):
    t = common.clist([common.clist([common.cfloat(p) for p in row]) if row else "(@nil float)" for row in table]) \
        if table else "(@nil (list float))"
    b = common.clist(["(%s, %s)" % (common.cfloat(p), (common.clist(["%d" % v for v in vs]) + "%nat") if vs else "(@nil nat)")
                      for p, vs in bases]) if bases else "(@nil (float * list nat))"
    return "(mk_rs %s %s)" % (t, b)


def key(item):
    return (tuple(item["pt"]), item["base_prob"].hex(), item["prob"].hex())


def product_enumeration(pcfg):
    """Independent enumeration of every (base structure, index vector) with the
    left-to-right product, straight from the loaded tables."""
    import itertools
    out = []
    for b in pcfg.base:
        dims = [range(len(pcfg.grammar[r])) for r in b["replacements"]]
        for vec in itertools.product(*dims):
            p = b["prob"]
            for r, i in zip(b["replacements"], vec):
                p *= pcfg.grammar[r][i]["prob"]
            out.append({"pt": list(zip(b["replacements"], vec)), "prob": p, "base_prob": b["prob"]})
    return out


def independent_grid(rs, skip_brute, skip_case, folder, n_markov_levels):
    """The pre-terminals the RULESET FILES define (not the loaded tables): per line of grammar.txt (or Prince/grammar.txt)
    one base structure - its labels, a C<n> inserted behind every A<n>, the Markov line dropped under skip_brute - and per
    variable one index per group of consecutive lines of equal probability (one group under all_lower for C<n>; one per OMEN
    level for M).  Returns the multiset (Counter) of parse trees as tuples ((variable, index), ...)."""
    import itertools
    import re
    from collections import Counter

    def ngroups(name):
        if name == "M":
            return n_markov_levels
        if name[0] == "C" and skip_case:
            return 1
        lines = rs["files"].get(name)
        if not lines:
            return 0
        n, prev = 0, None
        for _, p in lines:
            if prev is None or float(p) != prev:
                n += 1
                prev = float(p)
        return n
    out = Counter()
    for struct, _ in (rs["grammar"] if folder == "Grammar" else rs["prince"]):
        if struct == "M":
            if skip_brute:
                continue
            names = ["M"]
        else:
            names = []
            for tok in re.findall(r"[A-Z][0-9]+", struct):
                names.append(tok)
                if tok[0] == "A":
                    names.append("C" + tok[1:])
        dims = [range(ngroups(n)) for n in names]
        for vec in itertools.product(*dims):
            out[tuple(zip(names, vec))] += 1
    return out
