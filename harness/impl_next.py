"""Drive the real PcfgGrammar / PcfgQueue of /repo's working tree in-process."""
import configparser
import os

import common
import rulesets

common.repo_on_path()

_counter = [0]


def load_grammar(rs, scratch, skip_brute=False, skip_case=False, folder="Grammar"):
    from lib_guesser.pcfg_grammar import PcfgGrammar
    _counter[0] += 1
    d = os.path.join(scratch, "Rules", "R%d" % _counter[0])
    rulesets.write_ruleset(rs, d)
    (g, so, se) = common.quiet_call(PcfgGrammar, rs["name"], d, "4.7", None, skip_brute, skip_case, False, folder)
    g._verif_dir = d
    g._verif_stdout = so
    return g


def full_stream(pcfg, save_config=None, cap=5000, check_heap=True, queue_size=None):
    """Pop until exhaustion.  Returns (items, heap_problems, capped).
    queue_size: value given to the queue's existing attribute max_queue_size (the size above which the queue is meant
    to be trimmed one day; unused by the code as it is) - whatever the queue does about its size, the stream must not change."""
    from lib_guesser.priority_queue import PcfgQueue
    q = PcfgQueue(pcfg, save_config)
    if queue_size is not None and hasattr(q, "max_queue_size"):
        q.max_queue_size = queue_size
    items = []
    problems = []
    while len(items) < cap:
        it = q.next()
        if it is None:
            return items, problems, False, q
        items.append({"pt": [tuple(x) for x in it["pt"]], "prob": it["prob"], "base_prob": it["base_prob"]})
        if q.max_probability != it["prob"]:
            problems.append(("max_probability", len(items) - 1))
        if check_heap:
            # frontier invariant, on the real heap: nothing queued is more
            # probable than what was just popped
            for qi in q.p_queue:
                if qi.pt_item["prob"] > it["prob"]:
                    problems.append(("queued-more-probable", len(items) - 1))
                    break
    return items, problems, True, q


def resume_config(max_prob):
    cfg = configparser.ConfigParser()
    cfg.add_section("guessing_info")
    cfg.set("guessing_info", "min_probability", str(0.0))
    cfg.set("guessing_info", "max_probability", str(max_prob))
    return cfg


def coq_obs(vm, item):
    return "(%s, %s, %s)" % (
        common.clist(["(%d, %d)" % (vm.id(t), i) for t, i in item["pt"]]) + "%nat"
        if item["pt"] else "(@nil (nat*nat))",
        common.cfloat(item["base_prob"]), common.cfloat(item["prob"]))


def coq_rs(table, bases):
    t = common.clist([common.clist([common.cfloat(p) for p in row]) if row else "(@nil float)" for row in table]) \
        if table else "(@nil (list float))"
    b = common.clist(["(%s, %s)" % (common.cfloat(p), (common.clist(["%d" % v for v in vs]) + "%nat") if vs else "(@nil nat)")
                      for p, vs in bases]) if bases else "(@nil (float * list nat))"
    return "(mk_rs %s %s)" % (t, b)


def key(item):
    return (tuple(item["pt"]), item["base_prob"].hex(), item["prob"].hex())


def product_enumeration(pcfg):
    """Independent enumeration of every (base structure, index vector) with the
    left-to-right product, straight from the loaded tables."""
    import itertools
    out = []
    for b in pcfg.base:
        dims = [range(len(pcfg.grammar[r])) for r in b["replacements"]]
        for vec in itertools.product(*dims):
            p = b["prob"]
            for r, i in zip(b["replacements"], vec):
                p *= pcfg.grammar[r][i]["prob"]
            out.append({"pt": list(zip(b["replacements"], vec)), "prob": p, "base_prob": b["prob"]})
    return out


def independent_grid(rs, skip_brute, skip_case, folder, n_markov_levels):
    """The pre-terminals the RULESET FILES define (not the loaded tables): per line of grammar.txt (or Prince/grammar.txt)
    one base structure - its labels, a C<n> inserted behind every A<n>, the Markov line dropped under skip_brute - and per
    variable one index per group of consecutive lines of equal probability (one group under all_lower for C<n>; one per OMEN
    level for M).  Returns the multiset (Counter) of parse trees as tuples ((variable, index), ...)."""
    import itertools
    import re
    from collections import Counter

    def ngroups(name):
        if name == "M":
            return n_markov_levels
        if name[0] == "C" and skip_case:
            return 1
        lines = rs["files"].get(name)
        if not lines:
            return 0
        n, prev = 0, None
        for _, p in lines:
            if prev is None or float(p) != prev:
                n += 1
                prev = float(p)
        return n
    out = Counter()
    for struct, _ in (rs["grammar"] if folder == "Grammar" else rs["prince"]):
        if struct == "M":
            if skip_brute:
                continue
            names = ["M"]
        else:
            names = []
            for tok in re.findall(r"[A-Z][0-9]+", struct):
                names.append(tok)
                if tok[0] == "A":
                    names.append("C" + tok[1:])
        dims = [range(ngroups(n)) for n in names]
        for vec in itertools.product(*dims):
            out[tuple(zip(names, vec))] += 1
    return out


# ------------------------------------------------------------------ histories on ONE ruleset directory
#
# A ruleset directory has a life: it is trained, guessed from, edited in place (edit_rules.py rewrites Grammar/grammar.txt
# and keeps the uuid; a hand edit of a probability file keeps it too), guessed from again under other flags, trained again.
# Every property of the loader / the guesser is about the files AS THEY ARE when the load happens, whatever was loaded from
# that directory before (in this process or in an earlier one).  `load_grammar` above writes every ruleset into a fresh
# directory and loads it once; the helpers below replay a history on one directory.

def file_groups(rs, name, skip_case=False):
    """The groups the ruleset FILES define for variable [name]: consecutive lines of equal probability form one group
    (C<n> under all_lower: the single all-lower mask with probability 1.0).  [(prob, [values])] or None (no such file)."""
    if name[0] == "C" and skip_case:
        return [(1.0, ["L" * int(name[1:])])]
    lines = rs["files"].get(name)
    if lines is None:
        return None
    out = []
    for v, p in lines:
        p = float(p)
        if out and out[-1][0] == p:
            out[-1][1].append(v)
        else:
            out.append((p, [v]))
    return out


def file_bases(rs, skip_brute, folder):
    """The base structures the ruleset FILES define under the flags: per line of <folder>/grammar.txt its probability (divided
    by 1 - P(first M line) under skip_brute, the Markov lines dropped) and its labels with a C<n> behind every A<n>.
    None when 1 - P(M) is 0 (nothing to rescale to)."""
    import re
    lines = rs["grammar"] if folder == "Grammar" else rs["prince"]
    tot = 1.0
    if skip_brute:
        for s, p in lines:
            if s == "M":
                tot = tot - float(p)
                break
    if tot == 0.0:
        return None
    out = []
    for s, p in lines:
        names = []
        for tok in re.findall(r"[A-Z][0-9]*", s):
            names.append(tok)
            if tok[0] == "A":
                names.append("C" + tok[1:])
        if skip_brute and "M" in names:
            continue
        out.append((float(p) / tot, names))
    return out


def _paths_of(rs):
    return set(os.path.join(rulesets.SECTION[k[0]][1], k[1:] + ".txt") for k in rs["files"])


class History:
    """One rule directory <scratch>/Rules/<name> (or <rules_dir>/<name>) on which steps are applied one after the other.
    A step is a dict:
        ruleset     description to (re)write INTO THE DIRECTORY (None/absent: leave the files as they are); like edit_rules or a
                    hand edit the rewrite only touches the files of the description and removes terminal files an EARLIER STEP
                    WROTE that are gone from it - anything else found in the directory (e.g. a file the code under test left there)
                    survives; the uuid is whatever the description says (kept by an edit, new after a re-training)
        edit_rules  optional config of the real edit_rules.edit_rules() run on the directory after the rewrite
                    ({'min_length','max_length','terminal_set','regex'}); grammar.txt is then read back into the description
        skip_brute, skip_case, folder   flags of the load
    `current` is the description of the files as they are NOW."""

    def __init__(self, scratch, rules_dir=None, name=None):
        _counter[0] += 1
        self.rules_dir = rules_dir or os.path.join(scratch, "Rules")
        self.name = name or "H%d" % _counter[0]
        self.dir = os.path.join(self.rules_dir, self.name)
        self.written = set()
        self.current = None

    def write(self, step):
        rs = step.get("ruleset")
        if rs is not None:
            rulesets.write_ruleset(rs, self.dir)
            now = _paths_of(rs)
            for rel in self.written - now:
                try:
                    os.unlink(os.path.join(self.dir, rel))
                except OSError:
                    pass
            self.written = now
            self.current = rulesets.to_json(rs)
        cfg = step.get("edit_rules")
        if cfg:
            import importlib
            er = importlib.import_module("edit_rules")
            conf = {"rules_dir": self.rules_dir, "rule": self.name, "copy": None,
                    "min_length": int(cfg.get("min_length") or 0), "max_length": int(cfg.get("max_length") or 0),
                    "terminal_set": cfg.get("terminal_set") or False}
            if cfg.get("regex"):
                conf["regex"] = list(cfg["regex"])
            common.quiet_call(er.edit_rules, conf)
            got = []
            with open(os.path.join(self.dir, "Grammar", "grammar.txt")) as f:
                for line in f:
                    if line.strip():
                        s, p = line.rstrip("\r\n").split("\t")
                        got.append([s, float(p)])
            self.current["grammar"] = got
        return self.current

    def load(self, step):
        """the real PcfgGrammar, in this process, from the directory as it is now"""
        from lib_guesser.pcfg_grammar import PcfgGrammar
        (g, so, se) = common.quiet_call(PcfgGrammar, self.name, self.dir, "4.7", None, bool(step.get("skip_brute")),
                                        bool(step.get("skip_case")), False, step.get("folder", "Grammar"))
        g._verif_dir = self.dir
        return g

    def load_child(self, step, timeout=120):
        """the same load in a FRESH python process: (base list, tables) as JSON-able lists, or None if the load failed there"""
        import json
        import subprocess
        prog = ("import sys, json, io, contextlib\n"
                "from lib_guesser.pcfg_grammar import PcfgGrammar\n"
                "a = json.loads(sys.argv[1])\n"
                "with contextlib.redirect_stdout(io.StringIO()), contextlib.redirect_stderr(io.StringIO()):\n"
                "    g = PcfgGrammar(a[0], a[1], '4.7', None, a[2], a[3], False, a[4])\n"
                "print('@@' + json.dumps([[[b['prob'].hex(), b['replacements']] for b in g.base],\n"
                "      {k: [[x['prob'].hex(), x['values']] for x in v] for k, v in g.grammar.items()}]))\n")
        arg = json.dumps([self.name, self.dir, bool(step.get("skip_brute")), bool(step.get("skip_case")), step.get("folder", "Grammar")])
        p = subprocess.run([common.PY, "-c", prog, arg], env=common.subenv(), cwd=common.REPO, stdin=subprocess.DEVNULL,
                           stdout=subprocess.PIPE, stderr=subprocess.PIPE, timeout=timeout)
        for line in p.stdout.decode("utf-8", "replace").split("\n"):
            if line.startswith("@@"):
                return json.loads(line[2:])
        return None


def tables_of(g):
    """what load_child returns, for a grammar loaded in this process"""
    return [[[b["prob"].hex(), list(b["replacements"])] for b in g.base],
            {k: [[x["prob"].hex(), list(x["values"])] for x in v] for k, v in g.grammar.items()}]


def load_history(steps, scratch, rules_dir=None, name=None):
    """Generator over a recorded history on ONE directory: per step (index, description of the files now, grammar or None,
    exception or None, the History object - .dir, .load_child(step))."""
    h = History(scratch, rules_dir, name)
    for k, st in enumerate(steps):
        now = h.write(st)
        try:
            g, err = h.load(st), None
        except Exception as e:      # noqa: BLE001 - the loader raises bare Exception
            g, err = None, e
        yield k, now, g, err, h


def _edit_in_place(rng, rs, folder, kind):
    """One in-place edit of description [rs] (uuid kept).  Returns (new description, edit_rules config or None) or None if the
    kind does not apply to this ruleset."""
    rs = rulesets.to_json(rs)
    key = "grammar" if folder == "Grammar" else "prince"
    lines = [list(x) for x in rs[key]]
    if kind == "drop-base":
        if len(lines) < 2:
            return None
        del lines[rng.randrange(len(lines))]
        if rng.random() < 0.5:
            tot = sum(p for _, p in lines)
            if tot > 0:
                lines = [[s, p / tot] for s, p in lines]
        rs[key] = lines
        return rs, None
    if kind == "move-markov":
        # the Markov line of Grammar/grammar.txt appears, disappears or moves (the probabilities keep their places)
        if folder != "Grammar":
            return None
        pos = [i for i, (s, _) in enumerate(lines) if s == "M"]
        if pos and (len(lines) == 1 or rng.random() < 0.4):
            if len(lines) == 1:
                return None
            del lines[pos[0]]
        elif pos:
            j = rng.choice([i for i in range(len(lines)) if i != pos[0]])
            names = [s for s, _ in lines]
            names.insert(j, names.pop(pos[0]))
            lines = [[s, p] for s, (_, p) in zip(names, lines)]
        else:
            j = rng.randint(0, len(lines))
            hi = float(lines[j - 1][1]) if j > 0 else 1.0
            lo = float(lines[j][1]) if j < len(lines) else 0.0
            lines.insert(j, ["M", rng.choice([hi, lo, (hi + lo) / 2, 0.5 * lo])])
        rs[key] = lines
        return rs, None
    if kind == "reweight-base":
        ps = rulesets.gen_probs(rng, len(lines), rng.random() < 0.5)
        if [p for _, p in lines] == ps:
            return None
        rs[key] = [[s, p] for (s, _), p in zip(lines, ps)]
        return rs, None
    names = sorted(rs["files"])
    if kind == "reweight-terminal":
        import re
        labels = set()
        for s, _ in lines:
            for tok in re.findall(r"[A-Z][0-9]*", s):
                labels.add(tok)
                if tok[0] == "A":
                    labels.add("C" + tok[1:])
        n = rng.choice([x for x in names if x in labels] or names)
        old = rs["files"][n]
        k = rng.randint(1, len(old))
        ps = rulesets.gen_probs(rng, k, rng.random() < 0.5)
        # new group boundaries: the values keep their order, the probabilities (hence the groups) change
        cuts = sorted(rng.sample(range(1, len(old)), k - 1)) if k > 1 else []
        new, gi = [], 0
        for i, (v, _) in enumerate(old):
            while gi < len(cuts) and i >= cuts[gi]:
                gi += 1
            new.append([v, ps[gi]])
        if [float(p) for _, p in old] == [p for _, p in new]:
            return None
        rs["files"][n] = new
        return rs, None
    if kind == "add-value":
        pools = {"A": rulesets.WORDS, "D": rulesets.DIGITS, "O": rulesets.OTHER, "K": rulesets.KEYB}
        cands = []
        for n in names:
            if n[0] in pools:
                extra = [v for v in pools[n[0]].get(int(n[1:]), []) if v not in [x[0] for x in rs["files"][n]]]
                if extra:
                    cands.append((n, extra))
        if not cands:
            return None
        n, extra = rng.choice(cands)
        old = [list(x) for x in rs["files"][n]]
        pos = rng.randint(0, len(old))
        # probability of a neighbour (joins its group) or a new value between the neighbours (a new group)
        hi = float(old[pos - 1][1]) if pos > 0 else 1.0
        lo = float(old[pos][1]) if pos < len(old) else 0.0
        p = rng.choice([hi if pos > 0 else lo, lo if pos < len(old) else hi, (hi + lo) / 2])
        old.insert(pos, [rng.choice(extra), p])
        rs["files"][n] = old
        return rs, None
    if kind == "remove-value":
        cands = [n for n in names if len(rs["files"][n]) >= 2]
        if not cands:
            return None
        n = rng.choice(cands)
        old = [list(x) for x in rs["files"][n]]
        del old[rng.randrange(len(old))]
        rs["files"][n] = old
        return rs, None
    if kind == "edit_rules":
        if folder != "Grammar" or len(lines) < 2:
            return None
        import re
        r = rng.random()
        lens = []
        for s, _ in lines:
            lens.append(sum(4 if t[0] == "Y" else int(t[1:] or 0) for t in re.findall(r"[A-Z][0-9]*", s) if t[0] in "ADYOKX"))
        if r < 0.4:
            cfg = {"max_length": rng.choice(sorted(set(lens)))} if rng.random() < 0.5 else {"min_length": rng.choice(sorted(set(lens)))}
        elif r < 0.8:
            letters = sorted(set(t[0] for s, _ in lines for t in re.findall(r"[A-Z][0-9]*", s)))
            keep = rng.sample(letters, rng.randint(1, max(1, len(letters) - 1))) if len(letters) > 1 else letters
            cfg = {"terminal_set": keep}
        else:
            cfg = {"regex": [rng.choice(["D", "A", "^[AM]", "O|D", "[0-9]$", "^.{2,4}$"])]}
        return None if not cfg else (rs, cfg)
    return None


class HistoryGen:
    """Draws the steps of a history ONE AT A TIME (the next step starts from the files as the previous one left them, which for an
    edit_rules step is only known after the real tool ran):
    (a) "flags": same files, other flags; (b) in-place edits with the uuid kept (drop-base, reweight-base, move-markov,
    reweight-terminal, add-value, remove-value, edit_rules = grammar.txt as the real edit_rules.py leaves it), loaded under the flags of an EARLIER
    load; (c) "retrain": everything replaced, new uuid; "same": nothing changes (a second session on the directory).
    Steps carry the full description to write, so the list of the steps taken is the replay of a violation."""

    FLAGS = [(False, False, "Grammar"), (True, False, "Grammar"), (False, True, "Grammar"),
             (True, True, "Grammar"), (False, False, "Prince"), (False, True, "Prince")]
    KINDS = ["flags"] * 3 + ["drop-base"] * 2 + ["reweight-base", "reweight-terminal", "reweight-terminal", "add-value",
                                                 "remove-value", "edit_rules", "edit_rules", "retrain", "same", "move-markov"]

    def __init__(self, rng, rs0, flags0, kinds=None, flag_choices=None, fix=None, gen=None):
        self.rng, self.kinds, self.flag_choices = rng, kinds or self.KINDS, flag_choices or self.FLAGS
        self.fix = fix or (lambda rs: rs)
        self.gen = gen or (lambda name: rulesets.gen_ruleset(rng, name=name))
        self.flags = tuple(flags0)
        self.seen_flags = [self.flags]
        self.rs0 = rulesets.to_json(rs0)

    def first(self):
        sb, scs, folder = self.flags
        return {"edit": "first", "ruleset": self.rs0, "edit_rules": None, "skip_brute": sb, "skip_case": scs, "folder": folder}

    def next(self, cur):
        """the next step, given the description [cur] of the files as they are now"""
        rng = self.rng
        for _ in range(50):
            kind = rng.choice(self.kinds)
            sb, scs, folder = self.flags
            st = {"edit": kind, "ruleset": None, "edit_rules": None}
            if kind == "flags":
                others = [f for f in self.flag_choices if f != self.flags]
                if not others:
                    continue
                sb, scs, folder = rng.choice(others)
            elif kind == "same":
                pass
            elif kind == "retrain":
                new = self.gen(cur["name"])
                new["encoding"] = cur["encoding"]
                st["ruleset"] = rulesets.to_json(self.fix(new))
            else:
                # an edit shows under flags that were used before: go back to an earlier flag set half of the time
                if rng.random() < 0.5:
                    sb, scs, folder = rng.choice(self.seen_flags)
                r = _edit_in_place(rng, cur, folder, kind)
                if r is None:
                    continue
                new, cfg = r
                st["ruleset"], st["edit_rules"] = rulesets.to_json(self.fix(new)), cfg
            self.flags = (sb, scs, folder)
            self.seen_flags.append(self.flags)
            st.update(skip_brute=sb, skip_case=scs, folder=folder)
            return st
        sb, scs, folder = self.flags
        return {"edit": "same", "ruleset": None, "edit_rules": None, "skip_brute": sb, "skip_case": scs, "folder": folder}
