#!/venv/bin/python
"""Fail-closed translator of the rule-file loaders from Python to Gallina.

    /venv/bin/python harness/translate_loader.py            print the generated text
    /venv/bin/python harness/translate_loader.py --write    write coq/gen/Loader_gen.v

Sources (SPECS): lib_guesser/grammar_io.py  _load_from_file, _load_base_structures,
load_omen_keyspace;  lib_scorer/grammar_io.py  _load_from_file.
The source is only parsed (`ast`), never imported or executed.  The output
(coq/gen/Loader_gen.v) targets the runtime coq/theories/LoaderRt.v, and
coq/theories/LoaderGenProofs.v proves each generated definition equal to the
hand-written models of TextFile.v / Loader.v the theorems of C07, C14, C04 are
about.  A change of one of these functions changes the generated text and the
equality proofs are re-checked against it on every run.

Accepted subset (anything else raises TranslateError with file:line):

  types       str, int, float, bool, None; list of T; the two dict shapes
              {'values': list of str, 'prob': float} and {'prob': float,
              'replacements': list of str} (records); dict with computed keys
              (str -> float, int -> int: association lists); a text file opened for
              reading; a caught exception.  Parameter and result types come from
              SPECS (by POSITION: parameter names are free); locals are inferred.
  statements  x = e;  x op= e (+ on int / str, - on float);  a[i]... = e,
              a[i]... op= e and a[i]....append(e) / .insert(i, e) through any path of
              subscripts rooted at a variable (read on the way down, written back on
              the way up);  x = y['key'] of a list-valued key of a record (x is then
              an ALIAS of that part of y: reads and updates go to y; likewise y after
              x = {..., 'key': y} with a list variable y);  d[k] = e on a
              dict;  if / elif / else;  for x in <file> / <list> / <str> with break,
              continue, else;  while <pure test>;  try / except C [as n] (no else /
              finally), nested;  with codecs.open(name, 'r', encoding=e
              [, errors=<constant>]) as f (the errors argument is passed to the oracle) / with open(name, 'r') as f;  f.seek(0)
              (inside a loop over f only directly before `break`);  x.encode(e) as a
              statement;  return e;  print(..., file=sys.stderr) (dropped: stderr is
              not modelled; its arguments must only mention bound names);  docstrings,
              pass.
  expressions names;  str / int constants, 1.0, -1.0, 0.0, True, False, None;  not,
              and, or (operands after the first must not raise);  == != on str, float,
              int, bool;  < <= > >= on int;  in / not in (str in list of str);
              + - * on int, + on str, str * int, - and / on float (/ raises
              ZeroDivisionError);  l[i], s[i], l[a:b], s[a:b], d['key'], d[k];  len,
              float, int;  s.rstrip() / .lstrip() / .strip() without argument,
              s.split(<one-character constant>), s.isalpha();  os.path.join(...);
              e.reason on a caught UnicodeEncodeError;  f-strings of str-valued fields;  [] and [e, ...];  the dict
              literals of the two record shapes and {}.

Exceptions are values (LoaderRt.outcome): IndexError of a subscript, KeyError,
ValueError of float() / int(), ZeroDivisionError, UnicodeEncodeError of encode,
IOError of open, and UnboundLocalError for a local that NO statement can ever bind
(every assignment to it reads it first); `except` clauses catch by Python's class
hierarchy (LoaderRt.rt_isa).  A function returns `Done (out parameters..., result)`
or `Fail e`; the out parameters (SPECS) are the arguments the function mutates.

What the translation does NOT model / trusts: decoding and line splitting of a file
(the oracle gives the list of lines the iteration yields, None = open raises IOError;
a decoding error in the middle of a file is an error at open); the bytes encode()
returns; everything written to stderr, including the evaluation of the arguments of
those print calls (`line.encode('utf-8').hex()` is assumed not to raise for a line the
ruleset encoding could encode); object identity (a mutable value has one name at a
time: storing a variable in a container moves it, a second name for a mutable value
is refused unless it is an alias of a record field as above); closing of files;
termination of `while` (fuel argument, LoaderGenProofs.v shows it is never exhausted);
rebinding of the translated functions from another module.
"""
import ast
import hashlib
import os
import re
import sys

HERE = os.path.dirname(os.path.abspath(__file__))
if HERE not in sys.path:
    sys.path.insert(0, HERE)
import common  # noqa: E402

OUT = os.path.join("gen", "Loader_gen.v")

# ------------------------------------------------------------------ types
STR, INT, FLOAT, BOOL, NONE, FILE, EXN, ITEM, BASE, ANY = \
    "str", "int", "float", "bool", "None", "file", "exn", "item", "base", "any"


TVARS = {}


class TVar:
    """an element type not known yet (x = [] / x = {}), fixed by the first use"""
    n = 0

    def __init__(self):
        TVar.n += 1
        self.id = TVar.n
        self.ref = None
        TVARS[self.id] = self


def LIST(t):
    return ("list", t)


def DICT(k, v):
    return ("dict", k, v)


def resolve(t):
    while isinstance(t, TVar) and t.ref is not None:
        t = t.ref
    if isinstance(t, tuple):
        return (t[0],) + tuple(resolve(x) for x in t[1:])
    return t


def unify(a, b):
    """-> True when a and b can be the same type (binding type variables)"""
    a, b = resolve(a), resolve(b)
    if a is b or a == b:
        return True
    if a == ANY or b == ANY:
        return True
    if isinstance(a, TVar):
        a.ref = b
        return True
    if isinstance(b, TVar):
        b.ref = a
        return True
    if isinstance(a, tuple) and isinstance(b, tuple) and a[0] == b[0] and len(a) == len(b):
        return all(unify(x, y) for x, y in zip(a[1:], b[1:]))
    return False


def is_mutable(t):
    t = resolve(t)
    return t in (ITEM, BASE, FILE) or isinstance(t, tuple) or isinstance(t, TVar)


RECORDS = {
    ITEM: {"values": ("it_values", LIST(STR), "upd_values"), "prob": ("it_prob", FLOAT, "upd_prob")},
    BASE: {"prob": ("bs_prob", FLOAT, "upd_bprob"), "replacements": ("bs_repl", LIST(STR), "upd_repl")},
}


def coq_type(t):
    t = resolve(t)
    if isinstance(t, TVar):
        return "\x00T%d\x00" % t.id
    if isinstance(t, tuple):
        if t[0] == "list":
            return "list %s" % _paren(coq_type(t[1]))
        if t[0] == "dict":
            return "list (%s * %s)" % (coq_type(t[1]), coq_type(t[2]))
    return {STR: "pstr", INT: "Z", FLOAT: "F fo", BOOL: "bool", NONE: "unit", FILE: "rt_file", EXN: "pyexn",
            ITEM: "rt_item (F fo)", BASE: "rt_base (F fo)"}[t]


def eqb_of(t, node_fail):
    t = resolve(t)
    if t == STR:
        return "str_eqb"
    if t == INT:
        return "Z.eqb"
    node_fail("dict keys of type %s" % (t,))


SPECS = [
    dict(source="lib_guesser/grammar_io.py", py="_load_from_file", coq="py_load_from_file",
         params=[LIST(ITEM), STR, STR], out=[0], ret=BOOL),
    # fuel=True: the generated function always has the fuel argument (the loop that inserts C<n> is a
    # `while` today; written as a `for` it needs none, and the signature must not depend on that)
    dict(source="lib_guesser/grammar_io.py", py="_load_base_structures", coq="py_load_base_structures",
         params=[LIST(BASE), STR, BOOL, STR], out=[0], ret=BOOL, fuel=True),
    dict(source="lib_scorer/grammar_io.py", py="_load_from_file", coq="py_scorer_load_from_file",
         params=[DICT(STR, FLOAT), STR, STR], out=[0], ret=BOOL),
    dict(source="lib_guesser/grammar_io.py", py="load_omen_keyspace", coq="py_load_omen_keyspace",
         params=[STR, STR], out=[], ret=DICT(INT, INT), defaults={1: "utf-8"}),
]

EXC_CLASSES = {
    "Exception": "CException", "IOError": "CIOError", "OSError": "CIOError", "EnvironmentError": "CIOError",
    "LookupError": "CLookupError", "IndexError": "CIndexError", "KeyError": "CKeyError",
    "ValueError": "CValueError", "ArithmeticError": "CArithmeticError",
    "ZeroDivisionError": "CZeroDivisionError", "NameError": "CNameError",
    "UnboundLocalError": "CUnboundLocalError", "UnicodeError": "CUnicodeError",
    "UnicodeEncodeError": "CUnicodeEncodeError",
}
PURE_METHODS = {"rstrip", "lstrip", "strip", "split", "isalpha", "encode", "hex", "join", "format"}
MUTATING_METHODS = {"append", "insert", "seek"}


class TranslateError(Exception):
    pass


def _paren(t):
    t = t.strip()
    if t.startswith("(") and _balanced_outer(t):
        return t
    if t.startswith("[") and t.endswith("]") and "\n" not in t and t.count("[") == 1:
        return t
    if t.startswith("{|") and t.endswith("|}"):
        return t
    if all(c.isalnum() or c in "_'." for c in t):
        return t
    return "(" + t + ")"


def _balanced_outer(t):
    depth = 0
    for i, c in enumerate(t):
        if c == "(":
            depth += 1
        elif c == ")":
            depth -= 1
            if depth == 0 and i != len(t) - 1:
                return False
    return depth == 0 and t.endswith(")")


def _close(text, suffix):
    """append suffix to the code of the last line of text (before its trailing comment)"""
    text = text.rstrip("\n")
    head, _, last = text.rpartition("\n")
    m = re.search(r"\s+\(\* \d+: .* \*\)$", last)
    if m:
        last = last[:m.start()] + suffix + last[m.start():]
    else:
        last = last + suffix
    return (head + "\n" if head else "") + last + "\n"


def _comment(s):
    return s.replace("(*", "( *").replace("*)", "* )").replace('"', "'")


def cstr(s):
    if not s:
        return "(@nil N)"
    return "[%s]%%N" % "; ".join(str(ord(c)) for c in s)


def cint(n):
    return "%d%%Z" % n if n >= 0 else "(%d)%%Z" % n


def v_(name):
    return "v_" + name


class Env:
    """what is known at a program point"""

    def __init__(self):
        self.types = {}      # name -> type of the definitely bound locals
        self.alias = {}      # name -> (base variable, record type, key): the name stands for base[key]

    def copy(self):
        e = Env()
        e.types = dict(self.types)
        e.alias = dict(self.alias)
        return e

    def kill(self, name):
        """the variable is rebound or moved: aliases into it die"""
        for a, (b, _, _) in list(self.alias.items()):
            if b == name:
                del self.alias[a]
        self.alias.pop(name, None)


class K:
    """the context of a block: what falling off its end, continue, break, return e and an
    exception become; `states` are the variables carried by the enclosing joins / loops / try
    blocks (such a variable cannot be moved into a container)"""

    def __init__(self, fall, cont, brk, ret, exc, states=(), seek_brk=None, frozen=(), in_try=False, outer=()):
        self.fall, self.cont, self.brk, self.ret, self.exc = fall, cont, brk, ret, exc
        self.in_try = in_try
        self.outer = frozenset(outer)   # inside a loop body: the variables bound when the loop was entered
        self.states = tuple(states)
        self.seek_brk = seek_brk        # (file variable, text generator) inside a loop over a file
        self.frozen = tuple(frozen)     # containers iterated by an enclosing loop: not to be touched

    def derive(self, **kw):
        d = dict(fall=self.fall, cont=self.cont, brk=self.brk, ret=self.ret, exc=self.exc,
                 states=self.states, seek_brk=self.seek_brk, frozen=self.frozen, in_try=self.in_try, outer=self.outer)
        d.update(kw)
        return K(**d)


class FunctionTranslator:
    def __init__(self, path, fn, spec):
        self.path, self.fn, self.spec = path, fn, spec
        self.uid = 0
        self.uses_fuel = bool(spec.get("fuel")) or any(isinstance(n, ast.While) for n in ast.walk(fn))
        self.context_used = set()

    # -------------------------------------------------------------- errors / names
    def fail(self, node, msg):
        raise TranslateError("%s:%d: %s: %s  [%s]" % (
            self.path, getattr(node, "lineno", self.fn.lineno), self.fn.name, msg,
            _comment(ast.unparse(node)).split("\n")[0][:100]))

    def fresh(self, prefix="t"):
        self.uid += 1
        return "%s%d" % (prefix, self.uid)

    def check_name(self, node, name):
        if not name.isidentifier() or not name.isascii():
            self.fail(node, "unsupported variable name %r" % name)

    # -------------------------------------------------------------- pre-pass
    def scan(self):
        fn = self.fn
        a = fn.args
        if fn.decorator_list or a.vararg or a.kwarg or a.kwonlyargs or a.posonlyargs or a.kw_defaults:
            self.fail(fn, "unsupported signature")
        if any(x.annotation is not None for x in a.args) or fn.returns is not None:
            self.fail(fn, "annotations are not supported")
        if len(a.args) != len(self.spec["params"]):
            self.fail(fn, "%d parameters, the translator knows %d" % (len(a.args), len(self.spec["params"])))
        self.params = [x.arg for x in a.args]
        if len(set(self.params)) != len(self.params):
            self.fail(fn, "duplicate parameter")
        defaults = {}
        for i, d in zip(range(len(a.args) - len(a.defaults), len(a.args)), a.defaults):
            if not (isinstance(d, ast.Constant) and type(d.value) is str):
                self.fail(fn, "unsupported default value")
            defaults[i] = d.value
        if defaults != self.spec.get("defaults", {}):
            self.fail(fn, "defaults are %r, the translator knows %r" % (defaults, self.spec.get("defaults", {})))
        for n in self.params:
            self.check_name(fn, n)
        # the Python locals: every name bound somewhere in the function
        binders = {}       # name -> list of binding nodes

        def bind(name, node):
            binders.setdefault(name, []).append(node)

        def target(t, node):
            if isinstance(t, ast.Name):
                bind(t.id, node)
            elif isinstance(t, (ast.Tuple, ast.List)):
                for x in t.elts:
                    target(x, node)
            elif isinstance(t, ast.Starred):
                target(t.value, node)

        for n in ast.walk(fn):
            if n is fn:
                continue
            if isinstance(n, (ast.FunctionDef, ast.AsyncFunctionDef, ast.ClassDef, ast.Lambda, ast.ListComp, ast.SetComp,
                              ast.DictComp, ast.GeneratorExp, ast.Global, ast.Nonlocal, ast.Import, ast.ImportFrom,
                              ast.NamedExpr, ast.Delete, ast.AsyncFor, ast.AsyncWith, ast.Await, ast.Yield,
                              ast.YieldFrom, ast.Starred, ast.AnnAssign, ast.Assert)):
                self.fail(n, "unsupported construct (%s)" % type(n).__name__)
            if hasattr(ast, "Match") and isinstance(n, ast.Match):
                self.fail(n, "unsupported construct (match)")
            if isinstance(n, ast.Assign):
                for t in n.targets:
                    target(t, n)
            elif isinstance(n, ast.AugAssign):
                target(n.target, n)
            elif isinstance(n, ast.For):
                target(n.target, n)
            elif isinstance(n, ast.With):
                for it in n.items:
                    if it.optional_vars is not None:
                        target(it.optional_vars, n)
            elif isinstance(n, ast.ExceptHandler) and n.name:
                bind(n.name, n)
        for n in self.params:
            bind(n, fn)
        self.locals = set(binders)
        # a local that no statement can ever bind: every binder is `x = e` / `x op= e` whose
        # right-hand side always reads x first (so it raises UnboundLocalError while x is unbound,
        # and x stays unbound: by induction over the execution x is never bound)
        self.never_bound = set()
        for name, nodes in binders.items():
            if name in self.params:
                continue
            ok = True
            for n in nodes:
                if isinstance(n, ast.AugAssign) and isinstance(n.target, ast.Name):
                    continue
                if isinstance(n, ast.Assign) and len(n.targets) == 1 and isinstance(n.targets[0], ast.Name) \
                        and self.always_reads(n.value, name):
                    continue
                ok = False
            if ok:
                self.never_bound.add(name)

    def always_reads(self, e, name):
        """evaluating e always evaluates a load of `name` (no short circuit in between)"""
        if isinstance(e, ast.Name):
            return e.id == name
        if isinstance(e, ast.BinOp):
            return self.always_reads(e.left, name) or self.always_reads(e.right, name)
        if isinstance(e, ast.UnaryOp):
            return self.always_reads(e.operand, name)
        if isinstance(e, ast.Compare):
            return self.always_reads(e.left, name) or self.always_reads(e.comparators[0], name)
        if isinstance(e, ast.Call):
            return self.always_reads(e.func, name) or any(self.always_reads(x, name) for x in e.args)
        if isinstance(e, ast.Subscript):
            return self.always_reads(e.value, name) or self.always_reads(e.slice, name)
        if isinstance(e, ast.Attribute):
            return self.always_reads(e.value, name)
        if isinstance(e, ast.BoolOp):
            return self.always_reads(e.values[0], name)
        if isinstance(e, ast.IfExp):
            return self.always_reads(e.test, name)
        if isinstance(e, (ast.Tuple, ast.List)):
            return any(self.always_reads(x, name) for x in e.elts)
        return False

    @staticmethod
    def root_of(t):
        """the variable a subscript / attribute chain is rooted at, or None"""
        while isinstance(t, (ast.Subscript, ast.Attribute)):
            t = t.value
        return t.id if isinstance(t, ast.Name) else None

    def assigned(self, stmts, env):
        """names (re)bound or mutated somewhere in stmts (aliases followed to their base), in
        order of first occurrence"""
        out = []
        alias = {a: b for a, (b, _, _) in env.alias.items()}
        for s in stmts:
            for n in ast.walk(s):
                if isinstance(n, ast.Assign) and len(n.targets) == 1 and isinstance(n.targets[0], ast.Name) \
                        and isinstance(n.value, ast.Subscript) and self.root_of(n.value):
                    alias.setdefault(n.targets[0].id, self.root_of(n.value))

        def add(name):
            seen = set()
            while name is not None and name not in seen:
                seen.add(name)
                if name not in out:
                    out.append(name)
                name = alias.get(name)

        def target(t):
            if isinstance(t, ast.Name):
                add(t.id)
            elif isinstance(t, (ast.Subscript, ast.Attribute)):
                add(self.root_of(t))
            elif isinstance(t, (ast.Tuple, ast.List)):
                for x in t.elts:
                    target(x)

        for s in stmts:
            for n in ast.walk(s):
                if isinstance(n, ast.Assign):
                    for t in n.targets:
                        target(t)
                elif isinstance(n, ast.AugAssign):
                    target(n.target)
                elif isinstance(n, ast.For):
                    target(n.target)
                    if isinstance(n.iter, ast.Name) and resolve(env.types.get(n.iter.id)) == FILE:
                        add(n.iter.id)
                elif isinstance(n, ast.With):
                    for it in n.items:
                        if it.optional_vars is not None:
                            target(it.optional_vars)
                elif isinstance(n, ast.ExceptHandler) and n.name:
                    add(n.name)
                elif isinstance(n, ast.Call) and isinstance(n.func, ast.Attribute) and n.func.attr not in PURE_METHODS:
                    r = self.root_of(n.func.value)
                    if r is not None and r in self.locals:
                        add(r)
        return out

    # -------------------------------------------------------------- expressions
    # expr -> (steps, text, type).  A step ("bind", name, outcome text) evaluates something that
    # can raise; ("fail", exception text) raises for sure.  The text is pure given the steps.

    def use(self, ctx):
        self.context_used.add(ctx)
        return ctx

    def expr(self, e, env):
        if isinstance(e, ast.Name):
            return self.name(e, env)
        if isinstance(e, ast.Constant):
            v = e.value
            if v is True:
                return [], "true", BOOL
            if v is False:
                return [], "false", BOOL
            if v is None:
                return [], "tt", NONE
            if type(v) is str:
                return [], cstr(v), STR
            if type(v) is int:
                return [], cint(v), INT
            if type(v) is float:
                return [], self.float_lit(e, v), FLOAT
            self.fail(e, "unsupported constant")
        if isinstance(e, ast.UnaryOp):
            if isinstance(e.op, ast.USub) and isinstance(e.operand, ast.Constant) and type(e.operand.value) in (int, float):
                v = -e.operand.value
                return ([], cint(v), INT) if type(v) is int else ([], self.float_lit(e, v), FLOAT)
            st, a, ta = self.expr(e.operand, env)
            if isinstance(e.op, ast.Not):
                if not unify(ta, BOOL):
                    self.fail(e, "`not` of a value of type %s (truthiness is supported on bool only)" % (resolve(ta),))
                return st, "negb %s" % _paren(a), BOOL
            if isinstance(e.op, ast.USub) and unify(ta, INT):
                return st, "Z.opp %s" % _paren(a), INT
            self.fail(e, "unsupported unary operator")
        if isinstance(e, ast.BoolOp):
            steps, parts = [], []
            for i, v in enumerate(e.values):
                st, t, ty = self.expr(v, env)
                if not unify(ty, BOOL):
                    self.fail(v, "`and` / `or` of a value of type %s" % (resolve(ty),))
                if i > 0 and st:
                    self.fail(v, "an operand of `and` / `or` after the first that can raise")
                steps += st
                parts.append(_paren(t))
            op = "andb" if isinstance(e.op, ast.And) else "orb"
            acc = parts[-1]
            for t in reversed(parts[:-1]):
                acc = "%s %s %s" % (op, t, _paren(acc))
            return steps, acc, BOOL
        if isinstance(e, ast.Compare):
            return self.compare(e, env)
        if isinstance(e, ast.BinOp):
            return self.binop(e, e.left, e.op, e.right, env)
        if isinstance(e, ast.Subscript):
            return self.subscript(e, env)
        if isinstance(e, ast.Attribute):
            if e.attr == "reason":
                st, a, ta = self.expr(e.value, env)
                if resolve(ta) != EXN:
                    self.fail(e, ".reason of a value that is not a caught exception")
                return st, "rt_reason %s" % _paren(a), STR
            self.fail(e, "unsupported attribute")
        if isinstance(e, ast.JoinedStr):
            # f'...{s}...' with str-valued fields and no conversion / format spec: concatenation
            steps, parts = [], []
            for v in e.values:
                if isinstance(v, ast.Constant) and type(v.value) is str:
                    if v.value:
                        parts.append(cstr(v.value))
                elif isinstance(v, ast.FormattedValue) and v.conversion == -1 and v.format_spec is None:
                    st, t, ty = self.expr(v.value, env)
                    if not unify(ty, STR):
                        self.fail(e, "an f-string field of type %s (str() of other types is not modelled)" % (resolve(ty),))
                    steps += st
                    parts.append(_paren(t))
                else:
                    self.fail(e, "unsupported f-string")
            if not parts:
                return steps, cstr(""), STR
            return steps, " ++ ".join(parts), STR
        if isinstance(e, ast.List):
            steps, parts, ty = [], [], TVar()
            for x in e.elts:
                st, t, tx = self.expr(x, env)
                if not unify(ty, tx):
                    self.fail(x, "list elements of different types")
                steps += st
                parts.append(t)
                self.move(x, env)
            if not parts:
                return steps, "(@nil %s)" % _paren(coq_type(ty)), LIST(ty)
            return steps, "[%s]" % "; ".join(parts), LIST(ty)
        if isinstance(e, ast.Dict):
            return self.dict_literal(e, env)
        if isinstance(e, ast.Call):
            return self.call(e, env)
        self.fail(e, "unsupported expression (%s)" % type(e).__name__)

    def float_lit(self, e, v):
        import math
        if v == 1.0:
            return "f_one fo"
        if v == -1.0:
            return "f_mone fo"
        if v == 0.0 and math.copysign(1.0, v) > 0:
            return "f_zero fo"
        self.fail(e, "float constants other than 1.0, -1.0, 0.0 are not supported")

    def name(self, e, env):
        n = e.id
        if n in env.alias:
            base, rec, key = env.alias[n]
            proj, ty, _ = RECORDS[rec][key]
            return [], "%s %s" % (proj, v_(base)), ty
        if n in env.types:
            return [], v_(n), env.types[n]
        if n in self.never_bound:
            return [("fail", "EUnbound")], "tt", ANY
        if n in self.locals:
            self.fail(e, "the local %r may be unbound here (not assigned on every path, or moved into a container)" % n)
        self.fail(e, "unsupported use of the global name %r" % n)

    def compare(self, e, env):
        if len(e.ops) != 1:
            self.fail(e, "chained comparison")
        s1, a, ta = self.expr(e.left, env)
        s2, b, tb = self.expr(e.comparators[0], env)
        op = type(e.ops[0])
        a, b = _paren(a), _paren(b)
        if op in (ast.In, ast.NotIn):
            if not (unify(ta, STR) and unify(tb, LIST(STR))):
                self.fail(e, "`in` is supported for a str in a list of str only")
            t = "rt_in %s %s" % (a, b)
            return s1 + s2, t if op is ast.In else "negb (%s)" % t, BOOL
        if not unify(ta, tb):
            self.fail(e, "comparison of %s with %s" % (resolve(ta), resolve(tb)))
        ty = resolve(ta) if resolve(ta) != ANY else resolve(tb)
        if op in (ast.Eq, ast.NotEq):
            f = {STR: "str_eqb", INT: "Z.eqb", FLOAT: "f_eqb fo", BOOL: "Bool.eqb"}.get(ty)
            if f is None:
                self.fail(e, "== on values of type %s" % (ty,))
            t = "%s %s %s" % (f, a, b)
            return s1 + s2, t if op is ast.Eq else "negb (%s)" % t, BOOL
        if ty != INT:
            self.fail(e, "ordering comparisons are supported on int only")
        table = {ast.Lt: "Z.ltb %s %s" % (a, b), ast.LtE: "Z.leb %s %s" % (a, b),
                 ast.Gt: "Z.ltb %s %s" % (b, a), ast.GtE: "Z.leb %s %s" % (b, a)}
        if op not in table:
            self.fail(e, "unsupported comparison operator")
        return s1 + s2, table[op], BOOL

    def binop(self, node, left, op, right, env, left_done=None):
        """left op right; left_done = (text, type) when the left operand is already evaluated"""
        if left_done is None:
            s1, a, ta = self.expr(left, env)
        else:
            s1, (a, ta) = [], left_done
        s2, b, tb = self.expr(right, env)
        ta, tb = resolve(ta), resolve(tb)
        if isinstance(ta, TVar) and not isinstance(tb, TVar) and not (isinstance(op, ast.Mult) and tb == INT):
            unify(ta, tb)
            ta = resolve(ta)
        if isinstance(tb, TVar) and not isinstance(ta, TVar) and not isinstance(op, ast.Mult):
            unify(tb, ta)
            tb = resolve(tb)
        if ta == ANY:
            ta = tb if not (isinstance(op, ast.Mult) and tb == INT) else ANY
        if tb == ANY:
            tb = ta
        a, b = _paren(a), _paren(b)
        steps = s1 + s2
        if (ta, tb) == (INT, INT):
            f = {ast.Add: "Z.add", ast.Sub: "Z.sub", ast.Mult: "Z.mul"}.get(type(op))
            if f is None:
                self.fail(node, "unsupported int operator")
            return steps, "%s %s %s" % (f, a, b), INT
        if (ta, tb) == (STR, STR) and isinstance(op, ast.Add):
            return steps, "%s ++ %s" % (a, b), STR
        if (ta, tb) == (STR, INT) and isinstance(op, ast.Mult):
            return steps, "rt_repeat %s %s" % (a, b), STR
        if (ta, tb) == (FLOAT, FLOAT):
            if isinstance(op, ast.Sub):
                return steps, "f_sub fo %s %s" % (a, b), FLOAT
            if isinstance(op, ast.Div):
                t = self.fresh()
                return steps + [("bind", t, "rt_fdiv fo %s %s" % (a, b))], t, FLOAT
            self.fail(node, "float arithmetic other than - and / is not supported")
        self.fail(node, "operator on %s and %s" % (ta, tb))

    def const_index(self, sl, env):
        st, i, ti = self.expr(sl, env)
        if not unify(ti, INT):
            self.fail(sl, "index of type %s" % (resolve(ti),))
        return st, i

    def subscript(self, e, env):
        s1, v, tv = self.expr(e.value, env)
        tv = resolve(tv)
        if isinstance(e.slice, ast.Slice):
            sl = e.slice
            if sl.step is not None:
                self.fail(e, "slice with a step")
            steps, bounds = list(s1), []
            for b in (sl.lower, sl.upper):
                if b is None:
                    bounds.append("None")
                else:
                    st, t = self.const_index(b, env)
                    steps += st
                    bounds.append("(Some %s)" % _paren(t))
            if not (tv == STR or (isinstance(tv, tuple) and tv[0] == "list")):
                self.fail(e, "slice of a value of type %s" % (tv,))
            return steps, "rt_slice %s %s %s" % (_paren(v), bounds[0], bounds[1]), tv
        if tv in RECORDS:
            if not (isinstance(e.slice, ast.Constant) and e.slice.value in RECORDS[tv]):
                self.fail(e, "unknown key of a %s record" % tv)
            proj, ty, _ = RECORDS[tv][e.slice.value]
            return s1, "%s %s" % (proj, _paren(v)), ty
        if tv == STR:
            st, i = self.const_index(e.slice, env)
            t = self.fresh()
            return s1 + st + [("bind", t, "rt_str_index %s %s" % (_paren(v), _paren(i)))], t, STR
        if isinstance(tv, tuple) and tv[0] == "list":
            st, i = self.const_index(e.slice, env)
            t = self.fresh()
            return s1 + st + [("bind", t, "rt_index %s %s" % (_paren(v), _paren(i)))], t, tv[1]
        if isinstance(tv, tuple) and tv[0] == "dict":
            st, kx, tk = self.expr(e.slice, env)
            if not unify(tk, tv[1]):
                self.fail(e, "dict key of type %s" % (resolve(tk),))
            t = self.fresh()
            eqb = eqb_of(tv[1], lambda m: self.fail(e, m))
            return s1 + st + [("bind", t, "rt_dget %s %s %s" % (eqb, _paren(kx), _paren(v)))], t, tv[2]
        self.fail(e, "subscript of a value of type %s" % (tv,))

    def dict_literal(self, e, env):
        if not e.keys:
            tk, tv = TVar(), TVar()
            return [], "(@nil (%s * %s))" % (coq_type(tk), coq_type(tv)), DICT(tk, tv)
        keys = []
        for k in e.keys:
            if not (isinstance(k, ast.Constant) and type(k.value) is str):
                self.fail(e, "unsupported dict literal")
            keys.append(k.value)
        rec = [r for r, f in RECORDS.items() if sorted(f) == sorted(keys)]
        if len(rec) != 1 or len(set(keys)) != len(keys):
            self.fail(e, "a dict literal must have exactly the keys of one of the known record shapes")
        rec = rec[0]
        steps, vals = [], {}
        for k, v in zip(keys, e.values):
            want = RECORDS[rec][k][1]
            if isinstance(v, ast.List) and not v.elts:
                t, ty, st = "(@nil %s)" % _paren(coq_type(want[1])), want, []
            else:
                st, t, ty = self.expr(v, env)
            if not unify(ty, want):
                self.fail(v, "value of key %r has type %s" % (k, resolve(ty)))
            steps += st
            vals[k] = t
            if isinstance(v, ast.Name) and v.id in env.types and is_mutable(env.types[v.id]):
                self.last_record_fields.append((v.id, rec, k))
            self.move(v, env)
        order = list(RECORDS[rec])
        return steps, "{| %s |}" % "; ".join("%s := %s" % (RECORDS[rec][k][0], vals[k]) for k in order), rec

    def is_attr_chain(self, f, names):
        """f is the attribute chain names[0].names[1]... of a global (not a local) name"""
        for n in reversed(names[1:]):
            if not (isinstance(f, ast.Attribute) and f.attr == n):
                return False
            f = f.value
        return isinstance(f, ast.Name) and f.id == names[0] and f.id not in self.locals

    def is_global(self, f, name):
        return isinstance(f, ast.Name) and f.id == name and name not in self.locals

    def call(self, e, env):
        f = e.func
        if e.keywords and not (self.is_global(f, "print") or self.is_attr_chain(f, ["codecs", "open"])):
            self.fail(e, "keyword arguments")
        if self.is_global(f, "len") and len(e.args) == 1:
            st, v, tv = self.expr(e.args[0], env)
            tv = resolve(tv)
            if not (tv == STR or (isinstance(tv, tuple))):
                self.fail(e, "len of a value of type %s" % (tv,))
            return st, "rt_len %s" % _paren(v), INT
        if (self.is_global(f, "float") or self.is_global(f, "int")) and len(e.args) == 1:
            st, v, tv = self.expr(e.args[0], env)
            if not unify(tv, STR):
                self.fail(e, "%s() of a value of type %s" % (f.id, resolve(tv)))
            t = self.fresh()
            if f.id == "float":
                return st + [("bind", t, "rt_float %s %s" % (self.use("pfloat"), _paren(v)))], t, FLOAT
            return st + [("bind", t, "rt_int %s %s" % (self.use("pint"), _paren(v)))], t, INT
        if self.is_attr_chain(f, ["os", "path", "join"]) and e.args:
            steps, parts = [], []
            for x in e.args:
                st, t, tx = self.expr(x, env)
                if not unify(tx, STR):
                    self.fail(x, "os.path.join of a value of type %s" % (resolve(tx),))
                steps += st
                parts.append(t)
            return steps, "%s [%s]" % (self.use("path_join"), "; ".join(parts)), STR
        if isinstance(f, ast.Attribute):
            m = f.attr
            if m in ("rstrip", "lstrip", "strip", "isalpha") and not e.args:
                st, v, tv = self.expr(f.value, env)
                if not unify(tv, STR):
                    self.fail(e, ".%s() of a value of type %s" % (m, resolve(tv)))
                v = _paren(v)
                if m == "isalpha":
                    return st, "rt_isalpha %s %s" % (self.use("isalpha"), v), BOOL
                ws = self.use("ws")
                text = {"rstrip": "rstrip %s %s" % (ws, v), "lstrip": "lstrip %s %s" % (ws, v),
                        "strip": "rstrip %s (lstrip %s %s)" % (ws, ws, v)}[m]
                return st, text, STR
            if m == "split" and len(e.args) == 1 and isinstance(e.args[0], ast.Constant) \
                    and type(e.args[0].value) is str and len(e.args[0].value) == 1:
                st, v, tv = self.expr(f.value, env)
                if not unify(tv, STR):
                    self.fail(e, ".split() of a value of type %s" % (resolve(tv),))
                return st, "split_on %d%%N %s" % (ord(e.args[0].value), _paren(v)), LIST(STR)
        self.fail(e, "unsupported call")

    def move(self, e, env):
        """a variable holding a mutable value is stored somewhere else: it is gone from here on"""
        if isinstance(e, ast.Name) and e.id in env.types and is_mutable(env.types[e.id]):
            if e.id in self.cur_states:
                self.fail(e, "%r is stored in a container while an enclosing loop / try / conditional carries it" % e.id)
            if e.id in self.cur_outer:
                self.fail(e, "%r, bound outside the loop, is stored in a container inside the loop (it would be shared)" % e.id)
            env.kill(e.id)
            del env.types[e.id]
            self.moved_log.append(e.id)
        elif isinstance(e, ast.Name) and e.id in env.alias:
            self.fail(e, "an alias is stored in a container")
        elif isinstance(e, (ast.Subscript, ast.Attribute)) and not isinstance(e, ast.Constant):
            r = self.root_of(e)
            # a part of a mutable value stored elsewhere would be shared
            if r is not None and isinstance(e, ast.Subscript):
                try:
                    _, _, ty = self.expr(e, env.copy())
                except TranslateError:
                    return
                if is_mutable(ty):
                    self.fail(e, "a mutable part of %r is stored in a second place" % r)

    # -------------------------------------------------------------- statements
    def note(self, s):
        return "(* %d: %s *)" % (s.lineno, _comment(ast.unparse(s).split("\n")[0])[:110])

    def line(self, ind, text, s=None):
        first = "  " * ind + text
        if s is None:
            return first + "\n"
        return first + " " * max(2, 72 - len(first)) + self.note(s) + "\n"

    def state(self, names, env):
        """-> (tuple text, binder text) of the variables a join / loop / handler carries"""
        if not names:
            return "tt", "(_ : unit)"
        tys = [coq_type(env.types[n]) for n in names]
        if len(names) == 1:
            return v_(names[0]), "(%s : %s)" % (v_(names[0]), tys[0])
        return ("(%s)" % ", ".join(v_(n) for n in names),
                "'((%s) : %s)" % (", ".join(v_(n) for n in names), " * ".join(_paren(t) for t in tys)))

    def check_state(self, node, names, before, now):
        for n in names:
            if n not in now.types:
                self.fail(node, "%r is moved or unbound on a path that must carry it on" % n)
            if not unify(before.types[n], now.types[n]):
                self.fail(node, "%r changes its type" % n)

    def after_join(self, env, names, stmts=None):
        """the environment around / after a compound statement that carries `names`: an alias
        into a variable survives mutation of that variable through the alias or a path, but
        not a rebinding of the variable or a direct store into one of its keys in `stmts`"""
        e = env.copy()
        rebound = set(names)
        if stmts is not None:
            rebound = set()
            for st in stmts:
                for n in ast.walk(st):
                    ts = []
                    if isinstance(n, ast.Assign):
                        ts = n.targets
                    elif isinstance(n, (ast.AugAssign, ast.For)):
                        ts = [n.target]
                    elif isinstance(n, ast.With):
                        ts = [i.optional_vars for i in n.items if i.optional_vars is not None]
                    elif isinstance(n, ast.ExceptHandler) and n.name:
                        rebound.add(n.name)
                    for t in ts:
                        if isinstance(t, ast.Name):
                            rebound.add(t.id)
                        else:
                            r = self.root_of(t)
                            if r is not None and r not in env.alias:
                                rebound.add(r)
        for n in names:
            if n in rebound:
                e.kill(n)
        return e

    def prune_moved(self, env, mark):
        """after a compound statement: a variable moved into a container on some path through it
        is gone on every path (it may be shared with the container)"""
        for n in self.moved_log[mark:]:
            if n in env.types:
                env.kill(n)
                del env.types[n]
        return env

    @staticmethod
    def terminates(stmts):
        if not stmts:
            return False
        s = stmts[-1]
        if isinstance(s, (ast.Return, ast.Continue, ast.Break, ast.Raise)):
            return True
        if isinstance(s, ast.If):
            return FunctionTranslator.terminates(s.body) and FunctionTranslator.terminates(s.orelse)
        if isinstance(s, ast.Try):
            return FunctionTranslator.terminates(s.body) and all(FunctionTranslator.terminates(h.body) for h in s.handlers)
        return False

    def with_steps(self, steps, env, k, ind, node, body):
        """the text: evaluate the steps (each may raise: handler of k), then body(ind, note)"""
        out, closers, note = "", 0, node
        for st in steps:
            if st[0] == "fail":
                out += self.line(ind, k.exc(env, st[1]), note)
                return _close(out, ")" * closers) if closers else out
            out += self.line(ind, "rt_bind (%s) (fun e => %s) (fun %s =>" % (st[2], k.exc(env, "e"), st[1]), note)
            closers, note = closers + 1, None
        out += body(ind, note)
        return _close(out, ")" * closers) if closers else out

    def block(self, stmts, env, k, ind):
        stmts = list(stmts)
        if not stmts:
            return k.fall(env, ind)
        s, rest = stmts[0], stmts[1:]
        self.cur_states = set(k.states)
        self.cur_frozen = set(k.frozen)
        self.cur_outer = set(k.outer)

        def after(env2, ind2):
            return self.block(rest, env2, k, ind2)

        if isinstance(s, ast.Expr) and isinstance(s.value, ast.Constant) and type(s.value.value) is str:
            return after(env, ind)
        if isinstance(s, ast.Pass):
            return after(env, ind)
        if isinstance(s, ast.Return):
            if s.value is None:
                steps, t, ty = [], "tt", NONE
            else:
                steps, t, ty = self.expr(s.value, env)
            return self.with_steps(steps, env, k, ind, s, lambda i, n: self.line(i, k.ret(env, t, ty, s), n))
        if isinstance(s, ast.Continue):
            if k.cont is None:
                self.fail(s, "continue outside a loop")
            return self.line(ind, k.cont(env, s), s)
        if isinstance(s, ast.Break):
            if k.brk is None:
                self.fail(s, "break outside a loop")
            return self.line(ind, k.brk(env, s), s)
        if isinstance(s, ast.Assign):
            return self.assign(s, env, k, ind, after)
        if isinstance(s, ast.AugAssign):
            return self.augassign(s, env, k, ind, after)
        if isinstance(s, ast.Expr):
            return self.effect(s, rest, env, k, ind, after)
        if isinstance(s, ast.If):
            return self.if_(s, rest, env, k, ind, after)
        if isinstance(s, ast.For):
            return self.for_(s, rest, env, k, ind, after)
        if isinstance(s, ast.While):
            return self.while_(s, rest, env, k, ind, after)
        if isinstance(s, ast.Try):
            return self.try_(s, rest, env, k, ind, after)
        if isinstance(s, ast.With):
            return self.with_(s, rest, env, k, ind, after)
        self.fail(s, "unsupported statement (%s)" % type(s).__name__)

    # ---- assignment
    def bind(self, node, name, ty, env):
        self.check_name(node, name)
        if name in self.params and self.params.index(name) in self.spec["out"]:
            self.fail(node, "the out parameter %r is rebound" % name)
        if name in env.types and not unify(env.types[name], ty):
            self.fail(node, "%r changes its type from %s to %s" % (name, resolve(env.types[name]), resolve(ty)))
        if name in self.cur_states and is_mutable(ty) and resolve(ty) != FILE and name in env.types:
            pass
        env.kill(name)
        env.types[name] = ty

    @staticmethod
    def is_fresh_value(v):
        return isinstance(v, (ast.List, ast.Dict, ast.Call, ast.BinOp, ast.Constant)) or \
            (isinstance(v, ast.Subscript) and isinstance(v.slice, ast.Slice))

    def assign(self, s, env, k, ind, after):
        if len(s.targets) != 1:
            self.fail(s, "multiple assignment targets")
        t, v = s.targets[0], s.value
        if isinstance(t, ast.Name):
            x = t.id
            # x = y['key'] with a list-valued key of a record: x is an alias of that part of y
            if isinstance(v, ast.Subscript) and isinstance(v.value, ast.Name) and isinstance(v.slice, ast.Constant) \
                    and v.value.id in env.types and resolve(env.types[v.value.id]) in RECORDS \
                    and v.slice.value in RECORDS[resolve(env.types[v.value.id])] \
                    and is_mutable(RECORDS[resolve(env.types[v.value.id])][v.slice.value][1]):
                if x in env.types:
                    self.fail(s, "the bound variable %r becomes an alias" % x)
                self.check_name(s, x)
                env.kill(x)
                env.alias[x] = (v.value.id, resolve(env.types[v.value.id]), v.slice.value)
                return self.line(ind, "(* %s is %s[%r] from here on *)" % (x, v.value.id, v.slice.value), s) + after(env, ind)
            self.last_record_fields = []
            steps, text, ty = self.expr(v, env)
            fields = self.last_record_fields if isinstance(v, ast.Dict) else []
            if resolve(ty) != ANY and is_mutable(ty) and not self.is_fresh_value(v):
                self.fail(s, "a second name for a mutable value (aliasing is not modelled)")
            if resolve(ty) in (EXN, FILE):
                self.fail(s, "a second name for a file / exception")

            def body(i, n):
                self.bind(s, x, ty, env)
                out = self.line(i, "let %s := %s in" % (v_(x), text), n)
                # x = {..., 'key': y, ...} with a list variable y: y and x['key'] are the same list from
                # here on, so y lives on as an alias of that part of x
                for var, rec, key in fields:
                    if var != x:
                        env.alias[var] = (x, rec, key)
                        out += self.line(i, "(* %s is %s[%r] from here on *)" % (var, x, key))
                return out + after(env, i)
            return self.with_steps(steps, env, k, ind, s, body)
        if isinstance(t, ast.Subscript) and isinstance(t.slice, ast.Slice):
            # a[...][:] = e : the content of the list is replaced in place (a copy of e)
            if t.slice.lower is not None or t.slice.upper is not None or t.slice.step is not None:
                self.fail(s, "slice assignment other than x[:] = e")
            steps, text, ty = self.expr(v, env)
            lt = self.type_of(t.value, env)
            if not (isinstance(lt, tuple) and lt[0] == "list") or not unify(lt, ty):
                self.fail(s, "x[:] = e with x of type %s and e of type %s" % (lt, resolve(ty)))
            if is_mutable(lt[1]):
                self.fail(s, "x[:] = e on a list of mutable elements (they would be shared)")
            s2, root, upd = self.upd(t.value, env, lambda old: "Done %s" % _paren(text), None, s)

            def body(i, n):
                return _close(self.line(i, "rt_bind (%s) (fun e => %s) (fun %s =>" % (upd, k.exc(env, "e"), v_(root)), n)
                              + after(env, i), ")")
            return self.with_steps(steps + s2, env, k, ind, s, body)
        if isinstance(t, ast.Subscript):
            steps, text, ty = self.expr(v, env)
            if resolve(ty) != ANY and is_mutable(ty) and not (self.is_fresh_value(v) or isinstance(v, ast.Name)):
                self.fail(s, "a mutable part of another value is stored (aliasing is not modelled)")
            # d[k] = e on a dict with computed keys
            tt = self.type_of(t.value, env)
            if isinstance(tt, tuple) and tt[0] == "dict":
                if not isinstance(t.value, ast.Name) or t.value.id not in env.types:
                    self.fail(s, "a dict store is supported on a variable only")
                d = t.value.id
                self.check_mutation_root(s, d)
                s2, kx, tk = self.expr(t.slice, env)
                if not unify(tk, tt[1]) or not unify(ty, tt[2]):
                    self.fail(s, "dict store of %s -> %s into %s" % (resolve(tk), resolve(ty), resolve(tt)))
                eqb = eqb_of(tt[1], lambda m: self.fail(s, m))

                def body(i, n):
                    self.move(v, env)
                    return self.line(i, "let %s := rt_dset %s %s %s %s in" % (v_(d), eqb, _paren(kx), _paren(text), v_(d)), n) \
                        + after(env, i)
                return self.with_steps(steps + s2, env, k, ind, s, body)
            # Python evaluates the right-hand side first, then the target's subscripts, then stores
            s2, root, upd = self.upd(t, env, lambda old: "Done %s" % _paren(text), ty, s)

            def body(i, n):
                self.move(v, env)
                env.kill(root)
                return _close(self.line(i, "rt_bind (%s) (fun e => %s) (fun %s =>" % (upd, k.exc(env, "e"), v_(root)), n)
                              + after(env, i), ")")
            return self.with_steps(steps + s2, env, k, ind, s, body)
        self.fail(s, "unsupported assignment target")

    def type_of(self, e, env):
        uid = self.uid
        _, _, ty = self.expr(e, env.copy())
        self.uid = uid
        return resolve(ty)

    def check_mutation_root(self, node, root):
        if root in self.params and self.params.index(root) not in self.spec["out"]:
            self.fail(node, "the parameter %r is mutated but SPECS does not list it as an out parameter" % root)
        if root in self.cur_frozen:
            self.fail(node, "%r is changed while a loop iterates over it" % root)

    def upd(self, t, env, inner, ty_new, node):
        """functional update along the path t (a chain of subscripts rooted at a variable or alias):
        -> (steps of the indices, root variable, outcome text of the new value of the root).
        inner(old text) is the outcome text of the new value at the end of the path."""
        if isinstance(t, ast.Name):
            if t.id in env.alias:
                base, rec, key = env.alias[t.id]
                _, fty, updf = RECORDS[rec][key]
                if ty_new is not None and not unify(fty, ty_new):
                    self.fail(node, "a value of type %s is stored where %s is expected" % (resolve(ty_new), resolve(fty)))
                self.check_mutation_root(node, base)
                tmp = self.fresh()
                return [], base, "%s %s (fun %s => %s)" % (updf, v_(base), tmp, inner(tmp))
            if t.id not in env.types:
                self.name(t, env)       # raises the right refusal
                self.fail(node, "update of a variable that is never bound")
            if ty_new is not None and not unify(env.types[t.id], ty_new):
                self.fail(node, "a value of type %s is stored where %s is expected" % (resolve(ty_new), resolve(env.types[t.id])))
            self.check_mutation_root(node, t.id)
            return [], t.id, inner(v_(t.id))
        if not isinstance(t, ast.Subscript):
            self.fail(node, "unsupported update path")
        ct = self.type_of(t.value, env)
        tmp = self.fresh()
        if ct in RECORDS:
            if not (isinstance(t.slice, ast.Constant) and t.slice.value in RECORDS[ct]):
                self.fail(node, "unknown key of a %s record" % ct)
            _, fty, updf = RECORDS[ct][t.slice.value]
            if ty_new is not None and not unify(fty, ty_new):
                self.fail(node, "a value of type %s is stored where %s is expected" % (resolve(ty_new), resolve(fty)))
            return self.upd(t.value, env, lambda old: "%s %s (fun %s => %s)" % (updf, old, tmp, inner(tmp)), None, node)
        if isinstance(ct, tuple) and ct[0] == "list":
            if isinstance(t.slice, ast.Slice):
                self.fail(node, "slice assignment")
            if ty_new is not None and not unify(ct[1], ty_new):
                self.fail(node, "a value of type %s is stored in a list of %s" % (resolve(ty_new), resolve(ct[1])))
            st, i = self.const_index(t.slice, env)
            s2, root, text = self.upd(t.value, env,
                                      lambda old: "upd_index %s %s (fun %s => %s)" % (old, _paren(i), tmp, inner(tmp)), None, node)
            return s2 + st, root, text
        self.fail(node, "update through a value of type %s" % (ct,))

    def augassign(self, s, env, k, ind, after):
        t = s.target
        if isinstance(t, ast.Name) and t.id not in env.alias:
            x = t.id
            s0, a, ta = self.name(t, env)
            steps, text, ty = self.binop(s, None, s.op, s.value, env, left_done=(a, ta))
            steps = s0 + steps
            if resolve(ta) != ANY and is_mutable(ta):
                self.fail(s, "augmented assignment to a mutable variable")

            def body(i, n):
                self.bind(s, x, ty, env)
                return self.line(i, "let %s := %s in" % (v_(x), text), n) + after(env, i)
            return self.with_steps(steps, env, k, ind, s, body)
        # path op= e: read, compute, write back
        old_ty = self.type_of(t, env)
        probe_steps, _, _ = self.expr(s.value, env.copy())
        if probe_steps:
            self.fail(s, "the right-hand side of an augmented store can raise (evaluation order)")

        def inner(old):
            st, text, ty = self.binop(s, None, s.op, s.value, env, left_done=(old, old_ty))
            if st:
                self.fail(s, "an augmented store whose operation can raise")
            if not unify(ty, old_ty):
                self.fail(s, "augmented store changes the type")
            return "Done %s" % _paren(text)
        s2, root, upd = self.upd(t, env, inner, None, s)

        def body(i, n):
            return _close(self.line(i, "rt_bind (%s) (fun e => %s) (fun %s =>" % (upd, k.exc(env, "e"), v_(root)), n)
                          + after(env, i), ")")
        return self.with_steps(s2, env, k, ind, s, body)

    # ---- expression statements
    def effect(self, s, rest, env, k, ind, after):
        c = s.value
        if not isinstance(c, ast.Call):
            self.fail(s, "unsupported expression statement")
        f = c.func
        if self.is_global(f, "print"):
            kw = {x.arg: x.value for x in c.keywords}
            if set(kw) != {"file"} or not self.is_attr_chain(kw["file"], ["sys", "stderr"]):
                self.fail(s, "print is supported with file=sys.stderr only (stdout is an output of the program)")
            for a in c.args:
                for m in ast.walk(a):
                    if isinstance(m, ast.Name) and m.id in self.locals and m.id not in env.types and m.id not in env.alias:
                        self.fail(s, "print mentions the local %r, which may be unbound here" % m.id)
            return self.line(ind, "(* stderr, not modelled *)", s) + after(env, ind)
        if not isinstance(f, ast.Attribute):
            self.fail(s, "unsupported call statement")
        if c.keywords:
            self.fail(s, "keyword arguments")
        m = f.attr
        if m == "encode" and len(c.args) == 1:
            s1, a, ta = self.expr(f.value, env)
            s2, b, tb = self.expr(c.args[0], env)
            if not (unify(ta, STR) and unify(tb, STR)):
                self.fail(s, "encode of %s with %s" % (resolve(ta), resolve(tb)))
            t = self.fresh()
            steps = s1 + s2 + [("bind", "_", "rt_encode %s %s %s" % (self.use("enc_err"), _paren(a), _paren(b)))]
            return self.with_steps(steps, env, k, ind, s, lambda i, n: after(env, i))
        if m == "seek" and isinstance(f.value, ast.Name):
            if not (len(c.args) == 1 and isinstance(c.args[0], ast.Constant) and c.args[0].value == 0
                    and type(c.args[0].value) is int):
                self.fail(s, "only seek(0) is supported")
            fv = f.value.id
            if k.seek_brk is not None and k.seek_brk[0] == fv:
                if not (len(rest) == 1 and isinstance(rest[0], ast.Break)):
                    self.fail(s, "inside a loop over the file, seek(0) is supported directly before `break` only")
                return self.line(ind, k.seek_brk[1](env, s), s) + self.line(ind, "(* break *)", rest[0])
            if resolve(env.types.get(fv)) != FILE:
                self.fail(s, "seek on something that is not an open file of this block")
            return self.line(ind, "let %s := rt_seek0 %s in" % (v_(fv), v_(fv)), s) + after(env, ind)
        if m in ("append", "insert"):
            nargs = 1 if m == "append" else 2
            if len(c.args) != nargs:
                self.fail(s, "%s takes %d argument(s)" % (m, nargs))
            lt = self.type_of(f.value, env)
            if not (isinstance(lt, tuple) and lt[0] == "list"):
                self.fail(s, ".%s on a value of type %s" % (m, lt))
            steps, x, tx = self.expr(c.args[-1], env)
            if not unify(lt[1], tx):
                self.fail(s, "%s of a %s to a list of %s" % (m, resolve(tx), resolve(lt[1])))
            if resolve(tx) != ANY and is_mutable(tx) and not (self.is_fresh_value(c.args[-1]) or isinstance(c.args[-1], ast.Name)):
                self.fail(s, "a mutable part of another value is stored (aliasing is not modelled)")
            if m == "insert":
                si, i = self.const_index(c.args[0], env)
                steps = si + steps
                inner = lambda old: "Done (rt_insert %s %s %s)" % (old, _paren(i), _paren(x))
            else:
                inner = lambda old: "Done (rt_append %s %s)" % (old, _paren(x))
            s2, root, upd = self.upd(f.value, env, inner, None, s)
            if steps and s2:
                self.fail(s, "both the argument and the path of the call can raise (evaluation order)")

            def body(i, n):
                self.move(c.args[-1], env)
                return _close(self.line(i, "rt_bind (%s) (fun e => %s) (fun %s =>" % (upd, k.exc(env, "e"), v_(root)), n)
                              + after(env, i), ")")
            return self.with_steps(steps + s2, env, k, ind, s, body)
        self.fail(s, "unsupported call statement")

    # ---- compound statements
    def if_(self, s, rest, env, k, ind, after):
        steps, c, tc = self.expr(s.test, env)
        if not unify(tc, BOOL):
            self.fail(s, "condition of type %s (truthiness is supported on bool only)" % (resolve(tc),))
        body, orelse = list(s.body), list(s.orelse)
        bt, et = self.terminates(body), self.terminates(orelse)
        hdr = ast.copy_location(ast.Expr(value=s.test), s)

        def emit(i, n):
            mark = len(self.moved_log)
            head = "  " * i + "if %s then" % c
            head = head + " " * max(2, 72 - len(head)) + "(* %d: if %s *)\n" % (s.lineno, _comment(ast.unparse(s.test))[:100])
            if not rest or bt or et:
                kk = k if not rest else k.derive(fall=after)
                return (head + self.block(body, env.copy(), kk, i + 1)
                        + self.line(i, "else") + self.block(orelse, env.copy(), kk, i + 1))
            names = [x for x in self.assigned(body + orelse, env) if x in env.types]
            tup, pat = self.state(names, env)
            kn = self.fresh("k")

            def fall(e2, i2):
                self.check_state(s, names, env, e2)
                return self.line(i2, "%s %s" % (kn, tup))
            kk = k.derive(fall=fall, states=k.states + tuple(names))
            out = self.line(i, "rt_join (fun %s =>" % kn)
            out += self.line(i + 1, "if %s then" % c, hdr)
            out += self.block(body, env.copy(), kk, i + 2)
            out += self.line(i + 1, "else")
            out += _close(self.block(orelse, env.copy(), kk, i + 2), ")")
            e3 = self.prune_moved(self.after_join(env, names, body + orelse), mark)
            out += self.line(i, "(fun %s =>" % pat)
            out += _close(after(e3, i), ")")
            return out
        return self.with_steps(steps, env, k, ind, None, emit)

    def loop_k(self, k, names, tup, env, node, ctor, extra_states=(), frozen=()):
        cont_t, brk_t, ret_t = ctor

        def fall(e2, i2):
            self.check_state(node, names, env, e2)
            return self.line(i2, "%s %s" % (cont_t, tup))

        def cont(e2, n):
            self.check_state(n, names, env, e2)
            return "%s %s" % (cont_t, tup)

        def brk(e2, n):
            self.check_state(n, names, env, e2)
            return "%s %s" % (brk_t, tup)
        return K(fall=fall, cont=cont, brk=brk,
                 ret=lambda e2, t, ty, n: "%s (%s)" % (ret_t, k.ret(e2, t, ty, n)),
                 exc=lambda e2, ex: "%s (%s)" % (ret_t, k.exc(e2, ex)),
                 states=k.states + tuple(names) + tuple(extra_states), frozen=k.frozen + tuple(frozen),
                 in_try=k.in_try, outer=set(env.types))

    def for_(self, s, rest, env, k, ind, after):
        if not isinstance(s.target, ast.Name):
            self.fail(s, "unsupported loop target")
        x = s.target.id
        mark = len(self.moved_log)
        self.check_name(s, x)
        if x in self.params:
            self.fail(s, "a parameter is the loop variable")
        it = s.iter
        names = [n for n in self.assigned(s.body, env) if n in env.types and n != x]
        hdr = ast.copy_location(ast.Expr(value=ast.Name(id="for %s in %s" % (x, ast.unparse(it)), ctx=ast.Load())), s)
        # ---- a loop over an open file
        if isinstance(it, ast.Name) and resolve(env.types.get(it.id)) == FILE:
            fv = it.id
            names = [n for n in names if n != fv]
            if x == fv:
                self.fail(s, "the file is the loop variable")
            tup, pat = self.state(names, env)
            inner = self.after_join(env, names, s.body)
            del inner.types[fv]
            inner.kill(x)
            inner.types[x] = STR
            bk = self.loop_k(k, names, tup, env, s, ("FCont", "FBrk false", "FRet"), extra_states=(x,))
            bk.seek_brk = (fv, lambda e2, n: "FBrk true %s" % tup)
            out = self.line(ind, "rt_for_file %s (fun %s %s =>" % (v_(fv), v_(x), pat), hdr)
            out += _close(self.block(s.body, inner, bk, ind + 2), ")")
            out += self.line(ind + 1, tup)
            e3 = self.after_join(env, names + [x], s.body)
            e3.types.pop(x, None)
            if s.orelse:
                kn = self.fresh("k")

                def fall(e2, i2):
                    self.check_state(s, names + [fv], env, e2)
                    return self.line(i2, "%s %s %s" % (kn, v_(fv), tup))
                ek = k.derive(fall=fall, states=k.states + tuple(names) + (fv,))
                out += self.line(ind + 1, "(fun %s %s %s =>" % ("(%s : rt_file)" % v_(fv), pat, kn))
                out += _close(self.block(s.orelse, self.prune_moved(e3.copy(), mark), ek, ind + 2), ")")
            else:
                out += self.line(ind + 1, "rt_no_else_file")
            out += self.line(ind, "(fun %s %s =>" % ("(%s : rt_file)" % v_(fv), pat))
            out += _close(after(self.prune_moved(e3, mark), ind), ")")
            return out
        # ---- a loop over a list / the characters of a str
        steps, l, tl = self.expr(it, env)
        tl = resolve(tl)
        if tl == STR:
            l, et = "rt_chars %s" % _paren(l), STR
        elif isinstance(tl, tuple) and tl[0] == "list":
            et = tl[1]
        else:
            self.fail(s, "loop over a value of type %s" % (tl,))
        roots = {m.id for m in ast.walk(it) if isinstance(m, ast.Name)}
        roots |= {env.alias[r][0] for r in roots if r in env.alias}
        if roots & set(names):
            self.fail(s, "the iterated value is assigned or mutated in the loop")
        tup, pat = self.state(names, env)
        inner = self.after_join(env, names, s.body)
        inner.kill(x)
        inner.types[x] = et
        e3 = self.after_join(env, names + [x], s.body)
        e3.types.pop(x, None)
        mut = is_mutable(et)
        if mut:
            # the elements are mutable: the body may change the element in place
            if not (isinstance(it, ast.Name) and it.id in env.types):
                self.fail(s, "a loop over mutable elements is supported on a list variable only")
            cv = it.id
            if s.orelse:
                self.fail(s, "for ... else over mutable elements")
            if k.in_try:
                self.fail(s, "a loop over mutable elements inside try")
            if cv in k.states:
                self.fail(s, "a loop over mutable elements of a list an enclosing block carries")
            self.check_mutation_root(s, cv)
            del inner.types[cv]
            full = "(%s, %s)" % (v_(x), tup)
            bk = self.loop_k(k, names, tup, env, s, ("LCont", "LBrk", "LRet"), extra_states=(x,), frozen=(cv,))

            def chk(e2, n):
                if x not in e2.types or not unify(e2.types[x], et):
                    self.fail(n, "the loop variable is rebound or moved inside a loop over mutable elements")
                self.check_state(n, names, env, e2)
            bk.fall = lambda e2, i2: (chk(e2, s), self.line(i2, "LCont %s" % full))[1]
            bk.cont = lambda e2, n: (chk(e2, n), "LCont %s" % full)[1]
            bk.brk = lambda e2, n: (chk(e2, n), "LBrk %s" % full)[1]
            bk.ret = lambda e2, t, ty, n: self.fail(n, "return inside a loop over mutable elements")

            def emit(i, n):
                out = self.line(i, "rt_for_mut (@nil %s) %s (fun %s %s =>" % (_paren(coq_type(et)), _paren(l), "(%s : %s)" % (v_(x), coq_type(et)), pat), hdr)
                out += _close(self.block(s.body, inner, bk, i + 2), ")")
                out += self.line(i + 1, tup)
                out += self.line(i, "(fun %s %s =>" % ("(%s : %s)" % (v_(cv), coq_type(tl)), pat))
                out += _close(after(self.prune_moved(e3, mark), i), ")")
                return out
            return self.with_steps(steps, env, k, ind, None, emit)
        bk = self.loop_k(k, names, tup, env, s, ("LCont", "LBrk", "LRet"), extra_states=(x,), frozen=tuple(roots))

        def emit(i, n):
            out = self.line(i, "rt_for %s (fun %s %s =>" % (_paren(l), "(%s : %s)" % (v_(x), coq_type(et)), pat), hdr)
            out += _close(self.block(s.body, inner, bk, i + 2), ")")
            out += self.line(i + 1, tup)
            if s.orelse:
                kn = self.fresh("k")

                def fall(e2, i2):
                    self.check_state(s, names, env, e2)
                    return self.line(i2, "%s %s" % (kn, tup))
                ek = k.derive(fall=fall, states=k.states + tuple(names))
                out += self.line(i + 1, "(fun %s %s =>" % (pat, kn))
                out += _close(self.block(s.orelse, self.prune_moved(e3.copy(), mark), ek, i + 2), ")")
            else:
                out += self.line(i + 1, "rt_no_else")
            out += self.line(i, "(fun %s =>" % pat)
            out += _close(after(self.prune_moved(e3, mark), i), ")")
            return out
        return self.with_steps(steps, env, k, ind, None, emit)

    def while_(self, s, rest, env, k, ind, after):
        mark = len(self.moved_log)
        names = [n for n in self.assigned(s.body, env) if n in env.types]
        tup, pat = self.state(names, env)
        inner = self.after_join(env, names, s.body)
        steps, c, tc = self.expr(s.test, inner)
        if steps:
            self.fail(s, "a `while` test that can raise")
        if not unify(tc, BOOL):
            self.fail(s, "condition of type %s" % (resolve(tc),))
        hdr = ast.copy_location(ast.Expr(value=ast.Name(id="while %s" % ast.unparse(s.test), ctx=ast.Load())), s)
        bk = self.loop_k(k, names, tup, env, s, ("LCont", "LBrk", "LRet"))
        out = self.line(ind, "rt_while fuel (fun %s => %s) (fun %s =>" % (pat, c, pat), hdr)
        out += _close(self.block(s.body, inner.copy(), bk, ind + 2), ")")
        out += self.line(ind + 1, tup)
        e3 = self.after_join(env, names, s.body)
        if s.orelse:
            kn = self.fresh("k")

            def fall(e2, i2):
                self.check_state(s, names, env, e2)
                return self.line(i2, "%s %s" % (kn, tup))
            ek = k.derive(fall=fall, states=k.states + tuple(names))
            out += self.line(ind + 1, "(fun %s %s =>" % (pat, kn))
            out += _close(self.block(s.orelse, self.prune_moved(e3.copy(), mark), ek, ind + 2), ")")
        else:
            out += self.line(ind + 1, "rt_no_else")
        out += self.line(ind, "(fun %s =>" % pat)
        out += _close(after(self.prune_moved(e3, mark), ind), ")")
        out += self.line(ind + 1, _paren(k.exc(env, "EOutOfFuel")))
        return out

    def try_(self, s, rest, env, k, ind, after):
        if s.orelse or s.finalbody or not s.handlers:
            self.fail(s, "try with else / finally / without except")
        mark = len(self.moved_log)
        names = [n for n in self.assigned(s.body, env) if n in env.types]
        tup, pat = self.state(names, env)
        hn = self.fresh("h")
        fallers = [list(s.body)] + [list(h.body) for h in s.handlers]
        nfall = sum(0 if self.terminates(b) else 1 for b in fallers)
        out = ""
        closer = ""
        if not rest:
            kk = k
        elif nfall <= 1:
            kk = k.derive(fall=after)
        else:
            allnames = [n for n in self.assigned([s], env) if n in env.types]
            jtup, jpat = self.state(allnames, env)
            kn = self.fresh("k")

            def jfall(e2, i2):
                self.check_state(s, allnames, env, e2)
                return self.line(i2, "%s %s" % (kn, jtup))
            kk = k.derive(fall=jfall, states=k.states + tuple(allnames))
            out += self.line(ind, "rt_join (fun %s =>" % kn)
        bk = kk.derive(exc=lambda e2, ex: (self.check_state(s, names, env, e2), "%s %s %s" % (hn, _paren(ex), tup))[1],
                       states=kk.states + tuple(names), in_try=True)
        body_text = self.block(s.body, env.copy(), bk, ind)
        # the handler chain (translated after the body: a variable the body moved into a container is gone here too)
        henv = self.prune_moved(self.after_join(env, names, s.body), mark)
        out += self.line(ind, "let %s := fun (e : pyexn) %s =>" % (hn, pat), ast.copy_location(ast.Expr(value=ast.Name(id="try / except", ctx=ast.Load())), s.handlers[0]))
        i = ind + 1
        for h in s.handlers:
            if h.type is None:
                self.fail(h, "bare except")
            classes = h.type.elts if isinstance(h.type, ast.Tuple) else [h.type]
            tests = []
            for c in classes:
                if not (isinstance(c, ast.Name) and c.id in EXC_CLASSES and c.id not in self.locals):
                    self.fail(h, "unsupported exception class")
                tests.append("rt_isa %s e" % EXC_CLASSES[c.id])
            test = tests[0] if len(tests) == 1 else " || ".join("(%s)" % t for t in tests)
            hdr = ast.copy_location(ast.Expr(value=ast.Name(id="except %s%s" % (ast.unparse(h.type), " as " + h.name if h.name else ""), ctx=ast.Load())), h)
            out += self.line(i, "if %s then" % test, hdr)
            he = henv.copy()
            if h.name:
                self.check_name(h, h.name)
                if h.name in he.types:
                    self.fail(h, "the exception variable %r is an existing variable" % h.name)
                he.types[h.name] = EXN
                out += self.line(i + 1, "let %s := e in" % v_(h.name))
            hk = kk.derive(states=kk.states + tuple(names))

            if h.name:
                base_fall = hk.fall

                def hfall(e2, i2, base_fall=base_fall, nm=h.name):
                    e2 = e2.copy()
                    e2.types.pop(nm, None)
                    return base_fall(e2, i2)
                hk = hk.derive(fall=hfall)
            out += self.block(h.body, he, hk, i + 1)
            out += self.line(i, "else")
        out += self.line(i, k.exc(henv, "e") + " in")
        out += body_text
        if rest and nfall > 1:
            out = _close(out, ")")
            e3 = self.prune_moved(self.after_join(env, allnames, [s]), mark)
            out += self.line(ind, "(fun %s =>" % jpat)
            out += _close(after(e3, ind), ")")
        return out

    def with_(self, s, rest, env, k, ind, after):
        if len(s.items) != 1 or not isinstance(s.items[0].optional_vars, ast.Name):
            self.fail(s, "unsupported with statement")
        c, fv = s.items[0].context_expr, s.items[0].optional_vars.id
        self.check_name(s, fv)
        if fv in env.types or fv in env.alias or fv in self.params:
            self.fail(s, "the file variable %r is an existing variable" % fv)
        if not isinstance(c, ast.Call):
            self.fail(s, "unsupported context manager")
        if self.is_attr_chain(c.func, ["codecs", "open"]):
            kw = {x.arg: x.value for x in c.keywords}
            if not (len(c.args) == 2 and isinstance(c.args[1], ast.Constant) and c.args[1].value == "r"
                    and (set(kw) == {"encoding"} or
                         (set(kw) == {"encoding", "errors"} and isinstance(kw["errors"], ast.Constant)
                          and type(kw["errors"].value) is str))):
                self.fail(s, "codecs.open is supported as codecs.open(name, 'r', encoding=e[, errors=<constant>]) only")
            errors = "(Some %s)" % _paren(cstr(kw["errors"].value)) if "errors" in kw else "None"
            s1, a, ta = self.expr(c.args[0], env)
            s2, b, tb = self.expr(kw["encoding"], env)
            if not (unify(ta, STR) and unify(tb, STR)):
                self.fail(s, "codecs.open of %s, %s" % (resolve(ta), resolve(tb)))
            steps, call = s1 + s2, "rt_open (%s %s %s %s)" % (self.use("codecs_open"), _paren(a), _paren(b), errors)
        elif self.is_global(c.func, "open"):
            if not (len(c.args) == 2 and isinstance(c.args[1], ast.Constant) and c.args[1].value == "r" and not c.keywords):
                self.fail(s, "open is supported as open(name, 'r') only")
            steps, a, ta = self.expr(c.args[0], env)
            if not unify(ta, STR):
                self.fail(s, "open of %s" % (resolve(ta),))
            call = "rt_open (%s %s)" % (self.use("builtin_open"), _paren(a))
        else:
            self.fail(s, "unsupported context manager")

        def emit(i, n):
            inner = env.copy()
            inner.types[fv] = FILE

            def fall(e2, i2):
                e2 = e2.copy()
                e2.types.pop(fv, None)        # the file is closed
                return after(e2, i2) if rest else k.fall(e2, i2)
            bk = k.derive(fall=fall)
            out = self.line(i, "rt_bind (%s) (fun e => %s) (fun %s =>" % (call, k.exc(env, "e"), v_(fv)), s)
            return _close(out + self.block(s.body, inner, bk, i), ")")
        return self.with_steps(steps, env, k, ind, None, emit)

    # -------------------------------------------------------------- function
    def translate(self):
        self.scan()
        fn, spec = self.fn, self.spec
        env = Env()
        for n, ty in zip(self.params, spec["params"]):
            env.types[n] = ty
        outs = [self.params[i] for i in spec["out"]]

        def ret(e2, text, ty, node):
            if not unify(ty, spec["ret"]):
                self.fail(node, "returns a value of type %s, the translator expects %s" % (resolve(ty), resolve(spec["ret"])))
            for o in outs:
                if o not in e2.types:
                    self.fail(node, "the out parameter %r is gone at a return" % o)
            return "Done (%s)" % ", ".join([v_(o) for o in outs] + [text]) if outs else "Done %s" % _paren(text)

        def fall(e2, i2):
            if resolve(spec["ret"]) != NONE:
                self.fail(fn, "the function can end without a return statement")
            return self.line(i2, ret(e2, "tt", NONE, fn))

        k = K(fall=fall, cont=None, brk=None, ret=ret, exc=lambda e2, ex: "Fail %s" % _paren(ex))
        self.cur_states, self.cur_frozen, self.cur_outer, self.moved_log = set(), set(), set(), []
        self.last_record_fields = []
        body = self.block(list(fn.body), env, k, 1)
        params = " ".join("(%s : %s)" % (v_(n), coq_type(t)) for n, t in zip(self.params, spec["params"]))
        rty = " * ".join([_paren(coq_type(spec["params"][i])) for i in spec["out"]] + [_paren(coq_type(spec["ret"]))])
        dump = ast.dump(fn, include_attributes=False)
        sha = hashlib.sha256(dump.encode("utf-8")).hexdigest()
        out = "(* %s  def %s  lines %d-%d\n   sha256 of ast.dump: %s%s *)\n" % (
            spec["source"], fn.name, fn.lineno, fn.end_lineno, sha,
            "\n   [fuel] bounds the iterations of `while` (no counterpart in Python)" if self.uses_fuel else "")
        out += "Definition %s %s%s : outcome (%s) :=\n" % (spec["coq"], "(fuel : nat) " if self.uses_fuel else "", params, rty)
        out += _close(body, ".")
        return out


def _subst_tvars(text, where):
    def sub(m):
        t = resolve(TVARS[int(m.group(1))])
        if isinstance(t, TVar):
            raise TranslateError("%s: the element type of an empty list / dict literal is never fixed" % where)
        return coq_type(t)
    for _ in range(10):
        new = re.sub("\x00T(\\d+)\x00", sub, text)
        if new == text:
            return text
        text = new
    raise TranslateError("%s: cyclic element type" % where)


MODULES = ("os", "sys", "codecs")
BUILTINS = ("float", "int", "len", "open", "print") + tuple(EXC_CLASSES)

CONTEXT = [
    ("ws", "(ws : N -> bool)", "str.rstrip() / lstrip() / strip() remove the code points ws holds for"),
    ("isalpha", "(isalpha : N -> bool)", "str.isalpha() of one character"),
    ("pfloat", "(pfloat : pstr -> option (F fo))", "float(text); None = ValueError"),
    ("pint", "(pint : pstr -> option Z)", "int(text); None = ValueError"),
    ("enc_err", "(enc_err : pstr -> pstr -> option pstr)",
     "enc_err encoding line: None when line.encode(encoding) succeeds, Some reason when it raises UnicodeEncodeError"),
    ("codecs_open", "(codecs_open : pstr -> pstr -> option pstr -> option (list pstr))",
     "codecs.open(name, 'r', encoding=e[, errors=x]) (third argument: Some x / None): the lines the iteration yields; None = IOError"),
    ("builtin_open", "(builtin_open : pstr -> option (list pstr))", "open(name, 'r'): the lines; None = IOError"),
    ("path_join", "(path_join : list pstr -> pstr)", "os.path.join"),
]


def _module(repo, rel, cache):
    if rel in cache:
        return cache[rel]
    path = os.path.join(repo, rel)
    with open(path, encoding="utf-8", newline="") as f:
        src = f.read()
    tree = ast.parse(src, filename=path)
    defs = {}
    imported = set()
    for n in tree.body:
        if isinstance(n, (ast.FunctionDef, ast.AsyncFunctionDef, ast.ClassDef)):
            if n.name in defs:
                raise TranslateError("%s:%d: %s defined twice" % (path, n.lineno, n.name))
            defs[n.name] = n
        if isinstance(n, ast.Import):
            for a in n.names:
                if a.asname is None:
                    imported.add(a.name.split(".")[0])
                elif a.asname in MODULES:
                    raise TranslateError("%s:%d: %s is an alias of another module" % (path, n.lineno, a.asname))
        if isinstance(n, ast.ImportFrom):
            for a in n.names:
                if (a.asname or a.name) in MODULES + BUILTINS or a.name == "*":
                    raise TranslateError("%s:%d: from-import of %s" % (path, n.lineno, a.name))
    names = {s["py"] for s in SPECS if s["source"] == rel} | set(MODULES) | set(BUILTINS)
    # a rebinding of a translated function, of a module or of a builtin the translation gives a
    # meaning to would make the translated text not the code that runs
    for n in ast.walk(tree):
        targets = []
        if isinstance(n, (ast.Assign, ast.Delete)):
            targets = n.targets
        elif isinstance(n, (ast.AugAssign, ast.AnnAssign)):
            targets = [n.target]
        elif isinstance(n, (ast.Global, ast.Nonlocal)):
            if set(n.names) & names:
                raise TranslateError("%s:%d: global declaration of a name the translation relies on" % (path, n.lineno))
        elif isinstance(n, (ast.FunctionDef, ast.ClassDef)) and n.name in set(MODULES) | set(BUILTINS):
            raise TranslateError("%s:%d: %s is redefined" % (path, n.lineno, n.name))
        for t in targets:
            for m in ast.walk(t):
                if isinstance(m, ast.Name) and m.id in names and isinstance(m.ctx, (ast.Store, ast.Del)):
                    # a LOCAL of that name inside a function is caught by the function translator
                    if any(m in list(ast.walk(b)) for b in tree.body if not isinstance(b, (ast.FunctionDef, ast.ClassDef))):
                        raise TranslateError("%s:%d: %s is rebound" % (path, n.lineno, m.id))
                if isinstance(m, ast.Attribute) and m.attr in names and isinstance(m.ctx, (ast.Store, ast.Del)):
                    raise TranslateError("%s:%d: %s is rebound" % (path, n.lineno, ast.unparse(m)))
        if isinstance(n, ast.Name) and n.id in ("setattr", "delattr", "globals", "__builtins__", "exec", "eval"):
            raise TranslateError("%s:%d: %s is used in the module" % (path, n.lineno, n.id))
    cache[rel] = (path, defs, imported)
    return cache[rel]


def render(repo=None):
    """-> text of gen/Loader_gen.v for the sources of the current working tree"""
    repo = repo or common.REPO
    cache, parts, used = {}, [], set()
    for spec in SPECS:
        path, defs, imported = _module(repo, spec["source"], cache)
        fn = defs.get(spec["py"])
        if not isinstance(fn, ast.FunctionDef):
            raise TranslateError("%s: def %s not found at module level" % (path, spec["py"]))
        ft = FunctionTranslator(path, fn, spec)
        text = ft.translate()
        for m in MODULES:
            if any(isinstance(n, ast.Name) and n.id == m for n in ast.walk(fn)) and m not in imported:
                raise TranslateError("%s: %s uses %s, which the module does not import plainly" % (path, spec["py"], m))
        parts.append(_subst_tvars(text, "%s: %s" % (path, spec["py"])))
        used |= ft.context_used
    head = (
        "(* GENERATED by harness/translate_loader.py from the Python source of the current\n"
        "   working tree on every run of a check.  Do not edit.\n"
        "   Each definition is the line-by-line image of one Python function in the subset\n"
        "   documented in the translator; the numbers in the comments are source lines.\n"
        "   theories/LoaderGenProofs.v proves these definitions equal to the hand-written\n"
        "   models of theories/TextFile.v and theories/Loader.v. *)\n"
        "From Coq Require Import List ZArith NArith Bool.\n"
        "From Pcfg Require Import TextFile LoaderRt.\n"
        "Import ListNotations.\n\n"
        "Section Loader_gen.\n"
        "(* the float operations (LoaderRt.fops) *)\n"
        "Context (fo : fops).\n"
        "(* what the interpreter and the file system decide (see LoaderRt.v) *)\n")
    for name, decl, doc in CONTEXT:
        head += "Context %s.   (* %s *)\n" % (decl, doc)
    return head + "\n" + "\n".join(parts) + "\nEnd Loader_gen.\n"


def failure_text(err):
    """text written instead of the definitions when the translation fails: it must not
    compile, so that no stale generated definition survives"""
    return ("(* GENERATED by harness/translate_loader.py.  The translation of the current sources FAILED:\n"
            "   %s\n   The line below does not type-check on purpose. *)\n"
            "Definition loader_translation_failed : False := I.\n" % _comment(str(err)))


def write(repo=None):
    import extract_consts as X
    path = os.path.join(common.COQ, OUT)
    try:
        text = render(repo)
    except Exception as e:
        X.write(path, failure_text("%s: %s" % (type(e).__name__, e)))
        raise
    return X.write(path, text)


if __name__ == "__main__":
    if "--write" in sys.argv[1:]:
        print("written" if write() else "unchanged", os.path.join(common.COQ, OUT))
    else:
        sys.stdout.write(render())
