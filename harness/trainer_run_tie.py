"""Status of the translator tie of the trainer's pass orchestration (harness/translate_trainer_run.py), as
correspondence-style obligations of C19 / C06 / C05 / C03: gen/TrainerRun_gen.v must have been generated from
the current source and must compile, and the files with the equality proofs (generated run_trainer /
print_statistics / PCFGPasswordParser.__init__ / parse_command_line / main = the hand-written model of
TrainerRunModel.v, for every instantiation of the collaborators) and with the instance (the translated
run_trainer on the component models = Pipeline.train followed by the translated writers) must have been built by
`make` from the current generated text.  When one was not, it is compiled once more on its own to name the lemma
that no longer checks (the broken theorem a `no-failing-input-found` verdict names), or the construct the
translator refused."""
import omen_gen_tie

GEN = "gen/TrainerRun_gen.v"
PARTS = {
    "equalities": ("theories/TrainerRunGenProofs.v",
                   "translator-tie:translated run_trainer (three passes, what is reset between them, print_statistics -> "
                   "save_config_file -> save_omen_rules_to_disk -> save_pcfg_data), print_statistics (reads only), "
                   "PCFGPasswordParser.__init__ (the counters start empty), parse_command_line / main (options -> program_info, "
                   "coverage range) = the model TrainerRunModel.v for every collaborator (gen/TrainerRun_gen.v, TrainerRunGenProofs.v)"),
    "facts": ("theories/TrainerRunGenFacts.v",
              "translator-tie:the three passes fold over one sequence, the writers get the parser pass 2 produced "
              "(TrainerRunGenFacts.v over gen/TrainerRun_gen.v)"),
    "instance": ("theories/TrainerRunInst.v",
                 "translator-tie:translated run_trainer on the component models (Reader.read_text, Segment.train / parse, the "
                 "translated print_statistics / Markov block / save_pcfg_data) = Pipeline.train, then Pipeline.save on disk "
                 "(TrainerRunInst.v)"),
}


def obligations(parts=("equalities", "facts", "instance")):
    """-> [(name, ok, detail)] for the `corr` list of C19 / C06 / C05 / C03"""
    return [omen_gen_tie.status(PARTS[p][1], GEN, PARTS[p][0]) for p in parts]
