"""Status of the translator tie of the trainer's pass orchestration (harness/translate_trainer_run.py), as
correspondence-style obligations of C19 / C06 / C05 / C03: gen/TrainerRun_gen.v must have been generated from
the current source and must compile, and the files with the equality proofs (generated run_trainer /
print_statistics / PCFGPasswordParser.__init__ / parse_command_line / main = the hand-written model of
TrainerRunModel.v, for every instantiation of the collaborators) and with the instance (the translated
run_trainer on the component models = Pipeline.train followed by the translated writers) must have been built by
`make` from the current generated text.  When one was not, it is compiled once more on its own to name the lemma
that no longer checks (the broken theorem a `no-failing-input-found` verdict names), or the construct the
translator refused."""
import omen_gen_tie

GEN = "gen/TrainerRun_gen.v"
PARTS = {
    "equalities": ("theories/TrainerRunGenProofs.v",
                   "translator-tie:translated run_trainer / print_statistics / PCFGPasswordParser.__init__ / parse_command_line / "
                   "main = model TrainerRunModel.v (TrainerRunGenProofs.v)"),
    "facts": ("theories/TrainerRunGenFacts.v",
              "translator-tie:three passes over one sequence, writers get the parser of pass 2 (TrainerRunGenFacts.v)"),
    "instance": ("theories/TrainerRunInst.v",
                 "translator-tie:translated run_trainer on the component models = Pipeline.train + Pipeline.save on disk "
                 "(TrainerRunInst.v)"),
}


def obligations(parts=("equalities", "facts", "instance")):
    """-> [(name, ok, detail)] for the `corr` list of C19 / C06 / C05 / C03.  The files of "facts" and "instance"
    import the equalities: while those do not check they are not reported a second time."""
    out = []
    for p in parts:
        st = omen_gen_tie.status(PARTS[p][1], GEN, PARTS[p][0])
        out.append(st)
        if p == "equalities" and not st[1]:
            break
    return out
