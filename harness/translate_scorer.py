#!/venv/bin/python
"""Fail-closed translator of the scorer's parse from Python to Gallina.

    /venv/bin/python harness/translate_scorer.py            print the generated text
    /venv/bin/python harness/translate_scorer.py --write    write coq/gen/Scorer_gen.v

Source:  lib_scorer/pcfg_password_scorer.py  class PCFGPasswordScorer  parse
         (and, for the kinds of the tables only, the assignments of __init__)
Output:  coq/gen/Scorer_gen.v   `py_pcfg_scorer_parse`
         (model: theories/Scorer.v `score` over Segment.parse; property C13)

The source is only parsed (`ast`), never imported or executed.  The output targets
the runtime coq/theories/ScorerRt.v; coq/theories/ScorerGenProofs.v proves the
generated definition equal to the hand-written model the theorems of C13 are
about.  A change of parse() changes the generated text and the equality proofs
are re-checked against it on every run.  Comments, docstrings, blank lines and
formatting do not reach the output (except the source line numbers in the
comments of the generated text); local variable names are carried over and the
proofs do not depend on them.

Accepted subset (anything else raises TranslateError with file:line):

  signature   def parse(self, <one parameter>): no decorators, defaults,
              annotations.  The parameter is the password (a string).
  statements  a docstring; pass; x = e; a, b = f(..) (calls of the detectors
              only); x op= e for `*`, `+`, `-`; if / elif / else; for x in e /
              for a, b, c in zip(..) (no else, break, continue); try: .. except
              KeyError: .. (exactly this one handler, no name, else, finally; no
              detector call inside the try block); return (a, b, c, d).  Every
              path must end in `return`.
              Conditionals, loops and try statements that are followed by more
              statements pass on the variables they assign which have a value
              on every path ([Norm (v1, v2, ..)] / the state of [for_each]); a
              variable that has a value on some paths only (assigned in one
              branch, in a loop body, a loop variable after its loop, assigned in
              the try block but not in the handler) can not be read afterwards
              (Python would read a stale or unbound value there): refused.
  detectors   the functions lib_scorer/pcfg_password_scorer.py imports with
              `from <module> import <name> [as <alias>]` from lib_trainer:
              detect_keyboard_walk(password) -> (section_list, found, _);
              email_detection, website_detection, year_detection,
              context_sensitive_detection, digit_detection, other_detection
              (section_list); alpha_detection(section_list,
              self.multiword_detector); base_structure_creation(section_list).
              They are oracles (ScorerRt.detectors, instantiated with the models
              of Detect.v / Segment.v): a call may raise ([call]: OtherError,
              never caught) and the detectors that edit the section list in
              place REBIND the variable that was passed: `f(section_list)`
              becomes `bind (call (d_f D section_list)) (fun '(section_list,
              result) => ..`.  The section list is the only mutable object: it
              may be passed to a detector, iterated and measured, never
              assigned to another name, stored, or passed on while it is being
              iterated (aliasing is refused).
  expressions names; self.<table>, self.limit, self.multiword_detector,
              self.omen.max_omen_level; self.omen.parse(password) (an oracle:
              [omen_parse]); string constants; 0 / 0.0 / 1 / 1.0 where a
              probability is expected (p0 / p1), other ints as Z; len(e);
              t[n] for a table keyed by length (may raise KeyError:
              [getitem_len], evaluated before the statement it occurs in, in
              source order); c[k] for a Counter (0 for a missing key:
              [getitem_counter] / [getitem_bases]); x[0], x[1] on a section or a
              tuple of zip; x[1][0] on the label of a section (only to the
              right of `x[1] and`); `*` on probabilities, + and - on ints;
              comparisons (one operator): < > (pltb), <= >= (pleb), == != (peqb) on
              probabilities (the model has pltb only: the other two are
              uninterpreted, the theorems hold for every choice), all six
              on ints, == != on strings and characters, in / not in with a
              literal list or tuple of strings, and of a one-character constant
              with a string ('U' in mask: mem_c); not / and / or (truth value of
              a list or string: non-empty; of a label: not None; of an int:
              non-zero); a if c else b; zip of two or three lists or strings;
              [e for x in l if c] and the generator form (one `for`, any number
              of `if`s); ''.join(..) of a list of strings; c.upper() of a
              character of a string (the oracle upper_c); f(args) for a plain
              function f of the same module whose body is a docstring,
              assignments of such expressions to new local names and a final
              `return <expression>` (nothing that can raise): inlined as a
              beta-redex ((fun p q => ..) a b).
  tables      the kind of self.<table> is read from __init__: `{}` is a dict
              keyed by length whose values are Counters, `Counter()` a Counter
              (count_base_structures: keyed by base structures).

What the translation does NOT model (trusted): that the values grammar_io stores
under a length are Counters; the int / float distinction of 0 and 1 (`cur_prob =
0` is the float zero; the returned value prints as 0 rather than 0.0); exceptions
other than KeyError of the length tables and "a detector raised" (TypeError,
IndexError of the subscripts it accepts: x[1][0] is guarded syntactically,
x[0] / x[1] are applied to pairs and triples only); that a detector raises
something other than KeyError; the third value of detect_keyboard_walk (unit);
that the detectors and self.omen.parse keep no hidden state between calls and
do not touch the scorer object (the multi-word detector's state and the tables
are compared before and after every call by the check of C13); object
identity beyond the section list.  Rebinding of parse or of the detectors from
another module is out of the translator's sight.
"""
import ast
import os
import re
import sys

HERE = os.path.dirname(os.path.abspath(__file__))
if HERE not in sys.path:
    sys.path.insert(0, HERE)
import common  # noqa: E402
from translate_kernel import TranslateError, _paren, _close, _comment  # noqa: E402

SOURCE = "lib_scorer/pcfg_password_scorer.py"
CLASS = "PCFGPasswordScorer"
FUNC = "parse"
OUT = os.path.join("gen", "Scorer_gen.v")
COQ_NAME = "py_pcfg_scorer_parse"

# ------------------------------------------------------------------ types
STR, CHAR, PROB, INT, BOOL, BASE, MW, SELF, OMEN = "str", "char", "prob", "int", "bool", "base", "mw", "self", "omen"
LENTABLE, COUNTER, BASECOUNTER, OPAQUE, SEC, OLABEL, OSTR = "lentable", "counter", "basecounter", "opaque", "sec", "olabel", "ostr"


def LIST(t):
    return ("list", t)


def TUPLE(*ts):
    return ("tuple", tuple(ts))


STRS = LIST(STR)
SECS = LIST(SEC)

# self.<attr>: type and the kind of initialiser __init__ must give it
ATTRS = {
    "count_keyboard": (LENTABLE, "dict"),
    "count_years": (COUNTER, "counter"),
    "count_context_sensitive": (COUNTER, "counter"),
    "count_alpha": (LENTABLE, "dict"),
    "count_alpha_masks": (LENTABLE, "dict"),
    "count_digits": (LENTABLE, "dict"),
    "count_other": (LENTABLE, "dict"),
    "count_base_structures": (BASECOUNTER, "counter"),
    "multiword_detector": (MW, None),
    "limit": (PROB, None),
    "omen": (OMEN, None),
}
OMEN_ATTRS = {"max_omen_level": INT}

# (module, name) -> field of ScorerRt.detectors, argument types, index of the argument edited in place, result
DETECTORS = {
    ("lib_trainer.detection_rules.keyboard_walk", "detect_keyboard_walk"):
        ("d_detect_keyboard_walk", [STR], None, TUPLE(SECS, STRS, OPAQUE)),
    ("lib_trainer.detection_rules.email_detection", "email_detection"):
        ("d_email_detection", [SECS], 0, TUPLE(STRS, STRS)),
    ("lib_trainer.detection_rules.website_detection", "website_detection"):
        ("d_website_detection", [SECS], 0, TUPLE(STRS, STRS, LIST(OSTR))),
    ("lib_trainer.detection_rules.year_detection", "year_detection"):
        ("d_year_detection", [SECS], 0, STRS),
    ("lib_trainer.detection_rules.context_sensitive_detection", "context_sensitive_detection"):
        ("d_context_sensitive_detection", [SECS], 0, STRS),
    ("lib_trainer.detection_rules.alpha_detection", "alpha_detection"):
        ("d_alpha_detection", [SECS, MW], 0, TUPLE(STRS, STRS)),
    ("lib_trainer.detection_rules.digit_detection", "digit_detection"):
        ("d_digit_detection", [SECS], 0, STRS),
    ("lib_trainer.detection_rules.other_detection", "other_detection"):
        ("d_other_detection", [SECS], 0, STRS),
    ("lib_trainer.base_structure", "base_structure_creation"):
        ("d_base_structure_creation", [SECS], None, TUPLE(BOOL, BASE)),
}

RET = (STR, STR, PROB, INT)

BUILTINS_USED = {"len", "zip", "KeyError"}

RESERVED = set("""P pmul p0 p1 pltb pleb peqb upper_c D self tt true false fst snd length nth seq nil cons list nat bool unit O S pred fun
let in if then else match with end forall exists Type Prop Set as at return fix cofix struct where Definition Fixpoint
Section End Nat N Z Some None option hd tl last concat skipn firstn map rev app filter combine flat_map negb andb orb
str len slice sfrom sto getc str_eqb mem_str mem_c nonempty
exn KeyError OtherError out Norm Retn Exc bind try_keyerror for_each call res Ok Raise run_fn zip3 label_truth label_char0
omen_obj omen_parse max_omen_level scorer_obj count_keyboard count_years count_context_sensitive count_alpha
count_alpha_masks count_digits count_other count_base_structures multiword_detector limit omen rs_of getitem_len
getitem_counter getitem_bases detectors model_detectors""".split()) | {d[0] for d in DETECTORS.values()} | {COQ_NAME}


def is_mutable(ty):
    return ty == SECS


def cstr(s):
    return "[" + "; ".join("%d%%N" % ord(c) for c in s) + "]" if s else "(@nil N)"


class Env:
    def __init__(self):
        self.types = {}      # name -> type of the variables that can be read
        self.hints = {}      # name -> last type of a variable that can no longer be read (decides what `x = 0` means)

    def copy(self):
        e = Env()
        e.types = dict(self.types)
        e.hints = dict(self.hints)
        return e

    def drop(self, name):
        if name in self.types:
            self.hints[name] = self.types.pop(name)


class Tr:
    def __init__(self, path, fn, detectors, helpers=None):
        self.path, self.fn = path, fn
        self.detectors = detectors    # local name -> (coq field, arg types, mutated index, result type)
        self.helpers = helpers or {}  # name -> FunctionDef of a plain function of the module (inlined where called)
        self.inlining = []            # names of the helpers being inlined
        self.pending = []             # (monadic text, variable) of the statement being translated
        self.pure_only = 0            # > 0: inside an expression that may not raise (short circuit, comprehension)
        self.guards = []              # ast dumps of the operands of the enclosing `and`s seen so far
        self.iterating = []           # names of the lists being iterated
        self.in_try = 0
        self.tmp = 0

    # -------------------------------------------------------------- errors, names, text
    def fail(self, node, msg):
        raise TranslateError("%s:%d: %s.%s: %s  [%s]" % (
            self.path, getattr(node, "lineno", self.fn.lineno), CLASS, self.fn.name, msg,
            _comment(ast.unparse(node)).split("\n")[0][:100]))

    def check_name(self, node, name):
        if name in RESERVED or re.fullmatch(r"t\d+", name) or name in self.detectors or name in self.helpers \
                or name in BUILTINS_USED \
                or not name.isidentifier() or not name.isascii() or name.startswith("_") or "__" in name:
            self.fail(node, "the variable name %r collides with the generated code" % name)

    def note(self, s):
        return "(* %d: %s *)" % (s.lineno, _comment(ast.unparse(s).split("\n")[0]))

    def line(self, ind, text, s=None):
        pad = "  " * ind
        if s is None:
            return pad + text + "\n"
        first = pad + text
        return first + " " * max(2, 70 - len(first)) + self.note(s) + "\n"

    @staticmethod
    def tup(names):
        if not names:
            return "tt"
        if len(names) == 1:
            return names[0]
        return "(" + ", ".join(names) + ")"

    @staticmethod
    def pat(names):
        """binder of a `fun` for the tuple of names"""
        if not names:
            return "(_ : unit)"
        if len(names) == 1:
            return names[0]
        return "'(" + ", ".join(names) + ")"

    def fresh_tmp(self):
        self.tmp += 1
        return "t%d" % self.tmp

    # -------------------------------------------------------------- expressions
    def lookup(self, e, env, allow_mut=False):
        if e.id == "self":
            self.fail(e, "self is used as a value")
        if e.id not in env.types:
            self.fail(e, "unknown variable %r (not assigned on every path to here, a loop variable after its loop, "
                         "or assigned in a try block whose handler does not assign it)" % e.id)
        ty = env.types[e.id]
        if is_mutable(ty) and not allow_mut:
            self.fail(e, "the section list is used as a value (it may only be passed to a detector, iterated or measured: "
                         "aliasing a list that is edited in place is not modelled)")
        if ty == OPAQUE:
            self.fail(e, "%r holds a value the model does not have (the detected keyboards)" % e.id)
        return e.id, ty

    def const(self, e, want):
        v = e.value
        if type(v) is str:
            if want == CHAR:
                if len(v) != 1:
                    self.fail(e, "a character is compared with a string of length %d" % len(v))
                return "%d%%N" % ord(v), CHAR
            return cstr(v), STR
        if v is True:
            return "true", BOOL
        if v is False:
            return "false", BOOL
        if type(v) in (int, float):
            if want == PROB:
                if v == 0:
                    return "p0", PROB
                if v == 1:
                    return "p1", PROB
                self.fail(e, "only 0 and 1 are supported as probability constants")
            if type(v) is float:
                if want is None and v in (0.0, 1.0):
                    return ("p0" if v == 0 else "p1"), PROB
                self.fail(e, "unsupported float constant")
            if abs(v) > 10 ** 6:
                self.fail(e, "int constant too large")
            return ("%d" % v if v >= 0 else "(%d)" % v), INT
        self.fail(e, "unsupported constant")

    def attribute(self, e, env):
        if isinstance(e.value, ast.Name) and e.value.id == "self":
            if e.attr not in ATTRS:
                self.fail(e, "unknown attribute of the scorer object")
            return "%s self" % e.attr, ATTRS[e.attr][0]
        t, ty = self.expr(e.value, env)
        if ty == OMEN and e.attr in OMEN_ATTRS:
            return "%s %s" % (e.attr, _paren(t)), OMEN_ATTRS[e.attr]
        self.fail(e, "unsupported attribute")

    def elem_type(self, node, ty):
        if ty == STR:
            return CHAR
        if isinstance(ty, tuple) and ty[0] == "list":
            return ty[1]
        self.fail(node, "iteration over a %s" % (ty,))

    def iterable(self, e, env):
        """-> (text of a Coq list, element type)"""
        if isinstance(e, ast.Name):
            t, ty = self.lookup(e, env, allow_mut=True)
        else:
            t, ty = self.expr(e, env)
        return t, self.elem_type(e, ty)

    def call(self, e, env):
        f = e.func
        if e.keywords:
            self.fail(e, "keyword arguments are not supported")
        if any(isinstance(a, ast.Starred) for a in e.args):
            self.fail(e, "starred arguments are not supported")
        if isinstance(f, ast.Name):
            if f.id == "len" and len(e.args) == 1:
                a = e.args[0]
                t, ty = self.lookup(a, env, allow_mut=True) if isinstance(a, ast.Name) else self.expr(a, env)
                if ty == STR:
                    return "len %s" % _paren(t), INT
                if isinstance(ty, tuple) and ty[0] == "list":
                    return "Z.of_nat (length %s)" % _paren(t), INT
                self.fail(e, "len of a %s" % (ty,))
            if f.id == "zip" and len(e.args) in (2, 3):
                parts = [self.iterable(a, env) for a in e.args]
                texts = [_paren(p[0]) for p in parts]
                ty = LIST(TUPLE(*[p[1] for p in parts]))
                if len(parts) == 2:
                    return "combine %s %s" % tuple(texts), ty
                return "zip3 %s %s %s" % tuple(texts), ty
            if f.id in self.detectors:
                self.fail(e, "a detector is called inside an expression (only `x = f(..)`, `a, b = f(..)` and `f(..)` as "
                             "statements are supported)")
            if f.id in self.helpers:
                return self.helper_call(e, env)
            self.fail(e, "unsupported call")
        if isinstance(f, ast.Attribute):
            if f.attr == "join" and isinstance(f.value, ast.Constant) and f.value.value == "" and len(e.args) == 1:
                t, ty = self.expr(e.args[0], env)
                if ty != STRS:
                    self.fail(e, "''.join of a %s" % (ty,))
                return "concat %s" % _paren(t), STR
            if f.attr == "upper" and not e.args:
                t, ty = self.expr(f.value, env)
                if ty != CHAR:
                    self.fail(e, ".upper() is supported on a character of a string only")
                return "upper_c %s" % _paren(t), STR
            if f.attr == "parse" and len(e.args) == 1:
                t, ty = self.expr(f.value, env)
                if ty == OMEN:
                    a, ta = self.expr(e.args[0], env)
                    if ta != STR:
                        self.fail(e, "self.omen.parse of a %s" % (ta,))
                    return "omen_parse %s %s" % (_paren(t), _paren(a)), INT
        self.fail(e, "unsupported call")

    def helper_call(self, e, env):
        """f(args) for a plain function f of the same module whose body is a docstring, assignments of pure
        expressions to new local names and one final `return <expression>`: inlined as
        ((fun p1 p2 => let x := .. in result) arg1 arg2), the parameters typed by the arguments of this call"""
        fn = self.helpers[e.func.id]
        if fn.name in self.inlining:
            self.fail(e, "recursive helper")
        a = fn.args
        if fn.decorator_list or a.vararg or a.kwarg or a.kwonlyargs or a.posonlyargs or a.kw_defaults or a.defaults \
                or fn.returns is not None or any(x.annotation is not None for x in a.args):
            self.fail(e, "the helper %s has an unsupported signature" % fn.name)
        params = [x.arg for x in a.args]
        if len(params) != len(e.args) or len(set(params)) != len(params):
            self.fail(e, "%s takes %d parameters" % (fn.name, len(params)))
        args = [self.expr(x, env) for x in e.args]
        inner = Env()
        for p, (_, ty) in zip(params, args):
            self.check_name(fn, p)
            if ty in (OPAQUE, SELF, OMEN) or is_mutable(ty):
                self.fail(e, "a %s is passed to a helper" % (ty,))
            inner.types[p] = ty
        body = list(fn.body)
        while body and (isinstance(body[0], ast.Pass) or (isinstance(body[0], ast.Expr)
                                                          and isinstance(body[0].value, ast.Constant)
                                                          and type(body[0].value.value) is str)):
            body = body[1:]
        if not body or not isinstance(body[-1], ast.Return) or body[-1].value is None:
            self.fail(fn, "the helper %s does not end in `return <expression>`" % fn.name)
        for nd in ast.walk(fn):
            if isinstance(nd, (ast.Global, ast.Nonlocal, ast.FunctionDef, ast.AsyncFunctionDef, ast.ClassDef, ast.Lambda,
                               ast.Yield, ast.YieldFrom, ast.Await)) and nd is not fn:
                self.fail(nd, "unsupported construct in the helper %s" % fn.name)
        self.inlining.append(fn.name)
        self.pure_only += 1
        saved_guards, self.guards = self.guards, []
        try:
            lets = ""
            for s in body[:-1]:
                if not (isinstance(s, ast.Assign) and len(s.targets) == 1 and isinstance(s.targets[0], ast.Name)):
                    self.fail(s, "the helper %s is more than assignments to local names and a final return" % fn.name)
                n = s.targets[0].id
                self.check_name(s, n)
                if n in inner.types:
                    self.fail(s, "the helper %s assigns %r twice" % (fn.name, n))
                t, ty = self.expr(s.value, inner)
                if ty in (OPAQUE, SELF, OMEN, SEC) or is_mutable(ty):
                    self.fail(s, "a %s is assigned to a variable" % (ty,))
                inner.types[n] = ty
                lets += "let %s := %s in " % (n, t)
            t, ty = self.expr(body[-1].value, inner)
        finally:
            self.guards = saved_guards
            self.pure_only -= 1
            self.inlining.pop()
        if ty in (OPAQUE, SELF, OMEN, SEC) or is_mutable(ty):
            self.fail(fn, "the helper %s returns a %s" % (fn.name, ty))
        if not params:
            return "(%s%s)" % (lets, t), ty
        return "((fun %s => %s%s) %s)" % (" ".join(params), lets, t, " ".join(_paren(x[0]) for x in args)), ty

    def subscript(self, e, env):
        idx = e.slice
        if isinstance(idx, ast.Slice) or isinstance(idx, ast.Tuple):
            self.fail(e, "slices are not supported")
        # x[1][0]: first character of a label
        t, ty = self.expr(e.value, env)
        if ty == OLABEL:
            if not (isinstance(idx, ast.Constant) and idx.value == 0 and type(idx.value) is int):
                self.fail(e, "only [0] is supported on a label")
            if ast.dump(e.value) not in self.guards:
                self.fail(e, "x[1][0] is accepted only to the right of `x[1] and` (on None Python raises TypeError)")
            return "label_char0 %s" % _paren(t), CHAR
        if ty == SEC or (isinstance(ty, tuple) and ty[0] == "tuple"):
            if not (isinstance(idx, ast.Constant) and type(idx.value) is int):
                self.fail(e, "a tuple is indexed with something that is not a constant")
            comps = (STR, OLABEL) if ty == SEC else ty[1]
            k = idx.value
            if not 0 <= k < len(comps):
                self.fail(e, "tuple index out of range")
            if comps[k] == OPAQUE:
                self.fail(e, "a value the model does not have")
            txt = _paren(t)
            # (a, b, c) is ((a, b), c)
            for _ in range(len(comps) - 1 - k):
                txt = "(fst %s)" % txt
            if k > 0:
                txt = "(snd %s)" % txt
            return txt[1:-1] if txt.startswith("(") and len(comps) > 1 else txt, comps[k]
        if ty == LENTABLE:
            k, tk = self.expr(idx, env)
            if tk != INT:
                self.fail(e, "a table keyed by length is indexed with a %s" % (tk,))
            if self.pure_only:
                self.fail(e, "a subscript that can raise KeyError inside a short-circuit / conditional / comprehension")
            v = self.fresh_tmp()
            self.pending.append(("getitem_len %s %s" % (_paren(t), _paren(k)), v))
            return v, COUNTER
        if ty == COUNTER:
            k, tk = self.expr(idx, env)
            if tk != STR:
                self.fail(e, "a Counter of strings is indexed with a %s" % (tk,))
            return "getitem_counter p0 %s %s" % (_paren(t), _paren(k)), PROB
        if ty == BASECOUNTER:
            k, tk = self.expr(idx, env)
            if tk != BASE:
                self.fail(e, "count_base_structures is indexed with a %s" % (tk,))
            return "getitem_bases p0 %s %s" % (_paren(t), _paren(k)), PROB
        self.fail(e, "subscript of a %s" % (ty,))

    def two(self, node, a, b, env):
        """two operands in evaluation order; a numeric constant takes the type of the other side"""
        def isnum(x):
            return isinstance(x, ast.Constant) and type(x.value) in (int, float)

        def ischar_const(x):
            return isinstance(x, ast.Constant) and type(x.value) is str
        if isnum(a) and not isnum(b):
            tb, tyb = self.expr(b, env)
            ta, tya = self.expr(a, env, want=tyb)
            return ta, tya, tb, tyb
        if ischar_const(a) and not ischar_const(b):
            tb, tyb = self.expr(b, env)
            ta, tya = self.expr(a, env, want=tyb if tyb == CHAR else None)
            return ta, tya, tb, tyb
        ta, tya = self.expr(a, env)
        tb, tyb = self.expr(b, env, want=tya if (isnum(b) or (ischar_const(b) and tya == CHAR)) else None)
        return ta, tya, tb, tyb

    def compare(self, e, env):
        if len(e.ops) != 1 or len(e.comparators) != 1:
            self.fail(e, "chained comparison")
        op, right = e.ops[0], e.comparators[0]
        if isinstance(op, (ast.In, ast.NotIn)):
            if isinstance(e.left, ast.Constant) and type(e.left.value) is str and len(e.left.value) == 1 \
                    and not isinstance(right, (ast.List, ast.Tuple)):
                b, tb = self.expr(right, env)
                if tb != STR:
                    self.fail(e, "`'c' in x` is supported for a string x only")
                t = "mem_c %d%%N %s" % (ord(e.left.value), _paren(b))
                return (t if isinstance(op, ast.In) else "negb (%s)" % t), BOOL
            a, ta = self.expr(e.left, env)
            if ta != STR or not isinstance(right, (ast.List, ast.Tuple)) or not right.elts or \
                    not all(isinstance(x, ast.Constant) and type(x.value) is str for x in right.elts):
                self.fail(e, "`in` is supported for a string and a literal list of strings only")
            t = "mem_str %s [%s]" % (_paren(a), "; ".join(cstr(x.value) for x in right.elts))
            return (t if isinstance(op, ast.In) else "negb (%s)" % t), BOOL
        a, ta, b, tb = self.two(e, e.left, right, env)
        a, b = _paren(a), _paren(b)
        if (ta, tb) == (PROB, PROB):
            if isinstance(op, ast.Lt):
                return "pltb %s %s" % (a, b), BOOL
            if isinstance(op, ast.Gt):
                return "pltb %s %s" % (b, a), BOOL
            if isinstance(op, ast.LtE):
                return "pleb %s %s" % (a, b), BOOL
            if isinstance(op, ast.GtE):
                return "pleb %s %s" % (b, a), BOOL
            if isinstance(op, ast.Eq):
                return "peqb %s %s" % (a, b), BOOL
            if isinstance(op, ast.NotEq):
                return "negb (peqb %s %s)" % (a, b), BOOL
            self.fail(e, "unsupported comparison of probabilities")
        if (ta, tb) == (INT, INT):
            table = {ast.Lt: "%s <? %s" % (a, b), ast.LtE: "%s <=? %s" % (a, b), ast.Gt: "%s <? %s" % (b, a),
                     ast.GtE: "%s <=? %s" % (b, a), ast.Eq: "%s =? %s" % (a, b), ast.NotEq: "negb (%s =? %s)" % (a, b)}
            if type(op) not in table:
                self.fail(e, "unsupported comparison operator")
            return table[type(op)], BOOL
        if (ta, tb) == (STR, STR) and isinstance(op, (ast.Eq, ast.NotEq)):
            t = "str_eqb %s %s" % (a, b)
            return (t if isinstance(op, ast.Eq) else "negb (%s)" % t), BOOL
        if (ta, tb) == (CHAR, CHAR) and isinstance(op, (ast.Eq, ast.NotEq)):
            t = "N.eqb %s %s" % (a, b)
            return (t if isinstance(op, ast.Eq) else "negb (%s)" % t), BOOL
        self.fail(e, "comparison of %s with %s" % (ta, tb))

    def truth(self, node, t, ty):
        if ty == BOOL:
            return t
        if ty == STR or (isinstance(ty, tuple) and ty[0] == "list"):
            return "nonempty %s" % _paren(t)
        if ty == OLABEL:
            return "label_truth %s" % _paren(t)
        if ty == INT:
            return "negb (%s =? 0)" % _paren(t)
        self.fail(node, "truth value of a %s" % (ty,))

    def cond(self, e, env):
        """a condition -> bool text"""
        if isinstance(e, ast.UnaryOp) and isinstance(e.op, ast.Not):
            return "negb %s" % _paren(self.cond(e.operand, env))
        if isinstance(e, ast.BoolOp):
            op = " && " if isinstance(e.op, ast.And) else " || "
            parts = []
            mark = len(self.guards)
            for i, v in enumerate(e.values):
                if i:
                    self.pure_only += 1
                try:
                    parts.append(_paren(self.cond(v, env)))
                finally:
                    if i:
                        self.pure_only -= 1
                if isinstance(e.op, ast.And):
                    self.guards.append(ast.dump(v))
            del self.guards[mark:]
            return op.join(parts)
        if isinstance(e, ast.Name):
            t, ty = self.lookup(e, env, allow_mut=True)      # `if section_list:` reads only
        else:
            t, ty = self.expr(e, env)
        return self.truth(e, t, ty)

    def coerce(self, node, t, ty, to):
        if ty == to:
            return t
        if ty == CHAR and to == STR:
            return "[%s]" % t
        self.fail(node, "a %s where a %s is expected" % (ty, to))

    def comprehension(self, e, env):
        if len(e.generators) != 1:
            self.fail(e, "only one `for` per comprehension")
        g = e.generators[0]
        if g.is_async:
            self.fail(e, "async comprehension")
        self.pure_only += 1
        try:
            it, ety = self.iterable(g.iter, env)
            inner = env.copy()
            names = self.bind_target(g.target, ety, inner, loop=False)
            pat = self.pat(names)
            src = _paren(it)
            for c in g.ifs:
                src = "(filter (fun %s => %s) %s)" % (pat, self.cond(c, inner), src)
            body, tb = self.expr(e.elt, inner)
        finally:
            self.pure_only -= 1
        if is_mutable(LIST(tb)) or tb in (SEC, OPAQUE):
            self.fail(e, "a comprehension that collects sections")
        return "map (fun %s => %s) %s" % (pat, body, src), LIST(tb)

    def expr(self, e, env, want=None):
        if isinstance(e, ast.Name):
            return self.lookup(e, env)
        if isinstance(e, ast.Constant):
            return self.const(e, want)
        if isinstance(e, ast.Attribute):
            return self.attribute(e, env)
        if isinstance(e, ast.Call):
            return self.call(e, env)
        if isinstance(e, ast.Subscript):
            return self.subscript(e, env)
        if isinstance(e, ast.Compare):
            return self.compare(e, env)
        if isinstance(e, ast.BoolOp) or (isinstance(e, ast.UnaryOp) and isinstance(e.op, ast.Not)):
            return self.cond(e, env), BOOL
        if isinstance(e, ast.BinOp):
            a, ta, b, tb = self.two(e, e.left, e.right, env)
            if isinstance(e.op, ast.Mult) and (ta, tb) == (PROB, PROB):
                return "pmul %s %s" % (_paren(a), _paren(b)), PROB
            if isinstance(e.op, (ast.Add, ast.Sub)) and (ta, tb) == (INT, INT):
                return "%s %s %s" % (_paren(a), "+" if isinstance(e.op, ast.Add) else "-", _paren(b)), INT
            self.fail(e, "unsupported arithmetic on %s and %s" % (ta, tb))
        if isinstance(e, ast.IfExp):
            self.pure_only += 1
            try:
                c = self.cond(e.test, env)
                a, ta = self.expr(e.body, env, want)
                b, tb = self.expr(e.orelse, env, want)
            finally:
                self.pure_only -= 1
            ty = ta if ta == tb else (STR if {ta, tb} == {STR, CHAR} else None)
            if ty is None:
                self.fail(e, "the two sides of a conditional expression have types %s and %s" % (ta, tb))
            return "if %s then %s else %s" % (c, self.coerce(e, a, ta, ty), self.coerce(e, b, tb, ty)), ty
        if isinstance(e, (ast.ListComp, ast.GeneratorExp)):
            return self.comprehension(e, env)
        self.fail(e, "unsupported expression (%s)" % type(e).__name__)

    # -------------------------------------------------------------- statements
    def bind_target(self, target, ty, env, loop):
        """bind the names of a loop / comprehension target of element type ty; -> list of names"""
        if isinstance(target, ast.Name):
            names, tys = [target.id], [ty]
        elif isinstance(target, ast.Tuple) and all(isinstance(x, ast.Name) for x in target.elts):
            if not (isinstance(ty, tuple) and ty[0] == "tuple") or len(ty[1]) != len(target.elts):
                self.fail(target, "a %s is unpacked into %d names" % (ty, len(target.elts)))
            names, tys = [x.id for x in target.elts], list(ty[1])
        else:
            self.fail(target, "unsupported loop target")
        if len(set(names)) != len(names):
            self.fail(target, "a name occurs twice in the target")
        for n, t in zip(names, tys):
            self.check_name(target, n)
            if loop and n in env.types:
                self.fail(target, "the loop variable %r already has a value (after an empty loop Python keeps it)" % n)
            env.types[n] = t
        return names

    def assigned(self, stmts):
        """names (re)bound somewhere in stmts, in order of first occurrence; refuses what the subset has no form for"""
        out = []

        def add(n):
            if n not in out:
                out.append(n)

        def target(t):
            if isinstance(t, ast.Name):
                add(t.id)
            elif isinstance(t, ast.Tuple):
                for x in t.elts:
                    target(x)
            else:
                self.fail(t, "unsupported assignment target (only local names: the scorer object is never written)")

        def walk(ss):
            for s in ss:
                if isinstance(s, ast.Assign):
                    for t in s.targets:
                        target(t)
                    self.scan_expr(s.value, add)
                elif isinstance(s, ast.AugAssign):
                    target(s.target)
                    self.scan_expr(s.value, add)
                elif isinstance(s, ast.Expr):
                    self.scan_expr(s.value, add)
                elif isinstance(s, ast.Return):
                    if s.value is not None:
                        self.scan_expr(s.value, add)
                elif isinstance(s, ast.If):
                    self.scan_expr(s.test, add)
                    walk(s.body)
                    walk(s.orelse)
                elif isinstance(s, ast.For):
                    if s.orelse:
                        self.fail(s, "for ... else is not supported")
                    target(s.target)
                    self.scan_expr(s.iter, add)
                    walk(s.body)
                elif isinstance(s, ast.Try):
                    walk(s.body)
                    for h in s.handlers:
                        walk(h.body)
                    walk(s.orelse)
                    walk(s.finalbody)
                elif isinstance(s, ast.Pass):
                    pass
                else:
                    self.fail(s, "unsupported statement (%s)" % type(s).__name__)

        walk(stmts)
        return out

    def scan_expr(self, e, add):
        """the detectors' in-place edits count as assignments of the variable passed; nothing else binds a name"""
        for n in ast.walk(e):
            if isinstance(n, (ast.NamedExpr, ast.Lambda, ast.Yield, ast.YieldFrom, ast.Await, ast.Starred, ast.SetComp,
                              ast.DictComp, ast.Dict, ast.Set, ast.JoinedStr, ast.FormattedValue)):
                self.fail(n, "unsupported construct (%s)" % type(n).__name__)
            if isinstance(n, ast.Call) and isinstance(n.func, ast.Name) and n.func.id in self.detectors:
                mut = self.detectors[n.func.id][2]
                if mut is not None and mut < len(n.args) and isinstance(n.args[mut], ast.Name):
                    add(n.args[mut].id)

    def flush(self, ind, s=None):
        """the pending KeyError subscripts of the current statement -> (text, number of parentheses left open)"""
        text = ""
        for k, (m, v) in enumerate(self.pending):
            text += self.line(ind, "bind (%s) (fun %s =>" % (m, v), s if k == 0 else None)
        n = len(self.pending)
        self.pending = []
        return text, n

    def detector_call(self, s, call, targets, env, ind):
        """[targets =] f(args) for a detector f -> (text, parentheses left open); binds the targets in env"""
        coq, argtys, mut, ret = self.detectors[call.func.id]
        if call.keywords or len(call.args) != len(argtys) or any(isinstance(a, ast.Starred) for a in call.args):
            self.fail(call, "%s is called with other arguments than the translator knows" % call.func.id)
        if self.in_try:
            self.fail(call, "a detector is called inside a try block (what it raises is not modelled as KeyError)")
        args = []
        mutated = None
        for k, (a, want) in enumerate(zip(call.args, argtys)):
            if is_mutable(want):
                if not isinstance(a, ast.Name):
                    self.fail(a, "the section list argument must be a local variable")
                t, ty = self.lookup(a, env, allow_mut=True)
                if k == mut:
                    if a.id in self.iterating:
                        self.fail(a, "the section list is edited while it is iterated")
                    mutated = a.id
            else:
                t, ty = self.expr(a, env)
            if ty != want:
                self.fail(a, "argument %d of %s is a %s, expected %s" % (k + 1, call.func.id, ty, want))
            args.append(_paren(t))
        if self.pending:
            self.fail(call, "an argument of a detector can raise KeyError")
        # the pattern of the result
        if targets is None:
            rpat = "_"
        elif isinstance(targets, ast.Name):
            self.check_name(targets, targets.id)
            if ret == OPAQUE:
                self.fail(targets, "a value the model does not have")
            rpat = targets.id
            bound = [(targets.id, ret)]
        elif isinstance(targets, ast.Tuple) and all(isinstance(x, ast.Name) for x in targets.elts):
            if not (isinstance(ret, tuple) and ret[0] == "tuple" and len(ret[1]) == len(targets.elts)):
                self.fail(targets, "%s returns a %s, unpacked into %d names" % (call.func.id, ret, len(targets.elts)))
            names = [x.id for x in targets.elts]
            if len(set(names)) != len(names):
                self.fail(targets, "a name occurs twice in the target")
            for n in names:
                self.check_name(targets, n)
            rpat = "(" + ", ".join(names) + ")"
            bound = list(zip(names, ret[1]))
        else:
            self.fail(targets, "unsupported assignment target")
        if targets is None:
            bound = []
        if mutated is not None:
            if any(n == mutated for n, _ in bound):
                self.fail(targets, "the result is assigned to the section list that was passed")
            pat = "'(%s, %s)" % (mutated, rpat)
        else:
            if rpat == "_":
                pat = "_"
            else:
                pat = "'" + rpat if rpat.startswith("(") else rpat
        for n, t in bound:
            old = env.types.get(n)
            if old is not None and is_mutable(old) and not is_mutable(t):
                pass
            env.types[n] = t
        text = self.line(ind, "bind (call (%s D %s)) (fun %s =>" % (coq, " ".join(args), pat), s)
        return text, 1

    def simple(self, s, env, ind):
        """an assignment / expression statement -> (text, parentheses left open); updates env"""
        self.tmp = 0
        if isinstance(s, ast.Expr):
            v = s.value
            if isinstance(v, ast.Call) and isinstance(v.func, ast.Name) and v.func.id in self.detectors:
                return self.detector_call(s, v, None, env, ind)
            self.fail(s, "an expression statement that is not the call of a detector")
        if isinstance(s, ast.Assign):
            if len(s.targets) != 1:
                self.fail(s, "chained assignment")
            tgt, v = s.targets[0], s.value
            if isinstance(v, ast.Call) and isinstance(v.func, ast.Name) and v.func.id in self.detectors:
                return self.detector_call(s, v, tgt, env, ind)
            if not isinstance(tgt, ast.Name):
                self.fail(s, "unsupported assignment target")
            self.check_name(tgt, tgt.id)
            t, ty = self.expr(v, env, want=env.types.get(tgt.id, env.hints.get(tgt.id)))
        else:
            tgt = s.target
            if not isinstance(tgt, ast.Name):
                self.fail(s, "unsupported assignment target")
            if not isinstance(s.op, (ast.Mult, ast.Add, ast.Sub)):
                self.fail(s, "unsupported augmented assignment")
            fake = ast.BinOp(left=ast.Name(id=tgt.id, ctx=ast.Load()), op=s.op, right=s.value)
            ast.copy_location(fake, s)
            ast.copy_location(fake.left, s)
            t, ty = self.expr(fake, env)
        if ty in (OPAQUE, SELF, OMEN) or is_mutable(ty) or ty == SEC:
            self.fail(s, "a %s is assigned to a variable" % (ty,))
        old = env.types.get(tgt.id)
        if old is not None and old != ty:
            self.fail(s, "%r changes its type from %s to %s" % (tgt.id, old, ty))
        pre, n = self.flush(ind, s)
        env.types[tgt.id] = ty
        return pre + self.line(ind, "let %s := %s in" % (tgt.id, t), s if not pre else None), n

    def join_vars(self, names, envs, before):
        """of the names assigned in the branches: those that have a value (of one type) at the end of every live
        branch; the others are unreadable afterwards"""
        live = [e for e in envs if e is not None]
        keep = []
        for n in names:
            tys = {e.types.get(n) for e in live}
            if len(tys) == 1 and None not in tys:
                keep.append(n)
            elif None not in tys:
                self.fail(self.fn, "%r has different types on the paths that meet: %r" % (n, sorted(map(str, tys))))
        after = before.copy()
        for n in names:
            after.drop(n)
        for n in keep:
            after.types[n] = live[0].types[n]
        return keep, after

    DRY = staticmethod(lambda env: "?")

    def dry(self, stmts, env):
        """the environment at the end of stmts (None: every path leaves the function)"""
        saved = (self.tmp, list(self.pending))
        _, out = self.block(stmts, env.copy(), self.DRY, 0)
        self.tmp, self.pending = saved
        return out

    def block(self, stmts, env, tail, ind):
        """-> (text, environment at the end or None when every path returns)"""
        if self.pending:
            raise TranslateError("internal: pending computations at a block boundary")
        if not stmts:
            if tail is None:
                self.fail(self.fn, "a path reaches the end of the function without `return`")
            return self.line(ind, tail(env)), env
        s, rest = stmts[0], stmts[1:]
        if isinstance(s, ast.Pass) or (isinstance(s, ast.Expr) and isinstance(s.value, ast.Constant)
                                       and type(s.value.value) is str):
            return self.block(rest, env, tail, ind)
        if isinstance(s, ast.Return):
            if rest:
                self.fail(rest[0], "statements after `return`")
            v = s.value
            if not isinstance(v, ast.Tuple) or len(v.elts) != len(RET):
                self.fail(s, "parse must return a tuple of %d values" % len(RET))
            self.tmp = 0
            parts = []
            for x, want in zip(v.elts, RET):
                t, ty = self.expr(x, env, want=want)
                if ty != want:
                    self.fail(x, "component of the result is a %s, expected %s" % (ty, want))
                parts.append(t)
            pre, n = self.flush(ind, s)
            return _close(pre + self.line(ind, "Retn (%s)" % ", ".join(parts), s if not pre else None), ")" * n), None
        if isinstance(s, (ast.Assign, ast.AugAssign, ast.Expr)):
            head, n = self.simple(s, env, ind)
            body, out = self.block(rest, env, tail, ind)
            return head + _close(body, ")" * n), out
        if isinstance(s, ast.If):
            return self.if_stmt(s, rest, env, tail, ind)
        if isinstance(s, ast.For):
            return self.for_stmt(s, rest, env, tail, ind)
        if isinstance(s, ast.Try):
            return self.try_stmt(s, rest, env, tail, ind)
        self.fail(s, "unsupported statement (%s)" % type(s).__name__)

    def if_stmt(self, s, rest, env, tail, ind):
        self.tmp = 0
        c = self.cond(s.test, env)
        pre, n = self.flush(ind, s)
        eb = self.dry(s.body, env)
        ee = self.dry(s.orelse, env)
        first = self.line(ind, "if %s then" % c, s if not pre else None)
        if eb is None and ee is None:
            if rest:
                self.fail(rest[0], "statements after a conditional that returns on both sides")
            tb, _ = self.block(s.body, env.copy(), tail, ind + 1)
            te, _ = self.block(s.orelse, env.copy(), tail, ind + 1)
            return _close(pre + first + tb + self.line(ind, "else") + te, ")" * n), None
        if eb is None:
            tb, _ = self.block(s.body, env.copy(), tail, ind + 1)
            te, out = self.block(list(s.orelse) + list(rest), env, tail, ind)
            return _close(pre + first + tb + self.line(ind, "else") + te, ")" * n), out
        if ee is None:
            te, _ = self.block(s.orelse, env.copy(), tail, ind + 1)
            tb, out = self.block(list(s.body) + list(rest), env, tail, ind + 1)
            return _close(pre + first + tb + self.line(ind, "else") + te, ")" * n), out
        names = self.assigned(list(s.body) + list(s.orelse))
        keep, after = self.join_vars(names, [eb, ee], env)
        tj = (lambda e, keep=keep: "Norm %s" % self.tup(keep))
        tb, _ = self.block(s.body, env.copy(), tj, ind + 3)
        te, _ = self.block(s.orelse, env.copy(), tj, ind + 3)
        head = pre + self.line(ind, "bind (if %s then" % c, s if not pre else None) + tb + self.line(ind + 2, " else") \
            + _close(te, ") (fun %s =>" % self.pat(keep))
        body, out = self.block(rest, after, tail, ind)
        return head + _close(body, ")" * (n + 1)), out

    def for_stmt(self, s, rest, env, tail, ind):
        if s.orelse:
            self.fail(s, "for ... else is not supported")
        for nd in ast.walk(s):
            if isinstance(nd, (ast.Break, ast.Continue)):
                self.fail(nd, "break / continue are not supported")
        self.tmp = 0
        it, ety = self.iterable(s.iter, env)
        pre, n = self.flush(ind, s)
        inner = env.copy()
        tnames = self.bind_target(s.target, ety, inner, loop=True)
        names = [x for x in self.assigned(s.body) if x not in tnames]
        for x in self.assigned(s.body):
            if x in tnames:
                self.fail(s, "the loop variable %r is assigned in the loop" % x)
        state = [x for x in names if x in env.types]
        iterated = [nd.id for nd in ast.walk(s.iter) if isinstance(nd, ast.Name)]
        self.iterating += iterated
        try:
            eo = self.dry(s.body, inner)
            if eo is not None:
                for x in state:
                    if eo.types.get(x) != env.types[x]:
                        self.fail(s, "%r is carried by the loop but has no value (or another type) at the end of its body" % x)
            tj = (lambda e, state=state: "Norm %s" % self.tup(state))
            tb, _ = self.block(s.body, inner.copy(), tj, ind + 2)
        finally:
            del self.iterating[len(self.iterating) - len(iterated):]
        after = env.copy()
        for x in names:
            if x not in state:
                after.drop(x)
        spat = self.pat(state)
        head = pre + self.line(ind, "bind (for_each %s (fun %s %s =>" % (_paren(it), self.pat(tnames), spat),
                               s if not pre else None) \
            + _close(tb, ") %s) (fun %s =>" % (self.tup(state), spat))
        body, out = self.block(rest, after, tail, ind)
        return head + _close(body, ")" * (n + 1)), out

    def try_stmt(self, s, rest, env, tail, ind):
        if len(s.handlers) != 1 or s.orelse or s.finalbody:
            self.fail(s, "only `try: .. except KeyError: ..` is supported")
        h = s.handlers[0]
        if not (isinstance(h.type, ast.Name) and h.type.id == "KeyError") or h.name is not None:
            self.fail(h, "only `except KeyError:` (without a name) is supported")
        ab = self.assigned(s.body)
        ah = self.assigned(h.body)
        hstart = env.copy()
        for x in ab:
            hstart.drop(x)
        self.in_try += 1
        try:
            eb = self.dry(s.body, env)
        finally:
            self.in_try -= 1
        eh = self.dry(h.body, hstart)
        names = ab + [x for x in ah if x not in ab]
        if eb is None and eh is None:
            if rest:
                self.fail(rest[0], "statements after a try statement that returns on both paths")
            keep, after = [], None
        else:
            keep, after = self.join_vars(names, [eb, eh], env)
        tj = (lambda e, keep=keep: "Norm %s" % self.tup(keep))
        self.in_try += 1
        try:
            tb, _ = self.block(s.body, env.copy(), tj, ind + 2)
        finally:
            self.in_try -= 1
        th, _ = self.block(h.body, hstart.copy(), tj, ind + 2)
        if after is None:
            return self.line(ind, "try_keyerror (", s) + _close(tb, ")") + self.line(ind + 1, "(", h) + _close(th, ")"), None
        head = self.line(ind, "bind (try_keyerror (", s) + _close(tb, ")") \
            + self.line(ind + 1, "(", h) + _close(th, ")) (fun %s =>" % self.pat(keep))
        body, out = self.block(rest, after, tail, ind)
        return head + _close(body, ")"), out

    # -------------------------------------------------------------- the function
    def translate(self):
        fn = self.fn
        a = fn.args
        if fn.decorator_list or a.vararg or a.kwarg or a.kwonlyargs or a.posonlyargs or a.kw_defaults or a.defaults:
            self.fail(fn, "unsupported signature")
        names = [x.arg for x in a.args]
        if len(names) != 2 or names[0] != "self":
            self.fail(fn, "parameters are %r, the translator knows (self, password)" % names)
        if any(x.annotation is not None for x in a.args) or fn.returns is not None:
            self.fail(fn, "annotations are not supported")
        pw = names[1]
        self.check_name(fn, pw)
        for nd in ast.walk(fn):
            if isinstance(nd, (ast.Global, ast.Nonlocal, ast.FunctionDef, ast.AsyncFunctionDef, ast.ClassDef, ast.While,
                               ast.With, ast.AsyncWith, ast.AsyncFor, ast.Raise, ast.Assert, ast.Delete, ast.Import,
                               ast.ImportFrom, ast.AnnAssign, ast.Match)) and nd is not fn:
                self.fail(nd, "unsupported construct (%s)" % type(nd).__name__)
        self.assigned(fn.body)      # refuses targets that are not local names
        env = Env()
        env.types[pw] = STR
        body, out = self.block(list(fn.body), env, None, 1)
        if out is not None:
            self.fail(fn, "a path reaches the end of the function without `return`")
        text = "(* %s:%d  %s.%s *)\n" % (SOURCE, fn.lineno, CLASS, fn.name)
        text += ("(* P: probabilities with `*` (pmul), 0 (p0), 1.0 (p1), float `<` `<=` `==` (pltb pleb peqb);\n"
                 "   upper_c: str.upper() of one character; D: the detectors of lib_trainer the module imports *)\n")
        text += ("Definition %s (P : Type) (pmul : P -> P -> P) (p0 p1 : P) (pltb pleb peqb : P -> P -> bool)\n"
                 "    (upper_c : N -> str) (D : detectors) (self : scorer_obj P) (%s : str) : res (str * str * P * Z) := run_fn (\n"
                 % (COQ_NAME, pw))
        text += _close(body, ").")
        return text


def module_bindings(tree):
    """name -> number of bindings at module level"""
    n = {}

    def add(x):
        n[x] = n.get(x, 0) + 1
    for s in tree.body:
        if isinstance(s, (ast.FunctionDef, ast.AsyncFunctionDef, ast.ClassDef)):
            add(s.name)
        elif isinstance(s, (ast.Import, ast.ImportFrom)):
            for al in s.names:
                add((al.asname or al.name).split(".")[0])
        elif isinstance(s, (ast.Assign, ast.AugAssign, ast.AnnAssign)):
            for t in (s.targets if isinstance(s, ast.Assign) else [s.target]):
                for m in ast.walk(t):
                    if isinstance(m, ast.Name):
                        add(m.id)
        elif isinstance(s, ast.Expr) and isinstance(s.value, ast.Constant):
            pass
        else:
            raise TranslateError("%s:%d: unsupported statement at module level (%s)" % (SOURCE, s.lineno, type(s).__name__))
    return n


def check_init(path, cls):
    """the kinds of the tables, from the assignments of __init__"""
    inits = [n for n in cls.body if isinstance(n, ast.FunctionDef) and n.name == "__init__"]
    if len(inits) != 1:
        raise TranslateError("%s: %s.__init__ not found exactly once" % (path, CLASS))
    found = {}
    for meth in cls.body:
        if not isinstance(meth, ast.FunctionDef):
            continue
        for n in ast.walk(meth):
            targets = []
            if isinstance(n, ast.Assign):
                targets = n.targets
            elif isinstance(n, (ast.AugAssign, ast.AnnAssign)):
                targets = [n.target]
            elif isinstance(n, ast.Delete):
                targets = n.targets
            for t in targets:
                for m in ast.walk(t):
                    if isinstance(m, ast.Attribute) and isinstance(m.value, ast.Name) and m.value.id == "self" \
                            and m.attr in ATTRS and ATTRS[m.attr][1] is not None:
                        if meth.name != "__init__" or not isinstance(n, ast.Assign) or len(n.targets) != 1 or m is not t:
                            raise TranslateError("%s:%d: self.%s is assigned outside the plain initialisation of __init__"
                                                 % (path, n.lineno, m.attr))
                        v = n.value
                        if isinstance(v, ast.Dict) and not v.keys:
                            kind = "dict"
                        elif isinstance(v, ast.Call) and isinstance(v.func, ast.Name) and v.func.id == "Counter" \
                                and not v.args and not v.keywords:
                            kind = "counter"
                        else:
                            raise TranslateError("%s:%d: self.%s is initialised with something that is neither {} nor "
                                                 "Counter()" % (path, n.lineno, m.attr))
                        if m.attr in found:
                            raise TranslateError("%s:%d: self.%s is initialised twice" % (path, n.lineno, m.attr))
                        found[m.attr] = kind
    for attr, (_, kind) in ATTRS.items():
        if kind is not None and found.get(attr) != kind:
            raise TranslateError("%s: self.%s is %s in __init__, the translator reads it as %s"
                                 % (path, attr, found.get(attr, "not initialised"), kind))


def render(repo=None):
    """-> text of gen/Scorer_gen.v for the sources of the current working tree"""
    repo = repo or common.REPO
    path = os.path.join(repo, SOURCE)
    with open(path, encoding="utf-8", newline="") as f:
        src = f.read()
    tree = ast.parse(src, filename=path)
    classes = [n for n in tree.body if isinstance(n, ast.ClassDef) and n.name == CLASS]
    if len(classes) != 1:
        raise TranslateError("%s: class %s not found exactly once" % (path, CLASS))
    cls = classes[0]
    if cls.decorator_list or cls.keywords:
        raise TranslateError("%s:%d: class %s has decorators / keywords" % (path, cls.lineno, CLASS))
    defs = [n for n in cls.body if isinstance(n, (ast.FunctionDef, ast.AsyncFunctionDef)) and n.name == FUNC]
    if len(defs) != 1 or not isinstance(defs[0], ast.FunctionDef):
        raise TranslateError("%s: %s.%s not found exactly once" % (path, CLASS, FUNC))
    fn = defs[0]
    # a rebinding of parse inside this file would make the translated def not the one that runs
    for n in ast.walk(tree):
        if isinstance(n, (ast.Assign, ast.AugAssign, ast.AnnAssign, ast.Delete)):
            targets = n.targets if isinstance(n, (ast.Assign, ast.Delete)) else [n.target]
            for t in targets:
                for m in ast.walk(t):
                    if (isinstance(m, ast.Name) and m.id == FUNC and n in cls.body) or \
                            (isinstance(m, ast.Attribute) and m.attr == FUNC):
                        raise TranslateError("%s:%d: %s is rebound" % (path, n.lineno, ast.unparse(t)))
        if isinstance(n, ast.Name) and n.id in ("setattr", "delattr", "__dict__", "globals", "locals", "exec", "eval"):
            raise TranslateError("%s:%d: %s is used in the module" % (path, n.lineno, n.id))
    counts = module_bindings(tree)
    # the detectors: from <module> import <name> [as <alias>]
    detectors = {}
    for s in tree.body:
        if isinstance(s, ast.ImportFrom) and s.level == 0:
            for al in s.names:
                key = (s.module, al.name)
                if key in DETECTORS:
                    local = al.asname or al.name
                    if counts.get(local) != 1:
                        raise TranslateError("%s:%d: %s is bound more than once in the module" % (path, s.lineno, local))
                    detectors[local] = DETECTORS[key]
    missing = {d[0] for d in DETECTORS.values()} - {d[0] for d in detectors.values()}
    for b in BUILTINS_USED | {"Counter"}:
        if b == "Counter":
            ok = counts.get(b) == 1 and any(isinstance(s, ast.ImportFrom) and s.module == "collections" and s.level == 0
                                            and any(al.name == "Counter" and al.asname is None for al in s.names)
                                            for s in tree.body)
            if not ok:
                raise TranslateError("%s: Counter is not (only) collections.Counter" % path)
        elif counts.get(b):
            raise TranslateError("%s: the builtin %s is rebound in the module" % (path, b))
    check_init(path, cls)
    # plain functions of the module (called helpers are inlined)
    helpers = {s.name: s for s in tree.body if isinstance(s, ast.FunctionDef) and counts.get(s.name) == 1}
    tr = Tr(path, fn, detectors, helpers)
    body = tr.translate()
    head = (
        "(* GENERATED by harness/translate_scorer.py from the Python source of the current\n"
        "   working tree (%s, class %s) on every run of a check.  Do not edit.\n"
        "   The definition is the line-by-line image of the Python function in the subset\n"
        "   documented in the translator; the numbers in the comments are source lines.\n"
        "   theories/ScorerGenProofs.v proves it equal to the hand-written model of\n"
        "   theories/Scorer.v over Segment.parse.%s *)\n"
        "From Coq Require Import List ZArith NArith Bool.\n"
        "From Pcfg Require Import Str Multiword Detect Segment Scorer ScorerRt.\n"
        "Import ListNotations.\n"
        "Open Scope Z_scope.\n\n"
        "\n" % (SOURCE, CLASS,
                 ("\n   Detectors not imported by the module: %s." % ", ".join(sorted(missing))) if missing else ""))
    return head + body


def failure_text(err):
    """text written instead of the definition when the translation fails: it must not
    compile, so that no stale generated definition survives"""
    return ("(* GENERATED by harness/translate_scorer.py.  The translation of the current sources FAILED:\n"
            "   %s\n   The line below does not type-check on purpose. *)\n"
            "Definition scorer_translation_failed : False := I.\n" % _comment(str(err)))


def write(repo=None):
    import extract_consts as X
    path = os.path.join(common.COQ, OUT)
    try:
        text = render(repo)
    except Exception as e:
        X.write(path, failure_text("%s: %s" % (type(e).__name__, e)))
        raise
    return X.write(path, text)


if __name__ == "__main__":
    if "--write" in sys.argv[1:]:
        print("written" if write() else "unchanged", os.path.join(common.COQ, OUT))
    else:
        sys.stdout.write(render())
